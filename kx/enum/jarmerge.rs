	// =====================================================================================================================
	// bounded exhaustive enumeration for dukebox::merge (C13): class level (class_merger_merge / merge_slice /
	// sided_annotation) and jar level (merge: the Client / Server / Both table), on ParsedJar inputs and on zip archives.
	//
	// Everything is generated from an own model (plain strings and numbers).  The expected result is decided at model
	// level from the sentences of C13 only (see `check_list`, `check_merged_class`, `check_one_sided_class`,
	// `check_merged_jar`); the code under test is never asked what the answer should be.
	// =====================================================================================================================
	use std::collections::BTreeMap;
	use std::io::{Cursor, Read, Write};
	use java_string::JavaString;
	use duke::tree::annotation::Object;
	use duke::tree::attribute::Attribute;
	use duke::tree::class::{ClassAccess, ClassName, ClassSignature, InnerClass, InnerClassFlags};
	use duke::tree::field::{ConstantValue, FieldAccess, FieldName, FieldSignature};
	use duke::tree::method::{MethodAccess, MethodDescriptor, MethodName, MethodSignature};
	use duke::tree::version::Version;
	use crate::storage::{BasicFileAttributes, UnnamedMemJar};

	fn js(s: &str) -> JavaString { JavaString::from(s.to_owned()) }
	fn sj(s: &JavaStr) -> String { s.as_str_lossy().into_owned() }
	fn ocn(s: &str) -> ObjClassName { ObjClassName::try_from(js(s)).unwrap_or_else(|e| panic!("harness: bad class name {s:?}: {e:#}")) }
	fn cn(s: &str) -> ClassName { ClassName::try_from(js(s)).unwrap_or_else(|e| panic!("harness: bad class name {s:?}: {e:#}")) }
	fn fdesc(s: &str) -> FieldDescriptor { FieldDescriptor::try_from(js(s)).unwrap_or_else(|e| panic!("harness: bad field descriptor {s:?}: {e:#}")) }
	fn mdesc(s: &str) -> MethodDescriptor { MethodDescriptor::try_from(js(s)).unwrap_or_else(|e| panic!("harness: bad method descriptor {s:?}: {e:#}")) }
	fn mname(s: &str) -> MethodName { MethodName::try_from(js(s)).unwrap_or_else(|e| panic!("harness: bad method name {s:?}: {e:#}")) }
	fn fname(s: &str) -> FieldName { FieldName::try_from(js(s)).unwrap_or_else(|e| panic!("harness: bad field name {s:?}: {e:#}")) }

	/// panics of the code under test are expected in places (they are caught and reported as failing inputs): keep stderr small,
	/// but never hide a panic of the harness itself
	fn quiet() {
		static ONCE: std::sync::Once = std::sync::Once::new();
		ONCE.call_once(|| std::panic::set_hook(Box::new(|info| {
			let p = info.payload();
			let m = p.downcast_ref::<&str>().map(|s| s.to_string()).or_else(|| p.downcast_ref::<String>().cloned()).unwrap_or_default();
			if m.starts_with("harness:") || m.contains("failing input(s)") { eprintln!("{m}"); }
		})));
	}

	enum Out<T> { Ok(T), Err(String), Panic }
	fn run<T>(f: impl FnOnce() -> Result<T>) -> Out<T> {
		match guarded(f) { Ok(Some(Ok(v))) => Out::Ok(v), Ok(Some(Err(e))) => Out::Err(format!("{e:#}")), _ => Out::Panic }
	}

	// ---------------------------------------------------------------------------------------------------------------------
	// model of a class
	// ---------------------------------------------------------------------------------------------------------------------
	#[derive(Clone, Copy, Debug, PartialEq, Eq, PartialOrd, Ord)]
	enum MSide { Client, Server }

	/// what a member carries besides key and access flags
	#[derive(Clone, Copy, Debug, PartialEq, Eq)]
	enum Extra { Plain, Annotated, Deprecated, SyntheticAttr, Payload, Signature }

	#[derive(Clone, Debug, PartialEq, Eq)]
	struct MMember { name: String, desc: String, access: u16, extra: Extra }
	#[derive(Clone, Debug, PartialEq, Eq)]
	struct MInner { inner: String, outer: Option<String>, name: Option<String>, flags: u16 }
	/// `rich` selects one of two class shells (everything of a class besides interfaces, fields, methods and inner class records)
	#[derive(Clone, Debug, PartialEq, Eq)]
	struct MClass { name: String, rich: bool, interfaces: Vec<String>, fields: Vec<MMember>, methods: Vec<MMember>, inners: Vec<MInner> }

	fn show_members(l: &[MMember]) -> String {
		let v: Vec<String> = l.iter().map(|m| format!("{}:{}/{:#06x}/{:?}", m.name, m.desc, m.access, m.extra)).collect();
		format!("[{}]", v.join(", "))
	}
	fn show_inners(l: &[MInner]) -> String {
		let v: Vec<String> = l.iter().map(|i| format!("{}(outer={:?},name={:?},flags={:#06x})", i.inner, i.outer, i.name, i.flags)).collect();
		format!("[{}]", v.join(", "))
	}
	fn show_class(c: &MClass) -> String {
		format!("class {}{{shell={} interfaces={:?} fields={} methods={} inner={}}}", c.name, if c.rich { "rich" } else { "plain" }, c.interfaces,
			show_members(&c.fields), show_members(&c.methods), show_inners(&c.inners))
	}

	fn keep_anno() -> Annotation {
		Annotation { annotation_type: fdesc("Lx/Keep;"), element_value_pairs: vec![ElementValuePair { name: js("v"), value: ElementValue::Object(Object::Integer(3)) }] }
	}
	fn hid_anno() -> Annotation { Annotation::new(fdesc("Lx/Hid;")) }

	fn build_field(m: &MMember) -> Field {
		let mut f = Field::new(FieldAccess::from(m.access), fname(&m.name), fdesc(&m.desc));
		match m.extra {
			Extra::Plain => {},
			Extra::Annotated => { f.runtime_visible_annotations.push(keep_anno()); f.runtime_invisible_annotations.push(hid_anno()); },
			Extra::Deprecated => f.has_deprecated_attribute = true,
			Extra::SyntheticAttr => f.has_synthetic_attribute = true,
			Extra::Payload => f.constant_value = Some(ConstantValue::Integer(7)),
			Extra::Signature => f.signature = Some(FieldSignature::try_from(js("TT;")).unwrap_or_else(|e| panic!("harness: {e:#}"))),
		}
		f
	}
	fn build_method(m: &MMember) -> Method {
		let mut f = Method::new(MethodAccess::from(m.access), mname(&m.name), mdesc(&m.desc));
		match m.extra {
			Extra::Plain => {},
			Extra::Annotated => { f.runtime_visible_annotations.push(keep_anno()); f.runtime_invisible_annotations.push(hid_anno()); },
			Extra::Deprecated => f.has_deprecated_attribute = true,
			Extra::SyntheticAttr => f.has_synthetic_attribute = true,
			Extra::Payload => f.exceptions = Some(vec![cn("p/Ex")]),
			Extra::Signature => f.signature = Some(MethodSignature::try_from(js("<T:Ljava/lang/Object;>()V")).unwrap_or_else(|e| panic!("harness: {e:#}"))),
		}
		f
	}
	fn build_inner(i: &MInner) -> InnerClass {
		InnerClass { inner_class: cn(&i.inner), outer_class: i.outer.as_deref().map(cn), inner_name: i.name.as_deref().map(js), flags: InnerClassFlags::from(i.flags) }
	}
	fn build_class(c: &MClass) -> ClassFile {
		let mut cf = if c.rich {
			let mut cf = ClassFile::new(Version::V17, ClassAccess::from(0x0421), ocn(&c.name), Some(ocn("p/Base")), Vec::new());
			cf.has_deprecated_attribute = true;
			cf.source_file = Some(js("Source.java"));
			cf.signature = Some(ClassSignature::try_from(js("Lp/Base;")).unwrap_or_else(|e| panic!("harness: {e:#}")));
			cf.runtime_visible_annotations.push(keep_anno());
			cf.runtime_invisible_annotations.push(hid_anno());
			cf.attributes.push(Attribute { name: js("Custom"), bytes: vec![1, 2, 3] });
			cf
		} else {
			ClassFile::new(Version::V1_8, ClassAccess::from(0x0021), ocn(&c.name), Some(ocn("java/lang/Object")), Vec::new())
		};
		cf.interfaces = c.interfaces.iter().map(|i| ocn(i)).collect();
		cf.fields = c.fields.iter().map(build_field).collect();
		cf.methods = c.methods.iter().map(build_method).collect();
		cf.inner_classes = if c.inners.is_empty() { None } else { Some(c.inners.iter().map(build_inner).collect()) };
		cf
	}

	// ---------------------------------------------------------------------------------------------------------------------
	// the side markers, recognised independently of merge.rs (the convention of net.fabricmc.api: @Environment(EnvType.X) on
	// classes and members, @EnvironmentInterfaces({@EnvironmentInterface(value = EnvType.X, itf = I.class), ...}) for interfaces)
	// ---------------------------------------------------------------------------------------------------------------------
	const M_ENV: &str = "Lnet/fabricmc/api/Environment;";
	const M_ENV_TYPE: &str = "Lnet/fabricmc/api/EnvType;";
	const M_ENV_ITF: &str = "Lnet/fabricmc/api/EnvironmentInterface;";
	const M_ENV_ITFS: &str = "Lnet/fabricmc/api/EnvironmentInterfaces;";

	fn side_of(v: &ElementValue) -> Result<MSide, String> {
		match v {
			ElementValue::Enum { type_name, const_name } if sj(type_name.as_inner()) == M_ENV_TYPE => match sj(const_name).as_str() {
				"CLIENT" => Ok(MSide::Client),
				"SERVER" => Ok(MSide::Server),
				o => Err(format!("side marker names the unknown side {o:?}")),
			},
			o => Err(format!("side marker has the value {o:?} instead of an EnvType constant")),
		}
	}
	/// removes every @Environment marker from the two annotation lists (everything else stays, in order) and returns the sides they state
	fn strip_env(vis: &mut Vec<Annotation>, invis: &mut Vec<Annotation>) -> Result<Vec<MSide>, String> {
		let mut sides = Vec::new();
		for list in [vis, invis] {
			let mut keep = Vec::new();
			for a in list.drain(..) {
				if sj(a.annotation_type.as_inner()) == M_ENV {
					if a.element_value_pairs.len() != 1 || sj(&a.element_value_pairs[0].name) != "value" { return Err(format!("malformed side marker {a:?}")); }
					sides.push(side_of(&a.element_value_pairs[0].value)?);
				} else { keep.push(a); }
			}
			*list = keep;
		}
		Ok(sides)
	}
	/// removes every @EnvironmentInterfaces container and returns the (side, interface) pairs listed
	fn strip_itf(vis: &mut Vec<Annotation>, invis: &mut Vec<Annotation>) -> Result<Vec<(MSide, String)>, String> {
		let mut r = Vec::new();
		for list in [vis, invis] {
			let mut keep = Vec::new();
			for a in list.drain(..) {
				if sj(a.annotation_type.as_inner()) != M_ENV_ITFS { keep.push(a); continue; }
				if a.element_value_pairs.len() != 1 || sj(&a.element_value_pairs[0].name) != "value" { return Err(format!("malformed interface marker container {a:?}")); }
				let ElementValue::ArrayType(items) = &a.element_value_pairs[0].value else { return Err(format!("malformed interface marker container {a:?}")); };
				if items.is_empty() { return Err("empty interface marker container".into()); }
				for it in items {
					let ElementValue::AnnotationInterface(e) = it else { return Err(format!("malformed interface marker {it:?}")); };
					if sj(e.annotation_type.as_inner()) != M_ENV_ITF || e.element_value_pairs.len() != 2 { return Err(format!("malformed interface marker {e:?}")); }
					let (mut side, mut itf) = (None, None);
					for p in &e.element_value_pairs {
						match (sj(&p.name).as_str(), &p.value) {
							("value", v) => side = Some(side_of(v)?),
							("itf", ElementValue::Class(d)) => {
								let d = sj(d.as_inner());
								match d.strip_prefix('L').and_then(|x| x.strip_suffix(';')) { Some(n) => itf = Some(n.to_owned()), None => return Err(format!("interface marker names {d:?}")) }
							},
							_ => return Err(format!("malformed interface marker {e:?}")),
						}
					}
					match (side, itf) { (Some(s), Some(i)) => r.push((s, i)), _ => return Err(format!("malformed interface marker {e:?}")) }
				}
			}
			*list = keep;
		}
		Ok(r)
	}

	// ---------------------------------------------------------------------------------------------------------------------
	// oracles
	// ---------------------------------------------------------------------------------------------------------------------
	fn restrict(r: &[String], to: &[String]) -> Vec<String> { r.iter().filter(|x| to.contains(x)).cloned().collect() }
	/// "the two orders are compatible": no two shared elements are ordered oppositely
	fn compatible(a: &[String], b: &[String]) -> bool { restrict(a, b) == restrict(b, a) }

	/// C13 for one kind of list (interfaces, fields, methods, inner class records) of a class that differs between the sides:
	///  "contains every field, method and interface of either side exactly once"
	///  "one-sided members and interfaces marked with their side, shared members unmarked"
	///  "the relative order of members within each side preserved whenever the two orders are compatible"
	/// A one-sided element must be the element of its side; a shared element must be the client's or the server's version of it.
	/// client / server: (key, content) in the order of the side; out: (key, sides it is marked with, content without markers) in the order of the result.
	fn check_list<T: PartialEq + std::fmt::Debug>(what: &str, markable: bool, client: &[(String, T)], server: &[(String, T)], out: &[(String, Vec<MSide>, T)]) -> Result<(), String> {
		let ck: Vec<String> = client.iter().map(|x| x.0.clone()).collect();
		let sk: Vec<String> = server.iter().map(|x| x.0.clone()).collect();
		let ok: Vec<String> = out.iter().map(|x| x.0.clone()).collect();
		for (i, k) in ck.iter().enumerate() { if ck[..i].contains(k) { panic!("harness: duplicate {what} {k} on the client side"); } }
		for (i, k) in sk.iter().enumerate() { if sk[..i].contains(k) { panic!("harness: duplicate {what} {k} on the server side"); } }
		for (i, k) in ok.iter().enumerate() { if ok[..i].contains(k) { return Err(format!("{what} {k} occurs more than once in the result {ok:?}")); } }
		for k in ck.iter().chain(sk.iter()) { if !ok.contains(k) { return Err(format!("{what} {k} is missing in the result {ok:?}")); } }
		for (k, marks, t) in out {
			let c = client.iter().find(|x| x.0 == *k).map(|x| &x.1);
			let s = server.iter().find(|x| x.0 == *k).map(|x| &x.1);
			match (c, s) {
				(None, None) => return Err(format!("{what} {k} of the result is on neither side")),
				(Some(_), Some(_)) if !marks.is_empty() => return Err(format!("{what} {k} is on both sides but marked {marks:?}")),
				(Some(c), Some(s)) => if t != c && t != s { return Err(format!("shared {what} {k} is neither the client's nor the server's version: {t:?}")); },
				(Some(x), None) | (None, Some(x)) => {
					let side = if c.is_some() { MSide::Client } else { MSide::Server };
					if markable && *marks != vec![side] { return Err(format!("{what} {k} is on the {side:?} side only but marked {marks:?}")); }
					if !markable && !marks.is_empty() { return Err(format!("{what} {k} marked {marks:?}")); }
					if t != x { return Err(format!("one-sided {what} {k} changed: {t:?} instead of {x:?}")); }
				},
			}
		}
		if compatible(&ck, &sk) {
			if restrict(&ok, &ck) != ck { return Err(format!("order of the {what}s of the client {ck:?} not preserved in {ok:?} although the orders are compatible (server {sk:?})")); }
			if restrict(&ok, &sk) != sk { return Err(format!("order of the {what}s of the server {sk:?} not preserved in {ok:?} although the orders are compatible (client {ck:?})")); }
		}
		Ok(())
	}

	fn member_key(n: &str, d: &str) -> String { format!("{n}:{d}") }
	fn shell_of(c: &MClass) -> ClassFile { build_class(&MClass { name: c.name.clone(), rich: c.rich, interfaces: vec![], fields: vec![], methods: vec![], inners: vec![] }) }
	fn shell_diff(o: &ClassFile, e: &ClassFile) -> String {
		let mut d = Vec::new();
		if o.version != e.version { d.push(format!("version {:?} instead of {:?}", o.version, e.version)); }
		if o.access != e.access { d.push(format!("access {:?} instead of {:?}", o.access, e.access)); }
		if o.name != e.name { d.push(format!("name {:?} instead of {:?}", o.name, e.name)); }
		if o.super_class != e.super_class { d.push(format!("super class {:?} instead of {:?}", o.super_class, e.super_class)); }
		if o.runtime_visible_annotations != e.runtime_visible_annotations { d.push(format!("visible annotations {:?} instead of {:?}", o.runtime_visible_annotations, e.runtime_visible_annotations)); }
		if o.runtime_invisible_annotations != e.runtime_invisible_annotations { d.push(format!("invisible annotations {:?} instead of {:?}", o.runtime_invisible_annotations, e.runtime_invisible_annotations)); }
		if o.source_file != e.source_file { d.push(format!("source file {:?} instead of {:?}", o.source_file, e.source_file)); }
		if d.is_empty() { d.push("another class attribute differs".into()); }
		d.join("; ")
	}

	/// C13, "a class differing between sides ..." (the universe keeps everything besides the four lists equal on both sides, so it must stay)
	fn check_merged_class(c: &MClass, s: &MClass, out: &ClassFile) -> Result<(), String> {
		if c.name != s.name || c.rich != s.rich { panic!("harness: the universe keeps the class-level facts equal on both sides"); }
		let mut o = out.clone();
		let marks = strip_env(&mut o.runtime_visible_annotations, &mut o.runtime_invisible_annotations)?;
		if !marks.is_empty() { return Err(format!("the class is on both sides but marked {marks:?}")); }
		let itf_marks = strip_itf(&mut o.runtime_visible_annotations, &mut o.runtime_invisible_annotations)?;

		let ci: Vec<(String, ())> = c.interfaces.iter().map(|i| (i.clone(), ())).collect();
		let si: Vec<(String, ())> = s.interfaces.iter().map(|i| (i.clone(), ())).collect();
		let oi: Vec<(String, Vec<MSide>, ())> = o.interfaces.iter().map(|i| {
			let n = sj(i.as_inner());
			let ms = itf_marks.iter().filter(|(_, x)| *x == n).map(|(sd, _)| *sd).collect();
			(n, ms, ())
		}).collect();
		for (sd, n) in &itf_marks { if !oi.iter().any(|x| x.0 == *n) { return Err(format!("interface marker ({sd:?}) for {n}, which is not an interface of the result")); } }
		check_list("interface", true, &ci, &si, &oi)?;

		let cf: Vec<(String, Field)> = c.fields.iter().map(|x| (member_key(&x.name, &x.desc), build_field(x))).collect();
		let sf: Vec<(String, Field)> = s.fields.iter().map(|x| (member_key(&x.name, &x.desc), build_field(x))).collect();
		let mut of = Vec::new();
		for f in &o.fields {
			let mut f = f.clone();
			let ms = strip_env(&mut f.runtime_visible_annotations, &mut f.runtime_invisible_annotations)?;
			of.push((member_key(&sj(f.name.as_inner()), &sj(f.descriptor.as_inner())), ms, f));
		}
		check_list("field", true, &cf, &sf, &of)?;

		let cm: Vec<(String, Method)> = c.methods.iter().map(|x| (member_key(&x.name, &x.desc), build_method(x))).collect();
		let sm: Vec<(String, Method)> = s.methods.iter().map(|x| (member_key(&x.name, &x.desc), build_method(x))).collect();
		let mut om = Vec::new();
		for f in &o.methods {
			let mut f = f.clone();
			let ms = strip_env(&mut f.runtime_visible_annotations, &mut f.runtime_invisible_annotations)?;
			om.push((member_key(&sj(f.name.as_inner()), &sj(f.descriptor.as_inner())), ms, f));
		}
		check_list("method", true, &cm, &sm, &om)?;

		let cin: Vec<(String, InnerClass)> = c.inners.iter().map(|x| (x.inner.clone(), build_inner(x))).collect();
		let sin: Vec<(String, InnerClass)> = s.inners.iter().map(|x| (x.inner.clone(), build_inner(x))).collect();
		let oin: Vec<(String, Vec<MSide>, InnerClass)> = o.inner_classes.clone().unwrap_or_default().into_iter().map(|i| (sj(i.inner_class.as_inner()), Vec::new(), i)).collect();
		check_list("inner class record", false, &cin, &sin, &oin)?;

		o.interfaces.clear(); o.fields.clear(); o.methods.clear(); o.inner_classes = None;
		let shell = shell_of(c);
		if o != shell { return Err(format!("class-level facts that are equal on both sides changed: {}", shell_diff(&o, &shell))); }
		Ok(())
	}

	/// C13, "a class present on one side only is marked with that side": exactly one marker, of that side, and nothing else changed
	fn check_one_sided_class(m: &MClass, side: MSide, out: &ClassFile) -> Result<(), String> {
		let mut o = out.clone();
		let marks = strip_env(&mut o.runtime_visible_annotations, &mut o.runtime_invisible_annotations)?;
		if marks != vec![side] { return Err(format!("class {} is on the {side:?} side only but marked {marks:?}", m.name)); }
		let itf = strip_itf(&mut o.runtime_visible_annotations, &mut o.runtime_invisible_annotations)?;
		if !itf.is_empty() { return Err(format!("one-sided class {} got interface markers {itf:?}", m.name)); }
		for f in &mut o.fields { let ms = strip_env(&mut f.runtime_visible_annotations, &mut f.runtime_invisible_annotations)?; if !ms.is_empty() { return Err(format!("member of the one-sided class {} marked {ms:?}", m.name)); } }
		for f in &mut o.methods { let ms = strip_env(&mut f.runtime_visible_annotations, &mut f.runtime_invisible_annotations)?; if !ms.is_empty() { return Err(format!("member of the one-sided class {} marked {ms:?}", m.name)); } }
		let e = build_class(m);
		if o != e { return Err(format!("one-sided class {} changed besides the marker: {o:?} instead of {e:?}", m.name)); }
		Ok(())
	}

	// ---------------------------------------------------------------------------------------------------------------------
	// universes of the class level
	// ---------------------------------------------------------------------------------------------------------------------
	/// all duplicate-free lists of length <= max_len over 0..n
	fn all_lists(max_len: usize, n: usize) -> Vec<Vec<usize>> {
		fn rec(cur: &mut Vec<usize>, max_len: usize, n: usize, out: &mut Vec<Vec<usize>>) {
			out.push(cur.clone());
			if cur.len() == max_len { return; }
			for e in 0..n { if !cur.contains(&e) { cur.push(e); rec(cur, max_len, n, out); cur.pop(); } }
		}
		let mut out = Vec::new();
		rec(&mut Vec::new(), max_len, n, &mut out);
		out
	}
	const FIELD_KEYS: [(&str, &str); 4] = [("a", "I"), ("a", "J"), ("b", "I"), ("c", "I")];
	const METHOD_KEYS: [(&str, &str); 4] = [("a", "()V"), ("a", "(I)V"), ("b", "()V"), ("c", "()V")];
	const ITF_KEYS: [&str; 4] = ["p/I0", "p/I1", "p/I2", "q/I0"];
	/// field with key number k; version 0 and version 1 differ in access flags and annotations
	fn fld(k: usize, v: u8) -> MMember {
		let (n, d) = FIELD_KEYS[k];
		let (access, extra) = if v == 0 { (if k % 2 == 1 { 0x0009 } else { 0x0001 }, if k % 2 == 0 { Extra::Plain } else { Extra::Annotated }) }
			else { (0x0002, if k % 2 == 0 { Extra::Annotated } else { Extra::Plain }) };
		MMember { name: n.into(), desc: d.into(), access, extra }
	}
	fn mth(k: usize, v: u8) -> MMember {
		let (n, d) = METHOD_KEYS[k];
		let (access, extra) = if v == 0 { (if k % 2 == 1 { 0x0409 } else { 0x0401 }, if k % 2 == 0 { Extra::Plain } else { Extra::Annotated }) }
			else { (0x0404, if k % 2 == 0 { Extra::Annotated } else { Extra::Plain }) };
		MMember { name: n.into(), desc: d.into(), access, extra }
	}
	fn inner_rec(class: &str, k: usize) -> MInner {
		match k {
			0 => MInner { inner: format!("{class}$X"), outer: Some(class.into()), name: Some("X".into()), flags: 0x0009 },
			1 => MInner { inner: format!("{class}$Y"), outer: Some(class.into()), name: Some("Y".into()), flags: 0x0001 },
			_ => MInner { inner: format!("{class}$1"), outer: None, name: None, flags: 0x0000 },
		}
	}

	fn check_class_case(t: &mut Tally, c: &MClass, s: &MClass) {
		let input = format!("client {} server {}", show_class(c), show_class(s));
		t.at(input.as_bytes());
		match run(|| class_merger_merge(build_class(c), build_class(s))) {
			Out::Panic => t.fail(input, "class_merger_merge panicked: no merged class"),
			Out::Err(e) => t.fail(input, &format!("class_merger_merge refused: {e}")),
			Out::Ok(o) => if let Err(why) = check_merged_class(c, s, &o) { t.fail(input, &why); },
		}
	}

	/// fields and methods: every pair of member lists, shared members identical or different in content
	#[test]
	fn class_members_union_marks_and_order() {
		quiet();
		let mut t = Tally::new("class_members_union_marks_and_order");
		let lists = all_lists(4, 4);
		for methods_vary in [false, true] { for rich in [false, true] { for lc in &lists { for ls in &lists {
			let shared: Vec<usize> = lc.iter().copied().filter(|k| ls.contains(k)).collect();
			for mask in 0u32..(1 << shared.len()) {
				let differs = |k: usize| shared.iter().position(|x| *x == k).is_some_and(|p| mask & (1 << p) != 0);
				let mk = |k: usize, v: u8| if methods_vary { mth(k, v) } else { fld(k, v) };
				let vc: Vec<MMember> = lc.iter().map(|&k| mk(k, 0)).collect();
				let vs: Vec<MMember> = ls.iter().map(|&k| mk(k, if differs(k) { 1 } else { 0 })).collect();
				// the other kind of member: one client-only, one shared, one server-only
				let (c, s) = if methods_vary {
					(MClass { name: "A".into(), rich, interfaces: vec![], fields: vec![fld(0, 0), fld(2, 0)], methods: vc, inners: vec![] },
					 MClass { name: "A".into(), rich, interfaces: vec![], fields: vec![fld(2, 0), fld(3, 0)], methods: vs, inners: vec![] })
				} else {
					(MClass { name: "A".into(), rich, interfaces: vec![], fields: vc, methods: vec![mth(0, 0), mth(2, 0)], inners: vec![] },
					 MClass { name: "A".into(), rich, interfaces: vec![], fields: vs, methods: vec![mth(2, 0), mth(3, 0)], inners: vec![] })
				};
				t.case(!shared.is_empty() && lc != ls);
				check_class_case(&mut t, &c, &s);
			}
		}}}}
		t.finish();
	}

	/// interfaces and inner class records
	#[test]
	fn class_interfaces_and_inner_records() {
		quiet();
		let mut t = Tally::new("class_interfaces_and_inner_records");
		let lists = all_lists(4, 4);
		for rich in [false, true] { for lc in &lists { for ls in &lists {
			let c = MClass { name: "A".into(), rich, interfaces: lc.iter().map(|&k| ITF_KEYS[k].to_owned()).collect(), fields: vec![fld(0, 0)], methods: vec![mth(2, 0)], inners: vec![inner_rec("A", 0)] };
			let s = MClass { name: "A".into(), rich, interfaces: ls.iter().map(|&k| ITF_KEYS[k].to_owned()).collect(), fields: vec![fld(1, 0)], methods: vec![mth(2, 0)], inners: vec![inner_rec("A", 0), inner_rec("A", 2)] };
			t.case(lc != ls && lc.iter().any(|k| ls.contains(k)));
			check_class_case(&mut t, &c, &s);
		}}}
		let ilists = all_lists(3, 3);
		let itf_pairs: [(&[&str], &[&str]); 3] = [(&[], &[]), (&["p/I0"], &["p/I1"]), (&["p/I0", "p/I1"], &["p/I1", "p/I2"])];
		for rich in [false, true] { for (ic, is) in itf_pairs { for lc in &ilists { for ls in &ilists {
			let c = MClass { name: "A".into(), rich, interfaces: ic.iter().map(|x| x.to_string()).collect(), fields: vec![], methods: vec![mth(0, 0)], inners: lc.iter().map(|&k| inner_rec("A", k)).collect() };
			let s = MClass { name: "A".into(), rich, interfaces: is.iter().map(|x| x.to_string()).collect(), fields: vec![fld(0, 0)], methods: vec![], inners: ls.iter().map(|&k| inner_rec("A", k)).collect() };
			t.case(lc != ls);
			check_class_case(&mut t, &c, &s);
		}}}}
		t.finish();
	}

	const VARIANTS: [(u16, Extra); 8] = [(0x0001, Extra::Plain), (0x0002, Extra::Plain), (0x1001, Extra::Plain), (0x0001, Extra::Annotated), (0x0001, Extra::Payload),
		(0x0001, Extra::Signature), (0x0001, Extra::Deprecated), (0x0001, Extra::SyntheticAttr)];
	fn shared_member_case(t: &mut Tally, method: bool, vc: (u16, Extra), vs: (u16, Extra)) {
		let mk = |k: usize, v: Option<(u16, Extra)>| { let mut m = if method { mth(k, 0) } else { fld(k, 0) }; if let Some((a, e)) = v { m.access = a | if method { 0x0400 } else { 0 }; m.extra = e; } m };
		let lc = vec![mk(1, None), mk(0, Some(vc)), mk(2, None)];
		let ls = vec![mk(0, Some(vs)), mk(2, None), mk(3, None)];
		let (c, s) = if method {
			(MClass { name: "A".into(), rich: false, interfaces: vec![], fields: vec![], methods: lc, inners: vec![] }, MClass { name: "A".into(), rich: false, interfaces: vec![], fields: vec![], methods: ls, inners: vec![] })
		} else {
			(MClass { name: "A".into(), rich: false, interfaces: vec![], fields: lc, methods: vec![], inners: vec![] }, MClass { name: "A".into(), rich: false, interfaces: vec![], fields: ls, methods: vec![], inners: vec![] })
		};
		t.case(vc != vs);
		check_class_case(t, &c, &s);
	}
	/// a member on both sides whose content differs (flags, annotations, ConstantValue / Exceptions, Signature) is in the result once, unmarked
	#[test]
	fn class_shared_member_with_different_content() {
		quiet();
		let mut t = Tally::new("class_shared_member_with_different_content");
		for method in [false, true] { for vc in &VARIANTS[..6] { for vs in &VARIANTS[..6] { shared_member_case(&mut t, method, *vc, *vs); } } }
		t.finish();
	}
	/// the same where the two versions differ in the Deprecated or the Synthetic attribute
	#[test]
	fn class_shared_member_with_different_content__deprecated_or_synthetic_attribute() {
		quiet();
		let mut t = Tally::new("class_shared_member_with_different_content__deprecated_or_synthetic_attribute");
		for method in [false, true] { for (i, vc) in VARIANTS.iter().enumerate() { for (j, vs) in VARIANTS.iter().enumerate() {
			if i < 6 && j < 6 { continue; }
			shared_member_case(&mut t, method, *vc, *vs);
		}}}
		t.finish();
	}
	/// an inner class record on both sides with different content is in the result once
	#[test]
	fn class_shared_inner_record_with_different_content() {
		quiet();
		let mut t = Tally::new("class_shared_inner_record_with_different_content");
		let vars = [(Some("A"), Some("X"), 0x0009u16), (Some("A"), Some("X"), 0x0001), (Some("A"), None, 0x0009), (None, None, 0x0009)];
		for vc in &vars { for vs in &vars {
			let mk = |v: &(Option<&str>, Option<&str>, u16)| MInner { inner: "A$X".into(), outer: v.0.map(|x| x.to_owned()), name: v.1.map(|x| x.to_owned()), flags: v.2 };
			let c = MClass { name: "A".into(), rich: false, interfaces: vec![], fields: vec![fld(0, 0)], methods: vec![], inners: vec![inner_rec("A", 1), mk(vc)] };
			let s = MClass { name: "A".into(), rich: false, interfaces: vec![], fields: vec![], methods: vec![], inners: vec![mk(vs), inner_rec("A", 2)] };
			t.case(vc != vs);
			check_class_case(&mut t, &c, &s);
		}}
		t.finish();
	}

	// ---------------------------------------------------------------------------------------------------------------------
	// model of a jar
	// ---------------------------------------------------------------------------------------------------------------------
	#[derive(Clone, Debug, PartialEq)]
	enum MEntry { Dir, Class { model: MClass, bytes: Vec<u8>, label: &'static str }, Res(Vec<u8>) }
	/// what the universe says an entry name is (the oracle goes by this, not by parsing names)
	#[derive(Clone, Copy, Debug, PartialEq, Eq)]
	enum Kind { GameClass, LibraryClass, Resource, Manifest, Signature, Dir }
	type MJar = Vec<(String, MEntry)>;

	fn show_jar(j: &MJar) -> String {
		let v: Vec<String> = j.iter().map(|(n, e)| match e {
			MEntry::Dir => format!("{n} (dir)"),
			MEntry::Class { label, .. } => format!("{n}={label}"),
			MEntry::Res(b) => format!("{n}={:?}", String::from_utf8_lossy(b)),
		}).collect();
		format!("{{{}}}", v.join(", "))
	}

	fn written(c: &ClassFile) -> Vec<u8> {
		let mut buf = Vec::new();
		duke::write_class(&mut buf, c).unwrap_or_else(|e| panic!("harness: cannot write a generated class: {e:#}"));
		buf
	}
	/// own walk over the constant pool (JVMS 4.4): appends an unused Utf8 constant, so that the bytes are not what a writer would produce from the tree
	fn add_unused_constant(b: &[u8]) -> Vec<u8> {
		let count = u16::from_be_bytes([b[8], b[9]]);
		let (mut p, mut i) = (10usize, 1u16);
		while i < count {
			let (len, slots) = match b[p] {
				1 => (3 + u16::from_be_bytes([b[p + 1], b[p + 2]]) as usize, 1),
				3 | 4 | 9 | 10 | 11 | 12 | 17 | 18 => (5, 1),
				5 | 6 => (9, 2),
				7 | 8 | 16 | 19 | 20 => (3, 1),
				15 => (4, 1),
				x => panic!("harness: constant pool tag {x}"),
			};
			p += len; i += slots;
		}
		let mut r = b[..8].to_vec();
		r.extend_from_slice(&(count + 1).to_be_bytes());
		r.extend_from_slice(&b[10..p]);
		r.extend_from_slice(&[1, 0, 4, b'j', b'u', b'n', b'k']);
		r.extend_from_slice(&b[p..]);
		r
	}
	fn read_bytes(b: &[u8]) -> ClassFile { duke::read_class(&mut Cursor::new(b.to_vec())).unwrap_or_else(|e| panic!("harness: cannot read back a class: {e:#}")) }

	/// version 0 and version 1 of a class of a jar: overlapping interfaces, fields (same name / different descriptor, one shared field with different content), methods in incompatible order, inner class records
	fn jar_class(name: &str, rich: bool, v: u8) -> MClass {
		if v == 0 {
			MClass { name: name.into(), rich, interfaces: vec!["p/I0".into(), "p/I1".into()], fields: vec![fld(0, 0), fld(2, 0)], methods: vec![mth(0, 0), mth(3, 0), mth(2, 0)], inners: vec![inner_rec(name, 0)] }
		} else {
			MClass { name: name.into(), rich, interfaces: vec!["p/I1".into(), "p/I2".into()], fields: vec![fld(0, 0), fld(1, 0), fld(2, 1)], methods: vec![mth(2, 0), mth(3, 0), mth(1, 0)], inners: vec![inner_rec(name, 0), inner_rec(name, 1)] }
		}
	}
	/// label: "v0" / "v1" written by duke, "v0+junk" the bytes of v0 with an unused constant added
	fn class_entry(entry_name: &str, rich: bool, label: &'static str) -> MEntry {
		let name = entry_name.strip_suffix(".class").unwrap_or_else(|| panic!("harness: {entry_name}"));
		let model = jar_class(name, rich, if label == "v1" { 1 } else { 0 });
		let tree = build_class(&model);
		let plain = written(&tree);
		if read_bytes(&plain) != tree { panic!("harness: generated class {name} {label} does not survive write + read"); }
		let bytes = if label == "v0+junk" {
			let j = add_unused_constant(&plain);
			if read_bytes(&j) != tree { panic!("harness: the unused constant changed the class"); }
			if written(&read_bytes(&j)) == j { panic!("harness: the unused constant is reproduced by the writer, pass-through would not be observable"); }
			j
		} else { plain };
		MEntry::Class { model, bytes, label }
	}

	/// one name of a jar universe: its kind and the states (None = absent) it takes on either side
	struct Slot { name: &'static str, kind: Kind, states: Vec<Option<MEntry>> }
	fn class_slot(name: &'static str, kind: Kind, rich: bool, labels: &[&'static str]) -> Slot {
		let mut states = vec![None];
		for l in labels { states.push(Some(class_entry(name, rich, l))); }
		Slot { name, kind, states }
	}
	fn res_slot(name: &'static str, kind: Kind, contents: &[&str]) -> Slot {
		let mut states = vec![None];
		for c in contents { states.push(Some(MEntry::Res(c.as_bytes().to_vec()))); }
		Slot { name, kind, states }
	}
	fn dir_slot(name: &'static str) -> Slot { Slot { name, kind: Kind::Dir, states: vec![None, Some(MEntry::Dir)] } }

	/// every assignment of (client state, server state) to every slot
	fn for_all_jar_pairs(slots: &[Slot], f: &mut dyn FnMut(&MJar, &MJar)) {
		let mut idx = vec![(0usize, 0usize); slots.len()];
		loop {
			let (mut c, mut s): (MJar, MJar) = (Vec::new(), Vec::new());
			for (sl, (ic, is)) in slots.iter().zip(idx.iter()) {
				if let Some(e) = &sl.states[*ic] { c.push((sl.name.to_owned(), e.clone())); }
				if let Some(e) = &sl.states[*is] { s.push((sl.name.to_owned(), e.clone())); }
			}
			f(&c, &s);
			let mut p = 0;
			loop {
				if p == slots.len() { return; }
				let n = slots[p].states.len();
				let k = idx[p].0 * n + idx[p].1 + 1;
				if k < n * n { idx[p] = (k / n, k % n); break; }
				idx[p] = (0, 0); p += 1;
			}
		}
	}
	fn permutations(n: usize) -> Vec<Vec<usize>> { all_lists(n, n).into_iter().filter(|l| l.len() == n).collect() }

	fn to_parsed(j: &MJar, as_tree: bool) -> ParsedJar<ClassRepr, Vec<u8>> {
		let mut entries = IndexMap::new();
		for (n, e) in j {
			let content = match e {
				MEntry::Dir => JarEntryEnum::Dir,
				MEntry::Class { model, bytes, .. } => JarEntryEnum::Class(if as_tree { ClassRepr::Parsed { class: build_class(model) } } else { ClassRepr::Vec { data: bytes.clone() } }),
				MEntry::Res(b) => JarEntryEnum::Other(b.clone()),
			};
			entries.insert(n.clone(), ParsedJarEntry { attr: BasicFileAttributes::default(), content });
		}
		ParsedJar { entries }
	}
	/// a zip archive written with the zip crate directly (not with dukebox)
	fn to_zip(j: &MJar, deflate: bool) -> Vec<u8> {
		let mut w = zip::ZipWriter::new(Cursor::new(Vec::new()));
		let method = if deflate { zip::CompressionMethod::Deflated } else { zip::CompressionMethod::Stored };
		let opt = || zip::write::SimpleFileOptions::default().compression_method(method).last_modified_time(zip::DateTime::default());
		for (n, e) in j {
			match e {
				MEntry::Dir => w.add_directory(n.as_str(), opt()).unwrap_or_else(|e| panic!("harness: zip: {e}")),
				MEntry::Class { bytes, .. } | MEntry::Res(bytes) => {
					w.start_file(n.as_str(), opt()).unwrap_or_else(|e| panic!("harness: zip: {e}"));
					w.write_all(bytes).unwrap_or_else(|e| panic!("harness: zip: {e}"));
				},
			}
		}
		w.finish().unwrap_or_else(|e| panic!("harness: zip: {e}")).into_inner()
	}

	/// what the harness sees of an entry of the result
	enum OEntry { Dir, Class { bytes: Vec<u8>, tree: ClassFile }, Res(Vec<u8>) }
	fn observe_parsed(j: &ParsedJar<ClassRepr, Vec<u8>>) -> Result<Vec<(String, OEntry)>, String> {
		let mut r = Vec::new();
		for (n, e) in &j.entries {
			r.push((n.clone(), match &e.content {
				JarEntryEnum::Dir => OEntry::Dir,
				JarEntryEnum::Other(b) => OEntry::Res(b.clone()),
				JarEntryEnum::Class(ClassRepr::Vec { data }) => OEntry::Class { bytes: data.clone(), tree: duke::read_class(&mut Cursor::new(data.clone())).map_err(|e| format!("class {n} of the result cannot be read: {e:#}"))? },
				JarEntryEnum::Class(ClassRepr::Parsed { class }) => {
					let mut buf = Vec::new();
					duke::write_class(&mut buf, class).map_err(|e| format!("class {n} of the result cannot be written: {e:#}"))?;
					OEntry::Class { bytes: buf, tree: class.clone() }
				},
			}));
		}
		Ok(r)
	}
	/// reads a zip archive with the zip crate directly; what is a class is decided by the universe (`kinds`)
	fn observe_zip(data: &[u8], kinds: &BTreeMap<String, Kind>) -> Result<Vec<(String, OEntry)>, String> {
		let mut z = zip::ZipArchive::new(Cursor::new(data.to_vec())).map_err(|e| format!("the result is not a zip archive: {e}"))?;
		let mut r = Vec::new();
		for i in 0..z.len() {
			let mut f = z.by_index(i).map_err(|e| format!("zip entry {i}: {e}"))?;
			let n = f.name().to_owned();
			if f.is_dir() { r.push((n, OEntry::Dir)); continue; }
			let mut b = Vec::new();
			f.read_to_end(&mut b).map_err(|e| format!("zip entry {n}: {e}"))?;
			match kinds.get(&n) {
				Some(Kind::GameClass) | Some(Kind::LibraryClass) => {
					let tree = duke::read_class(&mut Cursor::new(b.clone())).map_err(|e| format!("class {n} of the result cannot be read: {e:#}"))?;
					r.push((n, OEntry::Class { bytes: b, tree }));
				},
				_ => r.push((n, OEntry::Res(b))),
			}
		}
		Ok(r)
	}

	/// C13 at jar level.
	///  "yields every entry of either jar exactly once (minus signature files and bundled server libraries)"
	///  "a class present on one side only is marked with that side"
	///  "a class identical on both sides is passed through byte-identical"
	///  "a class differing between sides contains ..." (check_merged_class)
	/// A bundled server library is a library class (a class outside the game's packages) that only the server jar has.
	/// Resources: the content of the side(s) that have it (either side's when they differ).  Manifest: present once, content not judged.
	fn check_merged_jar(kinds: &BTreeMap<String, Kind>, c: &MJar, s: &MJar, out: &[(String, OEntry)]) -> Result<(), String> {
		let names: Vec<&String> = out.iter().map(|x| &x.0).collect();
		for (i, n) in names.iter().enumerate() { if names[..i].contains(n) { return Err(format!("entry {n} occurs more than once in the result")); } }
		let get = |j: &'_ MJar, n: &str| j.iter().find(|x| x.0 == n).map(|x| x.1.clone());
		let mut all: Vec<String> = c.iter().map(|x| x.0.clone()).collect();
		for (n, _) in s { if !all.contains(n) { all.push(n.clone()); } }
		for (n, _) in out { if !all.contains(n) { return Err(format!("entry {n} of the result is in neither jar")); } }
		for n in &all {
			let kind = *kinds.get(n).unwrap_or_else(|| panic!("harness: no kind for {n}"));
			let (ec, es) = (get(c, n), get(s, n));
			let o = out.iter().find(|x| x.0 == *n).map(|x| &x.1);
			let excluded = kind == Kind::Signature || (kind == Kind::LibraryClass && ec.is_none());
			let Some(o) = o else {
				if excluded { continue; }
				return Err(format!("entry {n} is missing in the result"));
			};
			if excluded { return Err(format!("entry {n} ({}) is in the result", if kind == Kind::Signature { "a signature file" } else { "a library class only the server bundles" })); }
			match (&ec, &es, o) {
				(Some(MEntry::Dir), None | Some(MEntry::Dir), OEntry::Dir) | (None, Some(MEntry::Dir), OEntry::Dir) => {},
				(Some(MEntry::Res(_)) | None, Some(MEntry::Res(_)) | None, OEntry::Res(_)) if kind == Kind::Manifest => {},
				(Some(MEntry::Res(b)), None, OEntry::Res(x)) | (None, Some(MEntry::Res(b)), OEntry::Res(x)) => if x != b { return Err(format!("one-sided resource {n} changed: {:?}", String::from_utf8_lossy(x))); },
				(Some(MEntry::Res(a)), Some(MEntry::Res(b)), OEntry::Res(x)) => if x != a && x != b { return Err(format!("resource {n} is neither the client's nor the server's: {:?}", String::from_utf8_lossy(x))); },
				(Some(MEntry::Class { model, .. }), None, OEntry::Class { tree, .. }) => check_one_sided_class(model, MSide::Client, tree).map_err(|e| format!("{n}: {e}"))?,
				(None, Some(MEntry::Class { model, .. }), OEntry::Class { tree, .. }) => check_one_sided_class(model, MSide::Server, tree).map_err(|e| format!("{n}: {e}"))?,
				(Some(MEntry::Class { model: mc, bytes: bc, .. }), Some(MEntry::Class { model: ms, bytes: bs, .. }), OEntry::Class { bytes, tree }) => {
					if bc == bs { if bytes != bc { return Err(format!("{n}: class identical on both sides is not passed through byte-identical ({} bytes in, {} bytes out)", bc.len(), bytes.len())); } }
					else { check_merged_class(mc, ms, tree).map_err(|e| format!("{n}: {e}"))?; }
				},
				_ => return Err(format!("entry {n} has the wrong type in the result")),
			}
		}
		Ok(())
	}

	fn kinds_of(slots: &[Slot]) -> BTreeMap<String, Kind> { slots.iter().map(|s| (s.name.to_owned(), s.kind)).collect() }

	fn check_jar_case_parsed(t: &mut Tally, kinds: &BTreeMap<String, Kind>, c: &MJar, s: &MJar, as_tree: bool) {
		let input = format!("client jar {} server jar {}{}", show_jar(c), show_jar(s), if as_tree { " (classes given as trees)" } else { "" });
		t.at(input.as_bytes());
		match run(|| merge(to_parsed(c, as_tree), to_parsed(s, as_tree))) {
			Out::Panic => t.fail(input, "merge panicked: no merged jar"),
			Out::Err(e) => t.fail(input, &format!("merge refused: {e}")),
			Out::Ok(o) => match observe_parsed(&o).and_then(|obs| check_merged_jar(kinds, c, s, &obs)) { Ok(()) => {}, Err(why) => t.fail(input, &why) },
		}
	}
	fn nontrivial_pair(c: &MJar, s: &MJar) -> bool { c.iter().any(|(n, e)| s.iter().any(|(m, f)| n == m && e != f)) }

	fn content_slots() -> Vec<Slot> {
		vec![
			class_slot("net/minecraft/A.class", Kind::GameClass, false, &["v0", "v0+junk", "v1"]),
			class_slot("B.class", Kind::GameClass, true, &["v0+junk", "v1"]),
			class_slot("com/lib/L.class", Kind::LibraryClass, false, &["v0+junk", "v1"]),
			res_slot("assets/x.txt", Kind::Resource, &["one", "two"]),
		]
	}
	/// classes and resources: disjoint, identical and overlapping sets
	#[test]
	fn jar_entries_classes_and_resources() {
		quiet();
		let mut t = Tally::new("jar_entries_classes_and_resources");
		let slots = content_slots();
		let kinds = kinds_of(&slots);
		for_all_jar_pairs(&slots, &mut |c, s| { t.case(nontrivial_pair(c, s)); check_jar_case_parsed(&mut t, &kinds, c, s, false); });
		t.finish();
	}
	/// META-INF content: manifest, signature files (.SF, .RSA), other files and the directory entry
	#[test]
	fn jar_entries_meta_inf() {
		quiet();
		let mut t = Tally::new("jar_entries_meta_inf");
		let slots = vec![
			dir_slot("META-INF/"),
			res_slot("META-INF/MANIFEST.MF", Kind::Manifest, &["Manifest-Version: 1.0\nMain-Class: a.Main\n", "Manifest-Version: 1.0\n\nName: B.class\nSHA-256-Digest: AAAA\n"]),
			res_slot("META-INF/MOJANGCS.SF", Kind::Signature, &["Signature-Version: 1.0\n"]),
			res_slot("META-INF/MOJANGCS.RSA", Kind::Signature, &["\u{1}\u{2}"]),
			res_slot("META-INF/notes.txt", Kind::Resource, &["n"]),
			class_slot("B.class", Kind::GameClass, false, &["v0"]),
		];
		let kinds = kinds_of(&slots);
		for_all_jar_pairs(&slots, &mut |c, s| {
			t.case(c.iter().chain(s.iter()).any(|(n, _)| kinds[n] == Kind::Signature));
			check_jar_case_parsed(&mut t, &kinds, c, s, false);
		});
		t.finish();
	}
	/// the other signature block files of the JAR specification (.DSA, .EC) are signature files too
	#[test]
	fn jar_entries_meta_inf__dsa_and_ec_signature_blocks() {
		quiet();
		let mut t = Tally::new("jar_entries_meta_inf__dsa_and_ec_signature_blocks");
		let slots = vec![
			res_slot("META-INF/MOJANG_C.SF", Kind::Signature, &["Signature-Version: 1.0\n"]),
			res_slot("META-INF/MOJANG_C.DSA", Kind::Signature, &["\u{1}\u{2}"]),
			res_slot("META-INF/SERVER.EC", Kind::Signature, &["\u{3}"]),
			class_slot("B.class", Kind::GameClass, false, &["v0"]),
		];
		let kinds = kinds_of(&slots);
		for_all_jar_pairs(&slots, &mut |c, s| {
			t.case(c.iter().chain(s.iter()).any(|(n, _)| n.ends_with(".DSA") || n.ends_with(".EC")));
			check_jar_case_parsed(&mut t, &kinds, c, s, false);
		});
		t.finish();
	}
	/// names of the order universes: B.class differs between the sides, the others are identical where both sides have them
	fn order_case(t: &mut Tally, n_names: usize, pat: usize, pc: &[usize], ps: &[usize], as_tree: bool, fixed: &(Vec<(String, MEntry)>, Vec<(String, MEntry)>, BTreeMap<String, Kind>)) {
		// presence pattern per name: 0 = both sides, 1 = client only, 2 = server only
		let p: Vec<usize> = (0..n_names).map(|i| pat / 3usize.pow(i as u32) % 3).collect();
		let mut c: MJar = pc.iter().filter(|&&i| p[i] != 2).map(|&i| fixed.0[i].clone()).collect();
		let s: MJar = ps.iter().filter(|&&i| p[i] != 1).map(|&i| fixed.1[i].clone()).collect();
		c.insert(c.len() / 2, ("META-INF/X.SF".into(), MEntry::Res(b"sig".to_vec())));
		t.case(pc != ps);
		check_jar_case_parsed(t, &fixed.2, &c, &s, as_tree);
	}
	fn order_fixture() -> (Vec<(String, MEntry)>, Vec<(String, MEntry)>, BTreeMap<String, Kind>) {
		let l = class_entry("com/lib/L.class", false, "v0");
		let a = class_entry("net/minecraft/A.class", true, "v1");
		let full_c = vec![("B.class".to_owned(), class_entry("B.class", false, "v0")), ("com/lib/L.class".to_owned(), l.clone()), ("assets/x.txt".to_owned(), MEntry::Res(b"one".to_vec())), ("net/minecraft/A.class".to_owned(), a.clone())];
		let full_s = vec![("B.class".to_owned(), class_entry("B.class", false, "v1")), ("com/lib/L.class".to_owned(), l), ("assets/x.txt".to_owned(), MEntry::Res(b"one".to_vec())), ("net/minecraft/A.class".to_owned(), a)];
		let kinds = [("B.class", Kind::GameClass), ("net/minecraft/A.class", Kind::GameClass), ("com/lib/L.class", Kind::LibraryClass), ("assets/x.txt", Kind::Resource), ("META-INF/X.SF", Kind::Signature)]
			.into_iter().map(|(n, k)| (n.to_owned(), k)).collect();
		(full_c, full_s, kinds)
	}
	/// the order of the entries inside the jars does not matter; classes handed over as bytes or as trees
	#[test]
	fn jar_entries_in_every_order() {
		quiet();
		let mut t = Tally::new("jar_entries_in_every_order");
		let fixed = order_fixture();
		let perms = permutations(3);
		for pat in 0..27usize { for pc in &perms { for ps in &perms { for as_tree in [false, true] { order_case(&mut t, 3, pat, pc, ps, as_tree, &fixed); } } } }
		t.finish();
	}
	/// the same with a fourth name (93 312 cases, about 70 s): not in the group, runs only with VERIF_JARMERGE_FOUR=1
	#[test]
	fn jar_four_entries_in_every_order() {
		if std::env::var("VERIF_JARMERGE_FOUR").is_err() { return; }
		quiet();
		let mut t = Tally::new("jar_four_entries_in_every_order");
		let fixed = order_fixture();
		let perms = permutations(4);
		for pat in 0..81usize { for pc in &perms { for ps in &perms { for as_tree in [false, true] { order_case(&mut t, 4, pat, pc, ps, as_tree, &fixed); } } } }
		t.finish();
	}
	/// the same rules when the jars are zip archives in memory, one side a zip and the other parsed, and when the result is written to a zip and read again
	#[test]
	fn jar_zip_archives_in_and_out() {
		quiet();
		let mut t = Tally::new("jar_zip_archives_in_and_out");
		let slots = vec![
			dir_slot("net/"),
			class_slot("net/minecraft/A.class", Kind::GameClass, true, &["v0+junk", "v1"]),
			class_slot("com/lib/L.class", Kind::LibraryClass, false, &["v0"]),
			res_slot("assets/x.txt", Kind::Resource, &["one", "two"]),
			res_slot("META-INF/MOJANGCS.SF", Kind::Signature, &["Signature-Version: 1.0\n"]),
		];
		let kinds = kinds_of(&slots);
		let mut n = 0u32;
		for_all_jar_pairs(&slots, &mut |c, s| {
			n += 1;
			let mode = n % 3;   // 0: zip + zip, 1: zip + parsed, 2: parsed + zip
			let deflate = n / 3 % 2 == 0;
			let input = format!("client jar {} server jar {} ({}, {})", show_jar(c), show_jar(s), ["both zip archives", "client a zip archive", "server a zip archive"][mode as usize], if deflate { "deflated" } else { "stored" });
			t.at(input.as_bytes());
			t.case(nontrivial_pair(c, s));
			let r = run(|| match mode {
				0 => merge(UnnamedMemJar { data: to_zip(c, deflate) }, UnnamedMemJar { data: to_zip(s, deflate) }),
				1 => merge(UnnamedMemJar { data: to_zip(c, deflate) }, to_parsed(s, false)),
				_ => merge(to_parsed(c, false), UnnamedMemJar { data: to_zip(s, deflate) }),
			});
			match r {
				Out::Panic => t.fail(input, "merge panicked: no merged jar"),
				Out::Err(e) => t.fail(input, &format!("merge refused: {e}")),
				Out::Ok(o) => {
					if let Err(why) = observe_parsed(&o).and_then(|obs| check_merged_jar(&kinds, c, s, &obs)) { t.fail(input, &why); return; }
					match run(|| o.to_mem()) {
						Out::Panic => t.fail(input, "writing the merged jar panicked"),
						Out::Err(e) => t.fail(input, &format!("the merged jar cannot be written: {e}")),
						Out::Ok(mem) => if let Err(why) = observe_zip(&mem.data, &kinds).and_then(|obs| check_merged_jar(&kinds, c, s, &obs)) { t.fail(input, &format!("after writing the result to a zip archive: {why}")); },
					}
				},
			}
		});
		t.finish();
	}

	#[test]
	fn canary_must_fail() {
		quiet();
		let mut t = Tally::new("canary_must_fail");
		// deliberately false: claims that signature files are ordinary resources that must be kept
		let slots = vec![res_slot("META-INF/MOJANGCS.SF", Kind::Resource, &["Signature-Version: 1.0\n"]), class_slot("B.class", Kind::GameClass, false, &["v0", "v1"])];
		let kinds = kinds_of(&slots);
		for_all_jar_pairs(&slots, &mut |c, s| { t.case(true); check_jar_case_parsed(&mut t, &kinds, c, s, false); });
		t.finish();
	}
