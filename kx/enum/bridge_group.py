"""Enumeration group `bridge`: bounded stand-in for C15 at the level of the whole pass (harness kx/enum/bridge.rs, report kx/enum/bridge_REPORT.md).

Every case is a model (main jar, library jar, official -> intermediary set, intermediary -> named set); the harness writes the class files byte by
byte and the mapping sets as Tiny v2 text, runs the real `add_specialized_methods_to_mappings` and compares the returned mapping set, entry by
entry, with the one the statement of C15 demands.

The jar every universe starts from: types a/B <- a/C <- a/D, a/D implements a/Y; l/M <- l/L (library jar) <- a/G <- a/P <- a/K, a/P implements a/J,
a/K implements a/I, a/X unrelated; G, P, I, J, l/M declare the ordinary method m<descriptor of the bridge>, the one of P invokes exactly one method of
a compatible signature (not synthetic: must not count).  The universes vary the methods of a/K (the bridge's class).
The intermediary -> named set always holds entries no bridge concerns (commented class, field, method with comment and parameter, the delegate's key
in a/P and a/X, the delegate's name with another descriptor in a/K): they must come back unchanged.
"""

_SKEL = ('fixed part of every case: 10 classes in the main jar, 2 in the library jar; a mapping set with unconcerned entries '
         '(class comment, field, method with comment and parameter, the key of the delegate in two other classes, the name of the delegate with another descriptor)')

GROUP = dict(
    crate='feather-build-rs', file='src/specialized_methods/mod.rs', harness_file='bridge.rs', cargo_target=['--bin', 'feather-build-rs'],
    functions=['src/specialized_methods/mod.rs::add_specialized_methods_to_mappings', 'GetSpecializedMethods::get_specialized_methods',
               'MultiClassVisitorImpl::get_specialized_methods', 'get_specialized_methods::is_potential_bridge', 'get_specialized_methods::are_types_bridge_compatible',
               'get_specialized_methods::get_higher_method', 'MultiClassVisitorImpl::visit_class', 'ClassVisitorImpl::visit_method', 'ClassVisitorImpl::finish_method',
               'InheritanceIndex::store', 'InheritanceIndex::get_ancestors', 'InheritanceIndex::get_descendants', 'SpecializedMethods::remap',
               'dukebox OpenedJar::read_classes_into / get_super_classes_provider (ParsedJar and zip archive)', 'quill Mappings::remapper_b', 'BRemapper::map_method_ref_obj',
               'JarSuperProv::remap'],
    trusted=['bridge harness (kx/enum/bridge.rs): own model of jar and mapping sets, own class file generator (JVMS 4.1, 4.4, 4.6, 4.7.3; version 52; bodies are aload_0, the '
             'invocations, return), model-level oracle written from the statement of C15.  The mapping sets enter as Tiny v2 text through quill::tiny_v2::read; on every case the tree '
             'read is converted back (public fields of quill::tree::mappings) and must equal the model, so a reader problem is reported as such.  '
             'Readings fixed by the oracle where the statement is silent: a bridge the mappings do not name keeps its (intermediary) name and the delegate receives that; '
             'when the mappings have no entry for the bridge\'s class nothing is added; official names are carried to intermediary ones by the official -> intermediary set '
             'with the same through-inheritance rule; "bridge-compatible" = same type, or both class types and the bridge\'s type is java/lang/Object or a proper super type '
             '(class or interface, any depth) of the delegate\'s type.  '
             'Outside the universes: array types, parameter / return classes that the main jar does not contain, invokedynamic, methods marked synthetic by the Synthetic '
             'attribute only, classes without a name in the second namespace, two bridges of one class with the same delegate (excluded by the quantifier), more than two parameters.'],
    tests=[
        dict(name='flags_arities_bodies', props=['C15'], tier='quick', timeout=600,
             text='For every flag combination, arity pair, body and mapping situation the returned mappings are exactly the input plus, when and only when the method of a/K is a bridge '
                  '(synthetic, exactly one distinct invoked method, flagged as bridge or inheritable with equal arity and compatible types), the entry of the delegate in a/K carrying the name '
                  'the mappings give the bridge (own entry, entry of the super class, or its unchanged name); an existing entry of the delegate keeps comment and parameters; '
                  'nothing changes when a/K has no entry.',
             bound='32 flag combinations {synthetic, bridge, private, static, final} x arity of the bridge {0,1,2} (parameters java/lang/Object) x arity of the delegate {0,1,2} (parameters a/B) '
                   'x 6 bodies (no Code; Code without invocation; one invocation; the same method twice; two methods; two methods of one name) x 8 mapping situations '
                   '(a/K present: bridge named in a/K / in a/P / nowhere x delegate unnamed / named with comment and parameter; a/K absent: bridge named in a/P / nowhere) = 13824 cases '
                   '(900 with a rename); ' + _SKEL),
        dict(name='unflagged_synthetic_signatures', props=['C15'], tier='quick', timeout=600,
             text='A synthetic, inheritable, unflagged method that invokes one method is a bridge exactly for the signature pairs of equal arity whose parameter and return types are '
                  'position-wise compatible; then the delegate (same name as the bridge, as javac writes it) receives the name of the bridge under its own descriptor; otherwise nothing changes.',
             bound='all 105 x 105 = 11025 pairs of descriptors with <= 2 parameters over {java/lang/Object, a/B, a/C (extends a/B), int} and return types over the same plus void '
                   '(456 compatible pairs); ' + _SKEL),
        dict(name='flagged_bridge_signatures', props=['C15'], tier='quick', timeout=600,
             text='A synthetic method flagged as bridge that invokes one method is a bridge whatever the two signatures are; the delegate receives the name under its own (translated) descriptor.',
             bound='the same 11025 descriptor pairs, flags synthetic + bridge (11025 renames); ' + _SKEL),
        dict(name='all_flags_short_signatures', props=['C15'], tier='quick', timeout=600,
             text='The same for every flag combination: a rename happens exactly for synthetic + bridge (any signature) and for synthetic without private / static / final with a compatible signature.',
             bound='32 flag combinations x all 25 x 25 descriptor pairs with <= 1 parameter = 20000 cases (5064 renames); ' + _SKEL),
        dict(name='deep_and_interface_bounds', props=['C15'], tier='quick', timeout=600,
             text='Compatibility follows the class hierarchy of the jar over several levels and through interfaces (a type variable erased to its bound, covariant returns).',
             bound='all 42 x 42 = 1764 pairs of descriptors (T)R with T over {java/lang/Object, a/B, a/C, a/D, a/Y, int}, R over the same plus void; a/D extends a/C extends a/B, a/D implements a/Y '
                   '(210 compatible pairs); unflagged synthetic; ' + _SKEL),
        dict(name='hierarchy_and_name_source', props=['C15'], tier='quick', timeout=600,
             text='The name the delegate receives is the one the mappings give the bridge through inheritance: the entry of a/K, else the nearest on the super class chain a/P, a/G, l/L, l/M '
                  '(that l/M is above l/L is known from the library jar only), else the one of a super interface; else the unchanged name.  The entry is placed in the bridge\'s class whatever class the '
                  'invocation names (own class, super class by invokespecial, another class by invokestatic, an interface), under the delegate\'s intermediary name and descriptor as the '
                  'official -> intermediary set gives them (also through inheritance, or not at all).',
             bound='subsets of the six places {a/K, a/P, a/G, l/M, a/J, a/I} that name the bridge (63 of 64: both interfaces and no class is left out as undefined) x delegate entry absent / present, '
                   'plus 31 subsets with a/K absent from the mappings = 157 mapping sets; x 4 official -> intermediary sets (empty; renaming everything; delegate declared at the super class of the '
                   'class the invocation names; delegate not declared) x 4 invocations (invokevirtual a/K, invokespecial a/P, invokestatic a/X, invokeinterface a/I) x {flagged, unflagged compatible} '
                   'x delegate named like the bridge or not = 10048 cases (8064 renames); ' + _SKEL),
        dict(name='several_bridges_through_a_zip', props=['C15'], tier='quick', timeout=600,
             text='With several bridges in one jar every delegate receives, in the class of its bridge, the name of its bridge; a flagged synthetic that invokes two methods next to them causes '
                  'nothing; the same delegate bridged in a sub class gets an entry there too (or nothing when the sub class has no entry).  The jars are read from real zip archives.',
             bound='a/K with any subset of {flagged bridge m(Object)V -> m(a/B)V, unflagged covariant g()Object -> g()a/C, flagged synthetic h invoking two methods} x a/K2 (extends a/K) without bridge / '
                   'flagged bridge invoking a/K2.m(a/B)V / unflagged synthetic invoking a/K.m(a/B)V by invokespecial x interface a/I2 (extends a/I) with or without a flagged bridge = 48 jars; '
                   'x 32 mapping sets (m(Object)V named in a/K / a/P / a/I / nowhere; a/K2 with or without entry; g()Object named or not; delegate m(a/B)V named or not) x 2 official -> intermediary sets '
                   '(empty, renaming) = 3072 cases (2816 renames)'),
        dict(name='invocations_on_array_classes_count', props=['C15'], tier='quick', timeout=600,
             text='A synthetic method that invokes two distinct methods, one of them on an array class ([La/B;.clone()), causes no rename.',
             bound='{flagged, unflagged compatible} x array invocation first / second x bridge named in a/K / a/P / nowhere x delegate unnamed / named = 24 cases'),
        dict(name='canary_must_fail', props=[], canary=True, text='must fail', bound=''),
    ])
