GROUP = dict(crate='feather-build-rs', file='src/specialized_methods/mod.rs', harness_file='bridge.rs', cargo_target=['--bin', 'feather-build-rs'],
             functions=[], trusted=[], tests=[
    dict(name='flags_arities_bodies', props=['C15'], text='draft', bound='draft', timeout=600, tier='quick'),
    dict(name='unflagged_synthetic_signatures', props=['C15'], text='draft', bound='draft', timeout=600, tier='quick'),
    dict(name='flagged_bridge_signatures', props=['C15'], text='draft', bound='draft', timeout=600, tier='quick'),
    dict(name='all_flags_short_signatures', props=['C15'], text='draft', bound='draft', timeout=600, tier='quick'),
    dict(name='deep_and_interface_bounds', props=['C15'], text='draft', bound='draft', timeout=600, tier='quick'),
    dict(name='hierarchy_and_name_source', props=['C15'], text='draft', bound='draft', timeout=600, tier='quick'),
    dict(name='several_bridges_through_a_zip', props=['C15'], text='draft', bound='draft', timeout=600, tier='quick'),
    dict(name='invocations_on_array_classes_count', props=['C15'], text='draft', bound='draft', timeout=600, tier='quick'),
    dict(name='canary_must_fail', props=[], canary=True, text='must fail', bound=''),
])
