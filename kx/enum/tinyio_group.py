"""Enumeration group `tinyio`: the Tiny v2 and tiny-diff readers on malformed text (bounded stand-in for the C16 clause about these parsers)."""
GROUP = dict(
    crate='quill', file='quill/src/lib.rs', harness_file='tinyio.rs',
    functions=['quill/src/tiny_v2.rs::read', 'quill/src/tiny_v2_diff.rs::read', 'quill/src/lines.rs::WithMoreIdentIter', 'quill/src/lines.rs::tiny_line::TinyLine::new / next / end / into_names / into_namespaces / action'],
    trusted=['tinyio harness (kx/enum/tinyio.rs): hand-written line menus (headers, class / field / method / parameter / comment lines with missing, surplus, empty and multi-byte fields, unknown kinds, blank lines) at every indentation 0..3'],
    tests=[
        dict(name='tiny_readers_never_panic_on_malformed_text', props=['C16'], tier='quick', timeout=900,
             text='tiny_v2::read (2 and 3 namespaces) and tiny_v2_diff::read return Ok or Err on every document of the universe: no panic, no endless loop; a well-formed document is accepted',
             bound='9 headers x all documents of 0, 1 and 2 lines over 30 body lines x 4 indentations (with and without final line break), three-line bodies over the class / field / method / parameter lines under the two ordinary headers, invalid UTF-8, CR LF'),
        dict(name='canary_must_fail', props=[], canary=True, text='must fail', bound=''),
    ])
