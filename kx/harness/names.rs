	// harness module appended to quill/src/tree/mod.rs (scratch copy only)
	use super::names::*;

	fn mk<const N: usize>(v: [Option<u8>; N]) -> Names<N, u8> {
		let mut n: Names<N, u8> = Names::none();
		let mut i = 0;
		while i < N {
			n[Namespace::new(i).unwrap()] = v[i];
			i += 1;
		}
		n
	}
	fn any_table<const N: usize>() -> ([usize; N], [Namespace<N>; N]) {
		let raw: [usize; N] = kani::any();
		let mut i = 0;
		while i < N { kani::assume(raw[i] < N); i += 1; }
		(raw, raw.map(|i| Namespace::new(i).unwrap()))
	}
	fn is_perm<const N: usize>(t: &[usize; N]) -> bool {
		let mut i = 0;
		while i < N {
			let mut j = i + 1;
			while j < N { if t[i] == t[j] { return false; } j += 1; }
			i += 1;
		}
		true
	}

	macro_rules! names_harnesses { ($n:expr, $change:ident, $reorder:ident, $inverse:ident, $identity:ident, $first:ident) => {
		/// change_name: Err iff namespace 0 or old value mismatch; on Ok only that slot changes and becomes `to`; returns the old value
		#[kani::proof]
		#[kani::unwind(6)]
		fn $change() {
			let v: [Option<u8>; $n] = kani::any();
			let mut n = mk::<$n>(v);
			let ns: usize = kani::any();
			kani::assume(ns < $n);
			let from: Option<u8> = kani::any();
			let to: Option<u8> = kani::any();
			let r = n.change_name(Namespace::new(ns).unwrap(), from.as_ref(), to.as_ref());
			let ok = ns != 0 && v[ns] == from;
			assert!(r.is_ok() == ok);
			if let Ok(old) = r { assert!(old == from); }
			let mut i = 0;
			while i < $n {
				let expect = if ok && i == ns { to } else { v[i] };
				assert!(n.names()[i] == expect);
				i += 1;
			}
		}
		/// reorder: result[i] == self[table[i]] for every i, for every table (permutation or not)
		#[kani::proof]
		#[kani::unwind(6)]
		fn $reorder() {
			let v: [Option<u8>; $n] = kani::any();
			let n = mk::<$n>(v);
			let (raw, table) = any_table::<$n>();
			let r = n.reorder(table);
			assert!(r.is_ok());
			let r = r.unwrap();
			let mut i = 0;
			while i < $n { assert!(r.names()[i] == v[raw[i]]); i += 1; }
		}
		/// reorder by a permutation, then by its inverse, gives back the original
		#[kani::proof]
		#[kani::unwind(6)]
		fn $inverse() {
			let v: [Option<u8>; $n] = kani::any();
			let n = mk::<$n>(v);
			let (raw, table) = any_table::<$n>();
			kani::assume(is_perm(&raw));
			let mut inv = [0usize; $n];
			let mut i = 0;
			while i < $n { inv[raw[i]] = i; i += 1; }
			let back = n.reorder(table).unwrap().reorder(inv.map(|i| Namespace::new(i).unwrap())).unwrap();
			let mut i = 0;
			while i < $n { assert!(back.names()[i] == v[i]); i += 1; }
		}
		/// the identity permutation changes nothing
		#[kani::proof]
		#[kani::unwind(6)]
		fn $identity() {
			let v: [Option<u8>; $n] = kani::any();
			let n = mk::<$n>(v);
			let mut id = [0usize; $n];
			let mut i = 0;
			while i < $n { id[i] = i; i += 1; }
			let r = n.reorder(id.map(|i| Namespace::new(i).unwrap())).unwrap();
			assert!(r.names() == &v);
		}
		/// first_name: Ok iff the first namespace has a name, and it is that name
		#[kani::proof]
		#[kani::unwind(6)]
		fn $first() {
			let v: [Option<u8>; $n] = kani::any();
			let n = mk::<$n>(v);
			match n.first_name() {
				Ok(x) => assert!(v[0] == Some(*x)),
				Err(_) => assert!(v[0].is_none()),
			}
		}
	}}
	names_harnesses!(2, change_name_n2, reorder_n2, reorder_inverse_n2, reorder_identity_n2, first_name_n2);
	names_harnesses!(3, change_name_n3, reorder_n3, reorder_inverse_n3, reorder_identity_n3, first_name_n3);
	names_harnesses!(4, change_name_n4, reorder_n4, reorder_inverse_n4, reorder_identity_n4, first_name_n4);

	/// Namespace::new(id): Ok iff id < N
	#[kani::proof]
	fn namespace_new_bounds() {
		let id: usize = kani::any();
		assert!(Namespace::<3>::new(id).is_ok() == (id < 3));
		assert!(Namespace::<2>::new(id).is_ok() == (id < 2));
	}

	#[kani::proof]
	#[kani::unwind(6)]
	fn canary_names_must_fail() {
		let v: [Option<u8>; 2] = kani::any();
		let n = mk::<2>(v);
		// reachable and false for v[0] == None: the harness machinery really explores the real function
		assert!(n.first_name().is_ok());
	}
