	// harness module appended to quill/src/action/diff_mappings.rs (scratch copy only)
	use super::*;
	use crate::action::apply_diff::apply_diff_option;
	use crate::tree::names::Names;

	// node types local to the harness: the functions are generic over NodeJavadocInfo / NodeInfo + GetNames
	struct J(Option<u8>);
	impl NodeJavadocInfo<Option<u8>> for J {
		fn get_node_javadoc_info(&self) -> &Option<u8> { &self.0 }
		fn get_node_javadoc_info_mut(&mut self) -> &mut Option<u8> { &mut self.0 }
	}
	struct M(Names<2, u8>);
	impl GetNames<2, u8> for M {
		fn get_names(&self) -> &Names<2, u8> { &self.0 }
		fn get_names_mut(&mut self) -> &mut Names<2, u8> { &mut self.0 }
	}
	struct Nd(M);
	impl NodeInfo<M> for Nd {
		fn get_node_info(&self) -> &M { &self.0 }
		fn get_node_info_mut(&mut self) -> &mut M { &mut self.0 }
		fn new(info: M) -> Self { Nd(info) }
	}
	fn node(first: u8, second: Option<u8>) -> Nd {
		let mut n: Names<2, u8> = Names::from_first_name(first);
		n[Namespace::new(1).unwrap()] = second;
		Nd(M(n))
	}

	/// gen_diff_javadoc: entry only in A -> its comment is removed; only in B -> its comment is added; on both sides -> the (old, new) pair
	#[kani::proof]
	fn gen_diff_javadoc_table() {
		let a = J(kani::any());
		let b = J(kani::any());
		let da: Action<u8> = gen_diff_javadoc(Combination::A(&a));
		assert!(da == match a.0 { None => Action::None, Some(x) => Action::Remove(x) });
		let db: Action<u8> = gen_diff_javadoc(Combination::B(&b));
		assert!(db == match b.0 { None => Action::None, Some(y) => Action::Add(y) });
		let dab: Action<u8> = gen_diff_javadoc(Combination::AB(&a, &b));
		assert!(dab == match (a.0, b.0) { (None, None) => Action::None, (None, Some(y)) => Action::Add(y), (Some(x), None) => Action::Remove(x), (Some(x), Some(y)) => Action::Edit(x, y) });
	}

	/// applying diff(A,B) to A yields B, at the comment level: for an entry on both sides, for an entry that appears (no old comment) and for one that disappears
	#[kani::proof]
	fn apply_of_gen_diff_javadoc_is_b() {
		let a = J(kani::any());
		let b = J(kani::any());
		let dab: Action<u8> = gen_diff_javadoc(Combination::AB(&a, &b));
		assert!(matches!(apply_diff_option(&dab, a.0), Ok(r) if r == b.0));
		let db: Action<u8> = gen_diff_javadoc(Combination::B(&b));
		assert!(matches!(apply_diff_option(&db, None), Ok(r) if r == b.0));
		let da: Action<u8> = gen_diff_javadoc(Combination::A(&a));
		assert!(matches!(apply_diff_option(&da, a.0), Ok(None)));
	}

	/// gen_diff_names: the action on the second namespace; refuses an absent name; and change_name driven by it turns A's row into B's row
	#[kani::proof]
	#[kani::unwind(4)]
	fn gen_diff_names_table_and_apply() {
		let k: u8 = kani::any();
		let (x, y): (Option<u8>, Option<u8>) = (kani::any(), kani::any());
		let (a, b) = (node(k, x), node(k, y));
		let ns = Namespace::<2>::new(1).unwrap();
		let da: Result<Action<u8>> = gen_diff_names(Combination::A(&a));
		match x { Some(v) => assert!(matches!(da, Ok(Action::Remove(w)) if w == v)), None => assert!(da.is_err()) }
		let db: Result<Action<u8>> = gen_diff_names(Combination::B(&b));
		match y { Some(v) => assert!(matches!(db, Ok(Action::Add(w)) if w == v)), None => assert!(db.is_err()) }
		let dab: Result<Action<u8>> = gen_diff_names(Combination::AB(&a, &b));
		match (x, y) {
			(Some(v), Some(w)) => {
				assert!(matches!(dab, Ok(Action::Edit(p, q)) if p == v && q == w));
				// apply: the Edit(v, w) of apply_diff_map is change_name(target, Some(v), Some(w))
				let mut t = node(k, x);
				let r = t.0.0.change_name(ns, Some(&v), Some(&w));
				assert!(r.is_ok());
				assert!(t.0.0.names()[1] == y && t.0.0.names()[0] == Some(k));
			},
			_ => assert!(dab.is_err()),
		}
	}

	#[kani::proof]
	fn canary_diff_must_fail() {
		let a = J(kani::any());
		let d: Action<u8> = gen_diff_javadoc(Combination::A(&a));
		assert!(d == Action::None);
	}
