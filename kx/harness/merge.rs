	// harness module appended to quill/src/action/merge.rs (scratch copy only)
	use super::*;
	use java_string::JavaStr;

	// a node type local to the harness: the functions are generic over `Target: NodeJavadocInfo<Option<Javadoc>>`
	struct J(Option<u8>);
	impl NodeJavadocInfo<Option<u8>> for J {
		fn get_node_javadoc_info(&self) -> &Option<u8> { &self.0 }
		fn get_node_javadoc_info_mut(&mut self) -> &mut Option<u8> { &mut self.0 }
	}

	/// merge_equal: A -> a, B -> b, AB -> Err iff a != b else a
	#[kani::proof]
	fn merge_equal_u8() {
		let a: u8 = kani::any();
		let b: u8 = kani::any();
		assert!(matches!(merge_equal(Combination::A(&a)), Ok(x) if x == a));
		assert!(matches!(merge_equal(Combination::B(&b)), Ok(x) if x == b));
		match merge_equal(Combination::AB(&a, &b)) {
			Ok(x) => assert!(a == b && x == a),
			Err(_) => assert!(a != b),
		}
	}

	/// merge_javadoc: one-sided -> that side's comment; two-sided -> present iff either side has one; Err iff both present and different
	#[kani::proof]
	fn merge_javadoc_u8() {
		let a = J(kani::any());
		let b = J(kani::any());
		assert!(matches!(merge_javadoc(Combination::A(&a)), Ok(x) if x == a.0));
		assert!(matches!(merge_javadoc(Combination::B(&b)), Ok(x) if x == b.0));
		let r: Result<Option<u8>> = merge_javadoc(Combination::AB(&a, &b));
		match (a.0, b.0) {
			(Some(x), Some(y)) if x != y => assert!(r.is_err()),
			(Some(x), _) => assert!(matches!(r, Ok(Some(z)) if z == x)),
			(None, y) => assert!(matches!(r, Ok(z) if z == y)),
		}
	}

	#[kani::proof]
	fn merge_javadoc_ab_u8() {
		let a = J(kani::any());
		let b = J(kani::any());
		let r: Result<Option<u8>> = merge_javadoc_ab(&a, &b);
		match (a.0, b.0) {
			(Some(x), Some(y)) if x != y => assert!(r.is_err()),
			(Some(x), _) => assert!(matches!(r, Ok(Some(z)) if z == x)),
			(None, y) => assert!(matches!(r, Ok(z) if z == y)),
		}
	}

	// names are drawn by symbolic index from a menu {absent, "a", "b"}
	fn pick() -> Option<&'static JavaStr> {
		let k: u8 = kani::any();
		kani::assume(k < 3);
		match k { 0 => None, 1 => Some(JavaStr::from_str("a")), _ => Some(JavaStr::from_str("b")) }
	}
	fn row() -> ([Option<&'static JavaStr>; 2], Names<2, &'static JavaStr>) {
		let r = [pick(), pick()];
		(r, Names::try_from(r).unwrap())
	}

	/// merge_names, A only: [a0, a1] -> [a0, a1, None]
	#[kani::proof]
	#[kani::unwind(5)]
	fn merge_names_a_only() {
		let (a, na) = row();
		let m = merge_names(Combination::A(&na)).unwrap();
		let m: &[Option<&JavaStr>; 3] = (&m).into();
		assert!(m[0] == a[0] && m[1] == a[1] && m[2].is_none());
	}
	/// merge_names, B only: [b0, b1] -> [b0, None, b1]
	#[kani::proof]
	#[kani::unwind(5)]
	fn merge_names_b_only() {
		let (b, nb) = row();
		let m = merge_names(Combination::B(&nb)).unwrap();
		let m: &[Option<&JavaStr>; 3] = (&m).into();
		assert!(m[0] == b[0] && m[1].is_none() && m[2] == b[1]);
	}
	/// merge_names, both: Err iff first names differ, else [a0, a1, b1]; projections give back A's and B's rows
	#[kani::proof]
	#[kani::unwind(5)]
	fn merge_names_both() {
		let (a, na) = row();
		let (b, nb) = row();
		match merge_names(Combination::AB(&na, &nb)) {
			Err(_) => assert!(a[0] != b[0]),
			Ok(m) => {
				let m: &[Option<&JavaStr>; 3] = (&m).into();
				assert!(a[0] == b[0]);
				assert!([m[0], m[1]] == a);
				assert!([m[0], m[2]] == b);
			},
		}
	}

	#[kani::proof]
	fn canary_merge_must_fail() {
		let a: u8 = kani::any();
		let b: u8 = kani::any();
		assert!(merge_equal(Combination::AB(&a, &b)).is_ok());
	}
