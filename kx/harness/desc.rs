	// harness module appended to duke/src/tree/descriptor.rs (scratch copy only)
	use super::*;
	use crate::tree::field::{FieldDescriptorSlice};
	use crate::tree::method::{MethodDescriptorSlice};
	use java_string::JavaStr;

	// the descriptor alphabet used for the bounded exhaustive runs
	const ALPHA: [u8; 9] = [b'I', b'J', b'L', b';', b'[', b'/', b'a', b'V', b'('];

	fn any_bytes<const N: usize>() -> [u8; N] {
		let mut b = [0u8; N];
		let mut i = 0;
		while i < N {
			let k: usize = kani::any();
			kani::assume(k < ALPHA.len());
			b[i] = ALPHA[k];
			i += 1;
		}
		b
	}

	// ---- independent recogniser of JVMS 4.3.2 (written from the grammar, shares nothing with duke) ----
	fn o_unqualified(s: &[u8]) -> bool {
		if s.is_empty() { return false; }
		let mut i = 0;
		while i < s.len() { if s[i] == b'.' || s[i] == b';' || s[i] == b'[' || s[i] == b'/' { return false; } i += 1; }
		true
	}
	/// ClassName between L and ; : identifiers separated by '/', each a non-empty unqualified name
	fn o_class_name(s: &[u8]) -> bool {
		let mut start = 0;
		let mut i = 0;
		while i <= s.len() {
			if i == s.len() || s[i] == b'/' {
				if !o_unqualified(&s[start..i]) { return false; }
				start = i + 1;
			}
			i += 1;
		}
		true
	}
	/// FieldType starting at i: returns the index after it
	fn o_field_type(s: &[u8], mut i: usize) -> Option<usize> {
		let mut dims = 0usize;
		while i < s.len() && s[i] == b'[' { dims += 1; i += 1; }
		if dims > 255 || i >= s.len() { return None; }
		match s[i] {
			b'B' | b'C' | b'D' | b'F' | b'I' | b'J' | b'S' | b'Z' => Some(i + 1),
			b'L' => {
				let mut j = i + 1;
				while j < s.len() && s[j] != b';' { j += 1; }
				if j < s.len() && o_class_name(&s[i + 1..j]) { Some(j + 1) } else { None }
			},
			_ => None,
		}
	}
	fn o_field_descriptor(s: &[u8]) -> bool { o_field_type(s, 0) == Some(s.len()) }
	fn o_return_descriptor(s: &[u8]) -> bool { (s.len() == 1 && s[0] == b'V') || o_field_descriptor(s) }

	fn field_case<const N: usize>() {
		let b = any_bytes::<N>();
		let s = std::str::from_utf8(&b).unwrap();
		// SAFETY: the type's check_valid accepts everything (see descriptor.rs); parse is the function under test
		let d = unsafe { FieldDescriptorSlice::from_inner_unchecked(JavaStr::from_str(s)) };
		match d.parse() {
			Ok(p) => {
				assert!(o_field_descriptor(&b)); // accepts only the grammar
				let w = p.write();               // printing must not panic ...
				assert!(w.as_inner().as_bytes() == &b[..]); // ... and reproduces the original
			},
			Err(_) => assert!(!o_field_descriptor(&b)), // rejects only what is outside the grammar
		}
	}
	fn return_case<const N: usize>() {
		let b = any_bytes::<N>();
		let s = std::str::from_utf8(&b).unwrap();
		let d = unsafe { ReturnDescriptorSlice::from_inner_unchecked(JavaStr::from_str(s)) };
		match d.parse() {
			Ok(p) => {
				assert!(o_return_descriptor(&b));
				let w = p.write();
				assert!(w.as_inner().as_bytes() == &b[..]);
			},
			Err(_) => assert!(!o_return_descriptor(&b)),
		}
	}

	#[kani::proof] #[kani::unwind(4)] fn field_desc_len1() { field_case::<1>() }
	#[kani::proof] #[kani::unwind(5)] fn field_desc_len2() { field_case::<2>() }
	#[kani::proof] #[kani::unwind(6)] fn field_desc_len3() { field_case::<3>() }
	#[kani::proof] #[kani::unwind(7)] fn field_desc_len4() { field_case::<4>() }
	#[kani::proof] #[kani::unwind(4)] fn return_desc_len1() { return_case::<1>() }
	#[kani::proof] #[kani::unwind(5)] fn return_desc_len2() { return_case::<2>() }
	#[kani::proof] #[kani::unwind(6)] fn return_desc_len3() { return_case::<3>() }

	#[kani::proof]
	#[kani::unwind(4)]
	fn canary_desc_must_fail() {
		let b = any_bytes::<1>();
		let s = std::str::from_utf8(&b).unwrap();
		let d = unsafe { FieldDescriptorSlice::from_inner_unchecked(JavaStr::from_str(s)) };
		assert!(d.parse().is_ok());
	}
