	// harness module appended to duke/src/lib.rs (scratch copy only)
	// Oracle: the flag tables of the Java Virtual Machine Specification (SE 22), written here from the specification:
	//   Table 4.1-B (class), 4.5-A (field), 4.6-A (method), 4.7.6-A (inner class), 4.7.24 (parameter),
	//   4.7.25 (module_flags, requires_flags, exports_flags, opens_flags).
	use crate::tree::class::{ClassAccess, InnerClassFlags};
	use crate::tree::field::FieldAccess;
	use crate::tree::method::{MethodAccess, ParameterFlags};
	use crate::tree::module::{ModuleFlags, ModuleRequiresFlags, ModuleExportsFlags, ModuleOpensFlags};

	macro_rules! flags_harness { ($ty:ident, $dec:ident, $enc:ident, { $($field:ident = $bit:expr),* $(,)? }) => {
		/// decoding: every boolean is exactly its JVMS bit, for all 65 536 values; re-encoding keeps exactly the JVMS bits
		#[kani::proof]
		fn $dec() {
			let v: u16 = kani::any();
			let x = $ty::from(v);
			$( assert!(x.$field == (v & $bit != 0)); )*
			let mask: u16 = 0 $(| $bit)*;
			let w: u16 = u16::from(x);
			assert!(w == v & mask);
		}
		/// encoding: the u16 written has exactly the JVMS bit of every set boolean and nothing else, for all values of the flag set
		#[kani::proof]
		fn $enc() {
			let x = $ty { $($field: kani::any()),* };
			let w: u16 = u16::from(x);
			let mut expect: u16 = 0;
			$( if x.$field { expect |= $bit; } )*
			assert!(w == expect);
			let y = $ty::from(w);
			$( assert!(y.$field == x.$field); )*
		}
	}}

	flags_harness!(ClassAccess, class_access_decode, class_access_encode, {
		is_public = 0x0001, is_final = 0x0010, is_super = 0x0020, is_interface = 0x0200, is_abstract = 0x0400,
		is_synthetic = 0x1000, is_annotation = 0x2000, is_enum = 0x4000, is_module = 0x8000 });
	flags_harness!(FieldAccess, field_access_decode, field_access_encode, {
		is_public = 0x0001, is_private = 0x0002, is_protected = 0x0004, is_static = 0x0008, is_final = 0x0010,
		is_volatile = 0x0040, is_transient = 0x0080, is_synthetic = 0x1000, is_enum = 0x4000 });
	flags_harness!(MethodAccess, method_access_decode, method_access_encode, {
		is_public = 0x0001, is_private = 0x0002, is_protected = 0x0004, is_static = 0x0008, is_final = 0x0010,
		is_synchronized = 0x0020, is_bridge = 0x0040, is_varargs = 0x0080, is_native = 0x0100, is_abstract = 0x0400,
		is_strict = 0x0800, is_synthetic = 0x1000 });
	flags_harness!(InnerClassFlags, inner_class_flags_decode, inner_class_flags_encode, {
		is_public = 0x0001, is_private = 0x0002, is_protected = 0x0004, is_static = 0x0008, is_final = 0x0010,
		is_interface = 0x0200, is_abstract = 0x0400, is_synthetic = 0x1000, is_annotation = 0x2000, is_enum = 0x4000 });
	flags_harness!(ParameterFlags, parameter_flags_decode, parameter_flags_encode, {
		is_final = 0x0010, is_synthetic = 0x1000, is_mandated = 0x8000 });
	flags_harness!(ModuleFlags, module_flags_decode, module_flags_encode, {
		is_open = 0x0020, is_synthetic = 0x1000, is_mandated = 0x8000 });
	flags_harness!(ModuleRequiresFlags, module_requires_flags_decode, module_requires_flags_encode, {
		is_transitive = 0x0020, is_static_phase = 0x0040, is_synthetic = 0x1000, is_mandated = 0x8000 });
	flags_harness!(ModuleExportsFlags, module_exports_flags_decode, module_exports_flags_encode, {
		is_synthetic = 0x1000, is_mandated = 0x8000 });
	flags_harness!(ModuleOpensFlags, module_opens_flags_decode, module_opens_flags_encode, {
		is_synthetic = 0x1000, is_mandated = 0x8000 });

	#[kani::proof]
	fn canary_flags_must_fail() {
		let v: u16 = kani::any();
		let x = ClassAccess::from(v);
		assert!(!x.is_public);
	}
