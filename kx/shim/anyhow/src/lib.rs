//! API-compatible stand-in for `anyhow` used ONLY inside the Kani scratch copy of the workspace.
//! Error values carry no message; control flow (Ok/Err, `?`, bail!, context on Result and Option) is identical.
//! Reason: with the real crate CBMC does not terminate on a single `bail!` (backtrace capture, Box<dyn Error> drop glue, fmt).
use core::fmt;

pub struct Error;
pub type Result<T, E = Error> = core::result::Result<T, E>;

impl fmt::Debug for Error { fn fmt(&self, f: &mut fmt::Formatter<'_>) -> fmt::Result { f.write_str("Error") } }
impl fmt::Display for Error { fn fmt(&self, f: &mut fmt::Formatter<'_>) -> fmt::Result { f.write_str("Error") } }

impl Error {
    pub fn msg<M>(_m: M) -> Error { Error }
    pub fn new<E>(_e: E) -> Error { Error }
    pub fn context<C>(self, _c: C) -> Error { Error }
}
impl<E: std::error::Error + Send + Sync + 'static> From<E> for Error { fn from(_: E) -> Error { Error } }

#[macro_export]
macro_rules! anyhow { ($($t:tt)*) => { $crate::Error }; }
#[macro_export]
macro_rules! bail { ($($t:tt)*) => { return ::core::result::Result::Err($crate::Error) }; }
#[macro_export]
macro_rules! ensure { ($c:expr $(, $($t:tt)*)?) => { if !($c) { return ::core::result::Result::Err($crate::Error) } }; }

pub trait Context<T, E> {
    fn context<C>(self, context: C) -> Result<T, Error>;
    fn with_context<C, F: FnOnce() -> C>(self, f: F) -> Result<T, Error>;
}
impl<T, E> Context<T, E> for core::result::Result<T, E> where E: Into<Error> {
    fn context<C>(self, _c: C) -> Result<T, Error> { match self { Ok(v) => Ok(v), Err(e) => Err(e.into()) } }
    fn with_context<C, F: FnOnce() -> C>(self, _f: F) -> Result<T, Error> { match self { Ok(v) => Ok(v), Err(e) => Err(e.into()) } }
}
impl<T> Context<T, core::convert::Infallible> for Option<T> {
    fn context<C>(self, _c: C) -> Result<T, Error> { match self { Some(v) => Ok(v), None => Err(Error) } }
    fn with_context<C, F: FnOnce() -> C>(self, _f: F) -> Result<T, Error> { match self { Some(v) => Ok(v), None => Err(Error) } }
}
