"""Kani harness groups: where each harness module is appended, and what each harness claims."""


def _names_harnesses():
    hs = []
    for n in (2, 3, 4):
        hs += [
            dict(name=f'change_name_n{n}', props=['C04'], complete=True,
                 text=f'Names::<{n},u8>::change_name(ns, from, to): Err iff ns == 0 or self[ns] != from; on Ok only slot ns changes, it becomes `to`, the old value is returned; on Err nothing changes (all slots, all u8 values)'),
            dict(name=f'reorder_n{n}', props=['C08'], complete=True,
                 text=f'Names::<{n},u8>::reorder(table): result[i] == self[table[i]] for every i and every table'),
            dict(name=f'reorder_inverse_n{n}', props=['C08'], complete=True,
                 text=f'Names::<{n},u8>: reorder by any permutation p then by p^-1 returns the original row'),
            dict(name=f'reorder_identity_n{n}', props=['C08'], complete=True,
                 text=f'Names::<{n},u8>: the identity permutation changes nothing'),
            dict(name=f'first_name_n{n}', props=['C08'], complete=True,
                 text=f'Names::<{n},u8>::first_name(): Ok(x) iff slot 0 is Some(x) (re-keying fails when the new first namespace lacks a name)'),
        ]
    hs.append(dict(name='namespace_new_bounds', props=['C04', 'C08'], complete=True, text='Namespace::<N>::new(id) is Ok iff id < N (all usize)'))
    hs.append(dict(name='canary_names_must_fail', props=[], canary=True, text='must fail'))
    return hs


def _flags_harnesses():
    hs = []
    T = [('class_access', 'ClassAccess', 'JVMS Table 4.1-B'), ('field_access', 'FieldAccess', 'JVMS Table 4.5-A'), ('method_access', 'MethodAccess', 'JVMS Table 4.6-A'),
         ('inner_class_flags', 'InnerClassFlags', 'JVMS Table 4.7.6-A'), ('parameter_flags', 'ParameterFlags', 'JVMS 4.7.24'),
         ('module_flags', 'ModuleFlags', 'JVMS 4.7.25 module_flags'), ('module_requires_flags', 'ModuleRequiresFlags', 'JVMS 4.7.25 requires_flags'),
         ('module_exports_flags', 'ModuleExportsFlags', 'JVMS 4.7.25 exports_flags'), ('module_opens_flags', 'ModuleOpensFlags', 'JVMS 4.7.25 opens_flags')]
    for n, ty, ref in T:
        hs.append(dict(name=n + '_decode', props=['C01'], complete=True,
                       text=f'{ty}::from(u16): every boolean equals its bit of {ref} for all 65 536 values, and u16::from(..) gives back exactly the value masked to the table'))
        hs.append(dict(name=n + '_encode', props=['C02'], complete=True,
                       text=f'u16::from({ty}): the value written has exactly the bits of {ref} for the set booleans (all combinations), and decodes back to the same flags'))
    hs.append(dict(name='canary_flags_must_fail', props=[], canary=True, text='must fail'))
    return hs


GROUPS = {
    'flags': dict(
        crate='duke', file='duke/src/lib.rs', modpath='verif_kani_flags', harness_file='flags.rs',
        functions=['duke/src/tree/class.rs::From<u16> for ClassAccess / From<ClassAccess> for u16', 'duke/src/tree/class.rs::InnerClassFlags <-> u16',
                   'duke/src/tree/field.rs::FieldAccess <-> u16', 'duke/src/tree/method.rs::MethodAccess <-> u16', 'duke/src/tree/method.rs::ParameterFlags <-> u16',
                   'duke/src/tree/module.rs::ModuleFlags / ModuleRequiresFlags / ModuleExportsFlags / ModuleOpensFlags <-> u16'],
        trusted=['flag harnesses: loop-free, the whole u16 domain / all boolean combinations (complete); oracle = JVMS flag tables written in the harness'],
        harnesses=_flags_harnesses()),
    'names': dict(
        crate='quill', file='quill/src/tree/mod.rs', modpath='tree::verif_kani_names', harness_file='names.rs',
        functions=['quill/src/tree/mod.rs::names::Names::change_name', 'quill/src/tree/mod.rs::names::Names::reorder',
                   'quill/src/tree/mod.rs::names::Names::first_name', 'quill/src/tree/mod.rs::names::Namespace::new'],
        trusted=['Names<N,T> instantiated at T = u8 and N in {2,3,4}: loops are array::map / while i < N over the const generic N, unwinding assertions on (complete for these N; other N not covered)'],
        harnesses=_names_harnesses()),
    'diff': dict(
        crate='quill', file='quill/src/action/diff_mappings.rs', modpath='action::diff_mappings::verif_kani_diff', harness_file='diff.rs',
        functions=['quill/src/action/diff_mappings.rs::gen_diff_javadoc', 'quill/src/action/diff_mappings.rs::gen_diff_names',
                   'quill/src/action/apply_diff.rs::apply_diff_option (composition)', 'quill/src/tree/mod.rs::names::Names::change_name (composition)'],
        trusted=['diff harnesses: Javadoc = Name = u8 with harness-local node types (the functions are generic and only clone / compare); loop-free, all values (complete)'],
        harnesses=[
            dict(name='gen_diff_javadoc_table', props=['C04'], complete=True, text='gen_diff_javadoc: only in A -> Remove(old) / None; only in B -> Add(new) / None; both -> from_tuple(old, new) (all Option<u8> pairs)'),
            dict(name='apply_of_gen_diff_javadoc_is_b', props=['C04'], complete=True, text='apply_diff_option(gen_diff_javadoc(AB(a,b)), a) == Ok(b); an appearing entry gets its comment, a disappearing one loses it (all Option<u8> pairs)'),
            dict(name='gen_diff_names_table_and_apply', props=['C04'], complete=True, text='gen_diff_names: Remove / Add / Edit of the second-namespace name, Err when a name is absent; change_name driven by the Edit turns A\'s row into B\'s row'),
            dict(name='canary_diff_must_fail', props=[], canary=True, text='must fail'),
        ]),
    'merge': dict(
        crate='quill', file='quill/src/action/merge.rs', modpath='action::merge::verif_kani_merge', harness_file='merge.rs',
        functions=['quill/src/action/merge.rs::merge_names', 'quill/src/action/merge.rs::merge_equal', 'quill/src/action/merge.rs::merge_javadoc',
                   'quill/src/action/merge.rs::merge_javadoc_ab'],
        trusted=['merge_names instantiated at Name = &\'static JavaStr (Kani ICE "Sub-array binding" on non-Copy names) with names drawn from the menu {absent, "a", "b"}; '
                 'merge_equal / merge_javadoc at T = Javadoc = u8 with a harness-local node type'],
        harnesses=[
            dict(name='merge_equal_u8', props=['C09'], complete=True, text='merge_equal: A -> a; B -> b; AB -> Err iff a != b, else a (all u8 pairs)'),
            dict(name='merge_javadoc_u8', props=['C09'], complete=True, text='merge_javadoc: one-sided -> that comment; two-sided -> present iff either side has one; Err iff both present and different (all Option<u8> pairs)'),
            dict(name='merge_javadoc_ab_u8', props=['C09'], complete=True, text='merge_javadoc_ab: present iff either side has one; Err iff both present and different (all Option<u8> pairs)'),
            dict(name='merge_names_a_only', props=['C09'], complete=True, text='merge_names(A [a0,a1]) == [a0,a1,absent] for all rows over the name menu'),
            dict(name='merge_names_b_only', props=['C09'], complete=True, text='merge_names(B [b0,b1]) == [b0,absent,b1] for all rows over the name menu'),
            dict(name='merge_names_both', props=['C09'], complete=True, text='merge_names(AB): Err iff first names differ; else [a0,a1,b1], and projecting onto (s,a) / (s,b) gives back A\'s / B\'s row'),
            dict(name='canary_merge_must_fail', props=[], canary=True, text='must fail'),
        ]),
    'desc': dict(
        crate='duke', file='duke/src/tree/descriptor.rs', modpath='tree::descriptor::verif_kani_desc', harness_file='desc.rs',
        functions=['duke/src/tree/descriptor.rs::read_field_type', 'duke/src/tree/descriptor.rs::write_field_type', 'FieldDescriptorSlice::parse',
                   'ParsedFieldDescriptor::write', 'ReturnDescriptorSlice::parse', 'ParsedReturnDescriptor::write'],
        trusted=['descriptor harnesses: strings over the 9-letter alphabet {I J L ; [ / a V (} only; oracle = independent recogniser of JVMS 4.3.2 in the harness'],
        harnesses=[
            dict(name=f'field_desc_len{n}', props=['C18', 'C16'], complete=False, bound=f'all {9**n} strings of length {n} over {{I,J,L,;,[,/,a,V,(}}', timeout=900,
                 tier='quick' if n <= 3 else 'thorough',
                 text='FieldDescriptorSlice::parse accepts exactly the JVMS field-descriptor grammar; write(parse(s)) == s and never panics')
            for n in (1, 2, 3, 4)
        ] + [
            dict(name=f'return_desc_len{n}', props=['C18', 'C16'], complete=False, bound=f'all {9**n} strings of length {n} over {{I,J,L,;,[,/,a,V,(}}', timeout=900,
                 tier='quick' if n <= 2 else 'thorough',
                 text='ReturnDescriptorSlice::parse accepts exactly V | FieldType; write(parse(s)) == s and never panics')
            for n in (1, 2, 3)
        ] + [dict(name='canary_desc_must_fail', props=[], canary=True, text='must fail')]),
}


def _t(name, props, text, bound, **kw):
    return dict(name=name, props=props, text=text, bound=bound, **kw)


ENUM_GROUPS = {
    'desc': dict(
        crate='duke', file='duke/src/tree/descriptor.rs', harness_file='desc.rs',
        functions=['duke/src/tree/descriptor.rs::read_field_type', 'duke/src/tree/descriptor.rs::write_field_type', 'FieldDescriptorSlice::parse',
                   'ParsedFieldDescriptor::write', 'ReturnDescriptorSlice::parse', 'ParsedReturnDescriptor::write', 'MethodDescriptorSlice::parse',
                   'ParsedMethodDescriptor::write', 'MethodDescriptorSlice::get_arguments_size'],
        tests=[
            _t('field_desc_grammar', ['C18', 'C16'], 'FieldDescriptorSlice::parse accepts exactly the JVMS 4.3.2 grammar, write(parse(s)) == s, no panic, terminates',
               'all strings of length <= 5 over the 11 letters {I J L ; [ / a V . ( )} (177 156 strings)'),
            _t('return_desc_grammar', ['C18', 'C16'], 'ReturnDescriptorSlice::parse accepts exactly V | FieldType, write(parse(s)) == s, no panic, terminates',
               'all strings of length <= 5 over the same 11 letters'),
            _t('method_desc_grammar', ['C18', 'C16'], 'MethodDescriptorSlice::parse accepts exactly "(" FieldType* ")" ReturnDescriptor, write(parse(s)) == s, no panic, terminates',
               'all strings of length <= 6 over the 9 letters {( ) I J L ; [ a V} (597 871 strings)'),
            _t('arguments_size', ['C16', 'C18'], 'MethodDescriptorSlice::get_arguments_size never panics or loops; on well-formed descriptors it is 1 + slots (2 for long/double)',
               'all strings of length <= 6 over {( ) I J L ; [ a V}'),
            _t('dimension_boundary', ['C18'], '`[`^n X parses iff n <= 255 (field, parameter and return position) and prints back',
               'n in {0,1,2,127,128,253..257,300,511,512,600} x element type in {I, La;, J}'),
            _t('print_then_parse', ['C18'], 'parse(write(t)) == t for field, return and method descriptors',
               '8 primitives, 5 object names, arrays of dimension {1,2,3,254,255} over 9 element types'),
            dict(name='canary_must_fail', props=[], canary=True, text='must fail', bound=''),
        ]),
    'names': dict(
        crate='duke', file='duke/src/tree/mod.rs', harness_file='names.rs',
        functions=['duke/src/tree/mod.rs::names::is_valid_class_name', 'names::is_valid_arr_class_name', 'names::is_valid_obj_class_name',
                   'names::is_valid_unqualified_name', 'names::is_valid_method_name', 'duke/src/macros.rs make_string_str_like!::is_valid (5 instantiations)'],
        tests=[
            _t('name_predicates', ['C18'], 'the five validity predicates and the is_valid of FieldName/MethodName/ObjClassName/ArrClassName/ClassName accept exactly the documented strings',
               'all strings of length <= 5 over {. ; [ / < > $ a} (37 449 strings) plus 10 special names around <init>/<clinit>'),
            dict(name='canary_must_fail', props=[], canary=True, text='must fail', bound=''),
        ]),
    'inner': dict(
        crate='duke', file='duke/src/tree/class.rs', harness_file='inner.rs',
        functions=['ObjClassNameSlice::split_inner_class_parent_and_name', 'ObjClassNameSlice::get_inner_class_name', 'ObjClassNameSlice::get_inner_class_parent',
                   'ObjClassName::from_inner_class'],
        tests=[
            _t('split_matches_spec_and_join_is_inverse', ['C11', 'C18'], 'split == last-$ split refusing empty sides and package crossings; join(split(s)) == s',
               'all valid object class names of length <= 7 over {a b $ /}'),
            _t('join_then_split', ['C11', 'C18'], 'from_inner_class yields a valid name and split(join(p, n)) == (p, n) for simple n',
               'all pairs of valid object class names of length <= 3 over {a b $ /}'),
            dict(name='canary_must_fail', props=[], canary=True, text='must fail', bound=''),
        ]),
    'mapdesc': dict(
        crate='quill', file='quill/src/remapper.rs', harness_file='mapdesc.rs',
        functions=['quill/src/remapper.rs::map_desc', 'ARemapper::map_class'],
        tests=[
            _t('map_desc_rewrites_exactly_the_class_names', ['C06', 'C16'], 'map_desc replaces exactly the names inside L...; (every other byte kept, shape preserved), Err exactly for an unterminated L or L;, no panic',
               'all strings of length <= 6 over {L ; [ a b I (} (137 257 strings), two-entry remapper a->xy, b->a'),
            _t('map_desc_with_multibyte_names', ['C06', 'C16'], 'the same with class names that contain multi-byte characters (byte offsets differ from character positions), no panic',
               'all strings of length <= 6 over the 7 symbols {L ; [ a e-acute euro-sign I} (137 257 strings), two-entry remapper a->xy, b->a'),
            _t('map_class_identity_fallback', ['C06'], 'ARemapper::map_class: mapped name for mapped classes, the unchanged name otherwise',
               'all valid object class names of length <= 4 over {a b / $ x}'),
            dict(name='canary_must_fail', props=[], canary=True, text='must fail', bound=''),
        ]),
    'maps': dict(
        crate='quill', file='quill/src/lib.rs', harness_file='maps.rs',
        functions=['quill::tiny_v2::read / write_string (whole mapping sets)', 'Mappings::merge', 'MappingsDiff::diff', 'MappingsDiff::apply_to', 'tiny_v2_diff::read',
                   'Mappings::reorder', 'Mappings::extend_inner_class_names', 'Mappings::contract_inner_class_names', 'Mappings::remapper_a', 'Mappings::remapper_b',
                   'Mappings::remove_dummy'],
        trusted=['map-level harness (kx/enum/maps.rs): own model of a mapping set, own Tiny v2 renderer and parser, model-level oracles written from the property statements; '
                 'explicit exclusions (counted at run time, see DESIGN 10.5): parameter source names in diffs, super-class search through classes the set does not name, '
                 'parameters without a name in the new first namespace, own names that already contain `$`'],
        tests=[
            _t('tiny_roundtrip', ['C03'], 'Every mapping set of the bound, rendered as Tiny v2 text in two different line orders, is read by tiny_v2::read into exactly the rendered entries (none lost, merged or re-parented), both trees are written to the same bytes, these bytes are the key-sorted rendering of the content, an independent parser reads them back to the same set, and write(read(write(M))) == write(M).',
               '2 namespaces: all 11^3=1331 sets over class keys {A, p/B, A$I}, each absent or one of 10 shapes (name present/absent; comment none/empty/one-line/multi-line; unicode names; 0..3 fields; 0..3 methods incl. same name/different descriptor; 0..3 parameters with/without source name); 3 namespaces: all 13^2=169 sets over {A, p/B} with 12 shapes (the 4 absent-name patterns on class, field, method+parameter); 4 namespaces: 17 sets over {A} (the 8 absent-name patterns, bare and with field+method+parameter); total 1517 sets, each rendered sorted and reversed (comments after members, methods before fields); plus all 341 comments of length <= 4 over {a, backslash, n, line break} on one class. Plus 84 sets whose names in the second namespace (class, field, method, parameter, and the source name of the parameter) are the 42 strings of length 1..2 over {space, no-break space, ideographic space, em space, a, e-acute}.', timeout=300),
            _t('merge_is_faithful_join', ['C09'], "Mappings::merge(A,B) is Ok exactly when the two sides do not conflict (different comments on one entry, different parameter source names, different first namespace) and then equals the model-level join: key union at every level, names [first, A's, B's] with absent where a side lacks the entry, comment of whichever side has one; both projections contain the inputs.",
               'all pairs (A over (s,a), B over (s,b)): wide universe 4^3=64 sets over keys {A, p/B, A$I} x shapes {named, unnamed+comment, named+commented field}; deep universe 241 sets with key A: class name present/absent x comment none/c/d x field (LA;,f) absent/named/unnamed+c/named+d x method ((Lp/B;)V,m) in 10 variants (absent, named, commented, parameter 0 with source name x / y / none / comment c / comment d, parameter 1, unnamed method); 64^2+241^2=62177 pairs, plus 241 pairs with different first-namespace names; 62418 cases.', timeout=300),
            _t('diff_then_apply', ['C04'], 'MappingsDiff::diff(A,B) is Ok exactly when every entry of A and B has a name in the second namespace, and then apply_to(A) yields exactly B, also when the diff travels through .tinydiff text (written by the harness, read by tiny_v2_diff::read).',
               "all ordered pairs over (s,a): wide universe 5^3=125 sets over keys {A, p/B, A$I} x shapes {named, renamed, unnamed, named+comment}; deep universe 117 sets with key A: class name X/X' x comment none/c/d x field (LA;,f) absent/named/renamed+c x method ((Lp/B;)V,m) absent/named/renamed+c/parameter 0 named/renamed+comment/with source name, plus 8 sets with an unnamed class/field/method/parameter; 125^2+117^2=29314 pairs. Excluded by the property: 13337 pairs with an unnamed entry (must be refused, checked). Excluded as deviation: 2286 pairs where B has a parameter source name that A lacks or spells differently.", timeout=300),
            _t('apply_is_exact_or_refused', ['C04'], 'Applying diff(A,B) to any third set C gives exactly the model-level result (additions appear, removals disappear with their subtree, edits replace, other entries/namespaces/comments identical) or is refused; refused iff a stated old name/comment does not match, an addition collides, or an edit/removal addresses a missing entry.',
               "A,B: the 27 fully named sets of the 39-set chain universe (key A; one level at a time - class, field (LA;,f), method ((Lp/B;)V,m), parameter 0 - ranges over absent / {named X, named X', unnamed} x {no comment, c, d}; plus two multi-level sets) = 729 diffs; C: the 39 chain sets over (s,a), the same 39 with an unrelated class p/B (comment, field, method, parameter) added, and the 39 sets over three namespaces (s,c,a) with the diff applied in the third namespace; 729*117=85293 triples.", timeout=300),
            _t('reorder_is_a_permutation', ['C08'], 'Mappings::reorder fails iff a class, field or method lacks a name in the new first namespace or two siblings would get the same key there (nothing is dropped silently); otherwise namespaces and every name row are permuted, keys and descriptors are re-expressed in the new first namespace, comments and parameter indices are untouched, reordering back gives the original and the identity changes nothing.',
               '2 namespaces (s,a), both permutations, all 9^3=729 sets over keys {A, p/B, A$I} x 8 shapes (named/unnamed/commented class; fields LA; and [Lp/B; named or not; method (LA;[[Lp/B;I)LA$I; with parameters with/without source name, named or not); 3 namespaces (s,a,b), all 6 permutations, all 12*12*5=720 sets over {A, p/B} x 11 shapes (4 absent-name patterns on the class, 3 on field LA;, 4 on method (Lp/B;)LA; with parameter) and A$I x 4 patterns; 729*2+720*6=5778 cases; plus colliding names: 7*7*3=147 sets (2 namespaces) and 10*10=100 sets (3 namespaces, all 6 permutations) in which classes, fields of one descriptor or methods of one descriptor share a literal name in a later namespace (controls: different descriptors). Excluded: parameters without a name in the new first namespace are not required to make it fail.', timeout=300),
            _t('extend_contract_inner_names', ['C11'], 'extend_inner_class_names rewrites, in the chosen namespace only, the name of every nested class to extended(outer)+$+own name recursively, fails iff an outer class (any depth) of a named class is missing or unnamed there, leaves everything else untouched; contract_inner_class_names keeps the part after the last $ of the last segment; contract(extend(M)) == M.',
               '2 namespaces, namespace a: all 4^4*5*3=3840 sets over keys A, A$I$K, p/B, p/B$M (absent/named/unnamed/named with comment+field+method+parameter), A$I (those plus the nested-looking name Q$J) and a$b/C ($ in the package; absent/named/named x$y/Z); 3 namespaces (s,a,b), namespace a and namespace b: all 4^4=256 sets over A, A$I, A$I$K, p/B$M x {both named, a absent, b absent}; 4352 cases. Extension oracle domain: no name in the chosen namespace is itself of the form Outer$Inner (768 cases excluded, contraction still checked on them).', timeout=300),
            _t('remapper_consistency', ['C06'], 'remapper_a maps every class name to its counterpart or leaves it unchanged and rewrites field/array/method/return descriptors and array class names exactly at the class names; remapper_b answers a field/method with the declaration of the owner, else of the first declaring super type in depth-first declaration order, else the unchanged name with remapped descriptor, for every (from,to) including from != first; X->Y->X is the identity on classes, descriptors and declared members named in both namespaces.',
               'all 5^4=625 sets over (s,a,b) with keys A,B,C,D, each absent / named bare / named with field (LA;,f) and method ((LA;)[LB;,m) / class unnamed in a / members unnamed in a (member names carry the declaring class) x 6 ordered namespace pairs x 4 inheritance relations (none, chain D<C<B<A, diamond D<[B,C]<A, D<[C,B] with C<A) = 15000 remappers; per remapper 32 member queries (owners A..D x {f spellings, m spellings, undeclared zz}), 480000 in total; per (set,from,to) 18 class names (every spelling of A..D in any column, Z, java/lang/Object) x 5 descriptor forms. Excluded as deviation: 229474 queries whose search passes through a class not named in both from and to (weaker check applied).', timeout=300),
            _t('remove_dummy_rules', ['C10'], 'Mappings::remove_dummy removes exactly the entries named by the documented rules (p_ parameter without comment; f_ field without comment; m_/<init>/<clinit> method without comment and without remaining parameter; C_ or net/minecraft/unmapped/C_ class without comment and without remaining member), judged only in the given namespace, leaves everything else identical and is idempotent.',
               '2 namespaces, namespace a: 961 sets with key A: class name C_1 / net/minecraft/unmapped/C_2 / p/C_3 / Real / absent x comment none/c x field absent/f_1/g/f_1+comment/xf_1/unnamed x 16 method variants (absent, m_1, <init>, <clinit>, run, xm_1, m_1+comment, m_1 with parameter p_1 / arg / p_1+comment / p_1 and xp_1, run with p_1, <init> with unnamed parameter, unnamed method with p_1, commented m_1 with p_1, commented run with p_1 and arg), alone and next to a second class B named C_9 with a field; 3 namespaces (s,a,b): the same 961 sets with placeholders in a and ordinary names in b, filtered by a and by b; 3844 cases. Mapping side only (the diff-side counterpart insert_dummy_and_contract_inner_names is not covered).', timeout=300),
            _t('diff_apply_keeps_parameter_source_names', ['C04'], 'apply_to(A, diff(A,B)) is B or a refusal also when A and B differ in a parameter source name (the .tinydiff format has no column for it)',
               'method ()V m of class A with parameter 0 absent / without source name / source name x / source name y on either side: 16 ordered pairs'),
            _t('unchanged_names_are_declarations_too', ['C06'], 'a member declared with the same name in both namespaces answers the query and hides a renamed declaration of a farther super type (nearest declaration in declaration order, depth first)',
               'classes A,B,C,D named in both of 2 namespaces, each declaring field (I,f) / method (()V,m) not at all / with unchanged name / renamed: 81 sets x 4 inheritance graphs x both directions x 4 owners x 6 spellings x field/method'),
            _t('super_class_search_passes_classes_outside_the_set', ['C06'], 'a field or method declared in a super type is found also when intermediate classes of the inheritance chain are missing from the mapping set',
               'chains C < B < A and D < C < B < A with exactly the intermediate classes missing; field f and method m of A; 4 queries'),
            dict(name='canary_must_fail', props=[], canary=True, text='must fail', bound=''),
        ]),
    'mpo': dict(
        crate='dukebox', file='dukebox/src/merge.rs', harness_file='mpo.rs',
        functions=['dukebox/src/merge.rs::merge_preserve_order'],
        tests=[
            _t('union_exactly_once', ['C13'], 'merge_preserve_order yields every element of either list exactly once and nothing else, and keeps the client order',
               'all pairs of duplicate-free lists of length <= 4 over 5 elements (206 x 206 pairs)'),
            _t('both_orders_preserved_when_compatible', ['C13'], 'when no shared pair is ordered oppositely, the server order is kept too',
               'all compatible pairs of duplicate-free lists of length <= 4 over 5 elements'),
            dict(name='canary_must_fail', props=[], canary=True, text='must fail', bound=''),
        ]),
}


# groups whose definition lives next to the harness: kx/enum/<name>_group.py defines GROUP (same shape as the entries above)
BROKEN_GROUPS = {}


def _load_group_files():
    import glob, importlib.util, os
    d = os.path.join(os.path.dirname(os.path.abspath(__file__)), 'enum')
    for f in sorted(glob.glob(os.path.join(d, '*_group.py'))):
        name = os.path.basename(f)[:-len('_group.py')]
        try:
            spec = importlib.util.spec_from_file_location('verif_group_' + name, f)
            m = importlib.util.module_from_spec(spec)
            spec.loader.exec_module(m)
            ENUM_GROUPS[name] = m.GROUP
        except Exception as e:   # a broken group file must not take the other groups down; a property that needs it reports UNDECIDED
            BROKEN_GROUPS[name] = repr(e)


_load_group_files()
