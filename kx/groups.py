"""Kani harness groups: where each harness module is appended, and what each harness claims."""


def _names_harnesses():
    hs = []
    for n in (2, 3, 4):
        hs += [
            dict(name=f'change_name_n{n}', props=['C04'], complete=True,
                 text=f'Names::<{n},u8>::change_name(ns, from, to): Err iff ns == 0 or self[ns] != from; on Ok only slot ns changes, it becomes `to`, the old value is returned; on Err nothing changes (all slots, all u8 values)'),
            dict(name=f'reorder_n{n}', props=['C08'], complete=True,
                 text=f'Names::<{n},u8>::reorder(table): result[i] == self[table[i]] for every i and every table'),
            dict(name=f'reorder_inverse_n{n}', props=['C08'], complete=True,
                 text=f'Names::<{n},u8>: reorder by any permutation p then by p^-1 returns the original row'),
            dict(name=f'reorder_identity_n{n}', props=['C08'], complete=True,
                 text=f'Names::<{n},u8>: the identity permutation changes nothing'),
            dict(name=f'first_name_n{n}', props=['C08'], complete=True,
                 text=f'Names::<{n},u8>::first_name(): Ok(x) iff slot 0 is Some(x) (re-keying fails when the new first namespace lacks a name)'),
        ]
    hs.append(dict(name='namespace_new_bounds', props=['C04', 'C08'], complete=True, text='Namespace::<N>::new(id) is Ok iff id < N (all usize)'))
    hs.append(dict(name='canary_names_must_fail', props=[], canary=True, text='must fail'))
    return hs


def _flags_harnesses():
    hs = []
    T = [('class_access', 'ClassAccess', 'JVMS Table 4.1-B'), ('field_access', 'FieldAccess', 'JVMS Table 4.5-A'), ('method_access', 'MethodAccess', 'JVMS Table 4.6-A'),
         ('inner_class_flags', 'InnerClassFlags', 'JVMS Table 4.7.6-A'), ('parameter_flags', 'ParameterFlags', 'JVMS 4.7.24'),
         ('module_flags', 'ModuleFlags', 'JVMS 4.7.25 module_flags'), ('module_requires_flags', 'ModuleRequiresFlags', 'JVMS 4.7.25 requires_flags'),
         ('module_exports_flags', 'ModuleExportsFlags', 'JVMS 4.7.25 exports_flags'), ('module_opens_flags', 'ModuleOpensFlags', 'JVMS 4.7.25 opens_flags')]
    for n, ty, ref in T:
        hs.append(dict(name=n + '_decode', props=['C01'], complete=True,
                       text=f'{ty}::from(u16): every boolean equals its bit of {ref} for all 65 536 values, and u16::from(..) gives back exactly the value masked to the table'))
        hs.append(dict(name=n + '_encode', props=['C02'], complete=True,
                       text=f'u16::from({ty}): the value written has exactly the bits of {ref} for the set booleans (all combinations), and decodes back to the same flags'))
    hs.append(dict(name='canary_flags_must_fail', props=[], canary=True, text='must fail'))
    return hs


GROUPS = {
    'flags': dict(
        crate='duke', file='duke/src/lib.rs', modpath='verif_kani_flags', harness_file='flags.rs',
        functions=['duke/src/tree/class.rs::From<u16> for ClassAccess / From<ClassAccess> for u16', 'duke/src/tree/class.rs::InnerClassFlags <-> u16',
                   'duke/src/tree/field.rs::FieldAccess <-> u16', 'duke/src/tree/method.rs::MethodAccess <-> u16', 'duke/src/tree/method.rs::ParameterFlags <-> u16',
                   'duke/src/tree/module.rs::ModuleFlags / ModuleRequiresFlags / ModuleExportsFlags / ModuleOpensFlags <-> u16'],
        trusted=['flag harnesses: loop-free, the whole u16 domain / all boolean combinations (complete); oracle = JVMS flag tables written in the harness'],
        harnesses=_flags_harnesses()),
    'names': dict(
        crate='quill', file='quill/src/tree/mod.rs', modpath='tree::verif_kani_names', harness_file='names.rs',
        functions=['quill/src/tree/mod.rs::names::Names::change_name', 'quill/src/tree/mod.rs::names::Names::reorder',
                   'quill/src/tree/mod.rs::names::Names::first_name', 'quill/src/tree/mod.rs::names::Namespace::new'],
        trusted=['Names<N,T> instantiated at T = u8 and N in {2,3,4}: loops are array::map / while i < N over the const generic N, unwinding assertions on (complete for these N; other N not covered)'],
        harnesses=_names_harnesses()),
    'diff': dict(
        crate='quill', file='quill/src/action/diff_mappings.rs', modpath='action::diff_mappings::verif_kani_diff', harness_file='diff.rs',
        functions=['quill/src/action/diff_mappings.rs::gen_diff_javadoc', 'quill/src/action/diff_mappings.rs::gen_diff_names',
                   'quill/src/action/apply_diff.rs::apply_diff_option (composition)', 'quill/src/tree/mod.rs::names::Names::change_name (composition)'],
        trusted=['diff harnesses: Javadoc = Name = u8 with harness-local node types (the functions are generic and only clone / compare); loop-free, all values (complete)'],
        harnesses=[
            dict(name='gen_diff_javadoc_table', props=['C04'], complete=True, text='gen_diff_javadoc: only in A -> Remove(old) / None; only in B -> Add(new) / None; both -> from_tuple(old, new) (all Option<u8> pairs)'),
            dict(name='apply_of_gen_diff_javadoc_is_b', props=['C04'], complete=True, text='apply_diff_option(gen_diff_javadoc(AB(a,b)), a) == Ok(b); an appearing entry gets its comment, a disappearing one loses it (all Option<u8> pairs)'),
            dict(name='gen_diff_names_table_and_apply', props=['C04'], complete=True, text='gen_diff_names: Remove / Add / Edit of the second-namespace name, Err when a name is absent; change_name driven by the Edit turns A\'s row into B\'s row'),
            dict(name='canary_diff_must_fail', props=[], canary=True, text='must fail'),
        ]),
    'merge': dict(
        crate='quill', file='quill/src/action/merge.rs', modpath='action::merge::verif_kani_merge', harness_file='merge.rs',
        functions=['quill/src/action/merge.rs::merge_names', 'quill/src/action/merge.rs::merge_equal', 'quill/src/action/merge.rs::merge_javadoc',
                   'quill/src/action/merge.rs::merge_javadoc_ab'],
        trusted=['merge_names instantiated at Name = &\'static JavaStr (Kani ICE "Sub-array binding" on non-Copy names) with names drawn from the menu {absent, "a", "b"}; '
                 'merge_equal / merge_javadoc at T = Javadoc = u8 with a harness-local node type'],
        harnesses=[
            dict(name='merge_equal_u8', props=['C09'], complete=True, text='merge_equal: A -> a; B -> b; AB -> Err iff a != b, else a (all u8 pairs)'),
            dict(name='merge_javadoc_u8', props=['C09'], complete=True, text='merge_javadoc: one-sided -> that comment; two-sided -> present iff either side has one; Err iff both present and different (all Option<u8> pairs)'),
            dict(name='merge_javadoc_ab_u8', props=['C09'], complete=True, text='merge_javadoc_ab: present iff either side has one; Err iff both present and different (all Option<u8> pairs)'),
            dict(name='merge_names_a_only', props=['C09'], complete=True, text='merge_names(A [a0,a1]) == [a0,a1,absent] for all rows over the name menu'),
            dict(name='merge_names_b_only', props=['C09'], complete=True, text='merge_names(B [b0,b1]) == [b0,absent,b1] for all rows over the name menu'),
            dict(name='merge_names_both', props=['C09'], complete=True, text='merge_names(AB): Err iff first names differ; else [a0,a1,b1], and projecting onto (s,a) / (s,b) gives back A\'s / B\'s row'),
            dict(name='canary_merge_must_fail', props=[], canary=True, text='must fail'),
        ]),
    'desc': dict(
        crate='duke', file='duke/src/tree/descriptor.rs', modpath='tree::descriptor::verif_kani_desc', harness_file='desc.rs',
        functions=['duke/src/tree/descriptor.rs::read_field_type', 'duke/src/tree/descriptor.rs::write_field_type', 'FieldDescriptorSlice::parse',
                   'ParsedFieldDescriptor::write', 'ReturnDescriptorSlice::parse', 'ParsedReturnDescriptor::write'],
        trusted=['descriptor harnesses: strings over the 9-letter alphabet {I J L ; [ / a V (} only; oracle = independent recogniser of JVMS 4.3.2 in the harness'],
        harnesses=[
            dict(name=f'field_desc_len{n}', props=['C18', 'C16'], complete=False, bound=f'all {9**n} strings of length {n} over {{I,J,L,;,[,/,a,V,(}}', timeout=900,
                 tier='quick' if n <= 3 else 'thorough',
                 text='FieldDescriptorSlice::parse accepts exactly the JVMS field-descriptor grammar; write(parse(s)) == s and never panics')
            for n in (1, 2, 3, 4)
        ] + [
            dict(name=f'return_desc_len{n}', props=['C18', 'C16'], complete=False, bound=f'all {9**n} strings of length {n} over {{I,J,L,;,[,/,a,V,(}}', timeout=900,
                 tier='quick' if n <= 2 else 'thorough',
                 text='ReturnDescriptorSlice::parse accepts exactly V | FieldType; write(parse(s)) == s and never panics')
            for n in (1, 2, 3)
        ] + [dict(name='canary_desc_must_fail', props=[], canary=True, text='must fail')]),
}


def _t(name, props, text, bound, **kw):
    return dict(name=name, props=props, text=text, bound=bound, **kw)


ENUM_GROUPS = {
    'desc': dict(
        crate='duke', file='duke/src/tree/descriptor.rs', harness_file='desc.rs',
        functions=['duke/src/tree/descriptor.rs::read_field_type', 'duke/src/tree/descriptor.rs::write_field_type', 'FieldDescriptorSlice::parse',
                   'ParsedFieldDescriptor::write', 'ReturnDescriptorSlice::parse', 'ParsedReturnDescriptor::write', 'MethodDescriptorSlice::parse',
                   'ParsedMethodDescriptor::write', 'MethodDescriptorSlice::get_arguments_size'],
        tests=[
            _t('field_desc_grammar', ['C18', 'C16'], 'FieldDescriptorSlice::parse accepts exactly the JVMS 4.3.2 grammar, write(parse(s)) == s, no panic, terminates',
               'all strings of length <= 5 over the 11 letters {I J L ; [ / a V . ( )} (177 156 strings)'),
            _t('return_desc_grammar', ['C18', 'C16'], 'ReturnDescriptorSlice::parse accepts exactly V | FieldType, write(parse(s)) == s, no panic, terminates',
               'all strings of length <= 5 over the same 11 letters'),
            _t('method_desc_grammar', ['C18', 'C16'], 'MethodDescriptorSlice::parse accepts exactly "(" FieldType* ")" ReturnDescriptor, write(parse(s)) == s, no panic, terminates',
               'all strings of length <= 6 over the 9 letters {( ) I J L ; [ a V} (597 871 strings)'),
            _t('arguments_size', ['C16', 'C18'], 'MethodDescriptorSlice::get_arguments_size never panics or loops; on well-formed descriptors it is 1 + slots (2 for long/double)',
               'all strings of length <= 6 over {( ) I J L ; [ a V}'),
            _t('dimension_boundary', ['C18'], '`[`^n X parses iff n <= 255 (field, parameter and return position) and prints back',
               'n in {0,1,2,127,128,253..257,300,511,512,600} x element type in {I, La;, J}'),
            _t('print_then_parse', ['C18'], 'parse(write(t)) == t for field, return and method descriptors',
               '8 primitives, 5 object names, arrays of dimension {1,2,3,254,255} over 9 element types'),
            dict(name='canary_must_fail', props=[], canary=True, text='must fail', bound=''),
        ]),
    'names': dict(
        crate='duke', file='duke/src/tree/mod.rs', harness_file='names.rs',
        functions=['duke/src/tree/mod.rs::names::is_valid_class_name', 'names::is_valid_arr_class_name', 'names::is_valid_obj_class_name',
                   'names::is_valid_unqualified_name', 'names::is_valid_method_name', 'duke/src/macros.rs make_string_str_like!::is_valid (5 instantiations)'],
        tests=[
            _t('name_predicates', ['C18'], 'the five validity predicates and the is_valid of FieldName/MethodName/ObjClassName/ArrClassName/ClassName accept exactly the documented strings',
               'all strings of length <= 5 over {. ; [ / < > $ a} (37 449 strings) plus 10 special names around <init>/<clinit>'),
            dict(name='canary_must_fail', props=[], canary=True, text='must fail', bound=''),
        ]),
    'inner': dict(
        crate='duke', file='duke/src/tree/class.rs', harness_file='inner.rs',
        functions=['ObjClassNameSlice::split_inner_class_parent_and_name', 'ObjClassNameSlice::get_inner_class_name', 'ObjClassNameSlice::get_inner_class_parent',
                   'ObjClassName::from_inner_class'],
        tests=[
            _t('split_matches_spec_and_join_is_inverse', ['C11', 'C18'], 'split == last-$ split refusing empty sides and package crossings; join(split(s)) == s',
               'all valid object class names of length <= 7 over {a b $ /}'),
            _t('join_then_split', ['C11', 'C18'], 'from_inner_class yields a valid name and split(join(p, n)) == (p, n) for simple n',
               'all pairs of valid object class names of length <= 3 over {a b $ /}'),
            dict(name='canary_must_fail', props=[], canary=True, text='must fail', bound=''),
        ]),
    'mapdesc': dict(
        crate='quill', file='quill/src/remapper.rs', harness_file='mapdesc.rs',
        functions=['quill/src/remapper.rs::map_desc', 'ARemapper::map_class'],
        tests=[
            _t('map_desc_rewrites_exactly_the_class_names', ['C06', 'C16'], 'map_desc replaces exactly the names inside L...; (every other byte kept, shape preserved), Err exactly for an unterminated L or L;, no panic',
               'all strings of length <= 6 over {L ; [ a b I (} (137 257 strings), two-entry remapper a->xy, b->a'),
            _t('map_class_identity_fallback', ['C06'], 'ARemapper::map_class: mapped name for mapped classes, the unchanged name otherwise',
               'all valid object class names of length <= 4 over {a b / $ x}'),
            dict(name='canary_must_fail', props=[], canary=True, text='must fail', bound=''),
        ]),
    'mpo': dict(
        crate='dukebox', file='dukebox/src/merge.rs', harness_file='mpo.rs',
        functions=['dukebox/src/merge.rs::merge_preserve_order'],
        tests=[
            _t('union_exactly_once', ['C13'], 'merge_preserve_order yields every element of either list exactly once and nothing else, and keeps the client order',
               'all pairs of duplicate-free lists of length <= 4 over 5 elements (206 x 206 pairs)'),
            _t('both_orders_preserved_when_compatible', ['C13'], 'when no shared pair is ordered oppositely, the server order is kept too',
               'all compatible pairs of duplicate-free lists of length <= 4 over 5 elements'),
            dict(name='canary_must_fail', props=[], canary=True, text='must fail', bound=''),
        ]),
}
