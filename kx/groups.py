"""Kani harness groups: where each harness module is appended, and what each harness claims."""


def _names_harnesses():
    hs = []
    for n in (2, 3, 4):
        hs += [
            dict(name=f'change_name_n{n}', props=['C04'], complete=True,
                 text=f'Names::<{n},u8>::change_name(ns, from, to): Err iff ns == 0 or self[ns] != from; on Ok only slot ns changes, it becomes `to`, the old value is returned; on Err nothing changes (all slots, all u8 values)'),
            dict(name=f'reorder_n{n}', props=['C08'], complete=True,
                 text=f'Names::<{n},u8>::reorder(table): result[i] == self[table[i]] for every i and every table'),
            dict(name=f'reorder_inverse_n{n}', props=['C08'], complete=True,
                 text=f'Names::<{n},u8>: reorder by any permutation p then by p^-1 returns the original row'),
            dict(name=f'reorder_identity_n{n}', props=['C08'], complete=True,
                 text=f'Names::<{n},u8>: the identity permutation changes nothing'),
            dict(name=f'first_name_n{n}', props=['C08'], complete=True,
                 text=f'Names::<{n},u8>::first_name(): Ok(x) iff slot 0 is Some(x) (re-keying fails when the new first namespace lacks a name)'),
        ]
    hs.append(dict(name='namespace_new_bounds', props=['C04', 'C08'], complete=True, text='Namespace::<N>::new(id) is Ok iff id < N (all usize)'))
    hs.append(dict(name='canary_names_must_fail', props=[], canary=True, text='must fail'))
    return hs


GROUPS = {
    'names': dict(
        crate='quill', file='quill/src/tree/mod.rs', modpath='tree::verif_kani_names', harness_file='names.rs',
        functions=['quill/src/tree/mod.rs::names::Names::change_name', 'quill/src/tree/mod.rs::names::Names::reorder',
                   'quill/src/tree/mod.rs::names::Names::first_name', 'quill/src/tree/mod.rs::names::Namespace::new'],
        trusted=['Names<N,T> instantiated at T = u8 and N in {2,3,4}: loops are array::map / while i < N over the const generic N, unwinding assertions on (complete for these N; other N not covered)'],
        harnesses=_names_harnesses()),
    'merge': dict(
        crate='quill', file='quill/src/action/merge.rs', modpath='action::merge::verif_kani_merge', harness_file='merge.rs',
        functions=['quill/src/action/merge.rs::merge_names', 'quill/src/action/merge.rs::merge_equal', 'quill/src/action/merge.rs::merge_javadoc',
                   'quill/src/action/merge.rs::merge_javadoc_ab'],
        trusted=['merge_names instantiated at Name = &\'static JavaStr (Kani ICE "Sub-array binding" on non-Copy names) with names drawn from the menu {absent, "a", "b"}; '
                 'merge_equal / merge_javadoc at T = Javadoc = u8 with a harness-local node type'],
        harnesses=[
            dict(name='merge_equal_u8', props=['C09'], complete=True, text='merge_equal: A -> a; B -> b; AB -> Err iff a != b, else a (all u8 pairs)'),
            dict(name='merge_javadoc_u8', props=['C09'], complete=True, text='merge_javadoc: one-sided -> that comment; two-sided -> present iff either side has one; Err iff both present and different (all Option<u8> pairs)'),
            dict(name='merge_javadoc_ab_u8', props=['C09'], complete=True, text='merge_javadoc_ab: present iff either side has one; Err iff both present and different (all Option<u8> pairs)'),
            dict(name='merge_names_a_only', props=['C09'], complete=True, text='merge_names(A [a0,a1]) == [a0,a1,absent] for all rows over the name menu'),
            dict(name='merge_names_b_only', props=['C09'], complete=True, text='merge_names(B [b0,b1]) == [b0,absent,b1] for all rows over the name menu'),
            dict(name='merge_names_both', props=['C09'], complete=True, text='merge_names(AB): Err iff first names differ; else [a0,a1,b1], and projecting onto (s,a) / (s,b) gives back A\'s / B\'s row'),
            dict(name='canary_merge_must_fail', props=[], canary=True, text='must fail'),
        ]),
}
