// demonstration for the C14 findings of the enumeration group `nest` (kx/enum/nest.rs), real public API of dukenest / dukebox / quill only.
// Use: copy to dukenest/tests/c14_nest_demo.rs in a scratch copy of /repo, then
//   CARGO_NET_OFFLINE=true cargo test --offline -p dukenest --test c14_nest_demo
// Every test states the property; on /repo HEAD 701ded4 the first five fail.  The last one is #[ignore]: it kills the test
// process (stack overflow, SIGABRT); run it alone with `-- --ignored cyclic`.
use duke::tree::class::{ClassAccess, ClassFile, ObjClassName};
use duke::tree::field::{Field, FieldAccess, FieldDescriptor, FieldName, FieldSignature};
use duke::tree::version::Version;
use dukebox::storage::{BasicFileAttributes, ClassRepr, JarEntryEnum, ParsedJar, ParsedJarEntry};
use dukenest::nest::Nests;
use java_string::JavaString;

fn js(s: &str) -> JavaString { JavaString::from(s.to_owned()) }
fn ocn(s: &str) -> ObjClassName { ObjClassName::try_from(js(s)).unwrap() }
fn class(name: &str) -> ClassFile {
	ClassFile::new(Version::V1_8, ClassAccess { is_public: true, is_super: true, ..ClassAccess::default() }, ocn(name), Some(ocn("java/lang/Object")), vec![])
}
fn jar(classes: Vec<ClassFile>) -> ParsedJar<ClassRepr, Vec<u8>> {
	let mut jar = ParsedJar { entries: indexmap::IndexMap::new() };
	for c in classes {
		jar.entries.insert(format!("{}.class", c.name), ParsedJarEntry { attr: BasicFileAttributes::default(), content: JarEntryEnum::Class(ClassRepr::Parsed { class: c }) });
	}
	jar
}
/// lines: class, enclosing class, enclosing method name, descriptor, inner name, access (the .nest format of Nests::read)
fn table(lines: &[&str]) -> Nests<()> { Nests::read(&lines.iter().map(|l| format!("{l}\n")).collect::<String>().into_bytes()).unwrap() }
fn entry_names(j: &ParsedJar<ClassRepr, Vec<u8>>) -> Vec<String> { let mut v: Vec<String> = j.entries.keys().cloned().collect(); v.sort(); v }

/// "creates enclosing classes that are missing": the created class is a class entry `p/M.class`.
/// HEAD (remap == true): nest_jar hands the bare class name to remap_jar_entry_name_java, which only knows names that end in
/// `.class`; the created class is stored under the entry name `p/M` (stderr: `remap jar entry name: unknown for "p/M"`).
#[test] fn created_enclosing_class_is_stored_as_a_class_entry() {
	let out = dukenest::nest_jar(true, &jar(vec![class("p/C1")]), table(&["p/C1\tp/M\t\t\tIn1\t0x0008"])).unwrap();
	assert_eq!(entry_names(&out), vec!["p/M$In1.class".to_owned(), "p/M.class".to_owned()]);
}
/// the result does not depend on the order of the rows of the table.  p/C2 is listed (in p/H) but missing from the jar, p/C3 (present) is nested in it.
/// HEAD: the presence filter inserts created enclosing classes into `classes_in_jar` while it runs, so a row for a missing class
/// is applied iff a row that names it as enclosing class comes earlier: p/C3 becomes p/C2$In3 or p/H$In2$In3.
#[test] fn result_does_not_depend_on_the_order_of_the_rows() {
	let rows = ["p/C2\tp/H\t\t\tIn2\t0x0008", "p/C3\tp/C2\t\t\tIn3\t0x0008"];
	let a = dukenest::nest_jar(true, &jar(vec![class("p/H"), class("p/C3")]), table(&[rows[0], rows[1]])).unwrap();
	let b = dukenest::nest_jar(true, &jar(vec![class("p/H"), class("p/C3")]), table(&[rows[1], rows[0]])).unwrap();
	assert_eq!(entry_names(&a), entry_names(&b));
}
/// "rewrites every reference to them": also inside generic signatures (the C07 finding `signatures are returned unchanged`, seen through nest_jar).
#[test] fn references_in_signatures_are_rewritten() {
	let mut user = class("p/U");
	let mut f = Field::new(FieldAccess::from(0x0001u16), FieldName::try_from(js("f")).unwrap(), FieldDescriptor::try_from(js("Lp/C1;")).unwrap());
	f.signature = Some(FieldSignature::try_from(js("Lp/C1<Lp/C1;>;")).unwrap());
	user.fields.push(f);
	let out = dukenest::nest_jar(true, &jar(vec![class("p/H"), class("p/C1"), user]), table(&["p/C1\tp/H\t\t\tIn1\t0x0008"])).unwrap();
	let JarEntryEnum::Class(ClassRepr::Parsed { class: u }) = &out.entries["p/U.class"].content else { panic!() };
	assert_eq!(u.fields[0].descriptor.as_inner().to_string(), "Lp/H$In1;");
	assert_eq!(u.fields[0].signature.as_ref().unwrap().as_inner().to_string(), "Lp/H$In1<Lp/H$In1;>;");
}
/// "anonymous: positive numeric inner name": 2147483648 is one.  HEAD: `parse::<i32>()` fails, the nest is silently not applied.
#[test] fn anonymous_index_above_i32_is_a_positive_number() {
	let out = dukenest::nest_jar(true, &jar(vec![class("p/H"), class("p/C1")]), table(&["p/C1\tp/H\t\t\t2147483648\t0x0000"])).unwrap();
	assert_eq!(entry_names(&out), vec!["p/H$2147483648.class".to_owned(), "p/H.class".to_owned()]);
}
/// "translating a table through mappings keeps every nest with ... inner name expressed in the target namespace": the custom
/// inner name `In` of class p/XIn stays `In`.  HEAD: `nest_class_name.ends_with(inner_name)` takes it for the derived name
/// (the simple name of the class) and replaces it with the simple name of the mapped class, `Y`.
#[test] fn custom_inner_name_that_is_a_suffix_of_the_class_name_is_kept() {
	let m = quill::tiny_v2::read::<2, ((), ())>("tiny\t2\t0\ta\tb\nc\tp/H\tt/TH\nc\tp/XIn\tt/Y\n".as_bytes()).unwrap();
	let out = dukenest::remap_nests(&table(&["p/XIn\tp/H\t\t\tIn\t0x0008"]), &m).unwrap();
	let n = out.all.values().next().unwrap();
	assert_eq!((n.class_name.to_string(), n.encl_class_name.to_string(), n.inner_name.to_string()), ("t/Y".to_owned(), "t/TH".to_owned(), "In".to_owned()));
}
/// outside the text of C14 (a cyclic table has no nested names): nest_jar (fn remap), apply_nests_to_mappings and
/// undo_nests_to_mappings (MyRemapper::new / build_translation) recurse without bound and the process dies with a stack
/// overflow instead of returning Err.  remap_nests returns.
#[test] #[ignore] fn cyclic_table_is_answered_with_ok_or_err() {
	let t = table(&["p/C1\tp/C2\t\t\tIn1\t0x0008", "p/C2\tp/C1\t\t\tIn2\t0x0008"]);
	let _ = dukenest::nest_jar(true, &jar(vec![class("p/C1"), class("p/C2")]), t);
}
