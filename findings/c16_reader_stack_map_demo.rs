// demonstration for the fixed C16 finding in the StackMapTable loop of duke's code reader
fn class_with_code_attr(code: &[u8], stack_map_table: &[u8]) -> Vec<u8> {
	let mut b: Vec<u8> = vec![0xCA, 0xFE, 0xBA, 0xBE, 0, 0, 0, 52];
	let utf8 = |s: &str| { let mut v = vec![1u8, 0, s.len() as u8]; v.extend_from_slice(s.as_bytes()); v };
	b.extend_from_slice(&[0, 7]);
	b.extend(utf8("A")); b.extend_from_slice(&[7, 0, 1]); b.extend(utf8("Code")); b.extend(utf8("m")); b.extend(utf8("()V")); b.extend(utf8("StackMapTable"));
	b.extend_from_slice(&[0, 0x21, 0, 2, 0, 0, 0, 0, 0, 0]);
	b.extend_from_slice(&[0, 1, 0, 9, 0, 4, 0, 5, 0, 1]);
	let smt_len = stack_map_table.len();
	let len = 2 + 2 + 4 + code.len() + 2 + 2 + 6 + smt_len;
	b.extend_from_slice(&[0, 3]);
	b.extend_from_slice(&(len as u32).to_be_bytes());
	b.extend_from_slice(&[0, 0, 0, 1]);
	b.extend_from_slice(&(code.len() as u32).to_be_bytes());
	b.extend_from_slice(code);
	b.extend_from_slice(&[0, 0, 0, 1]);          // no exception table, one attribute
	b.extend_from_slice(&[0, 6]);                // StackMapTable
	b.extend_from_slice(&(smt_len as u32).to_be_bytes());
	b.extend_from_slice(stack_map_table);
	b.extend_from_slice(&[0, 0]);
	b
}
fn read(code: &[u8], smt: &[u8]) -> std::thread::Result<bool> {
	let bytes = class_with_code_attr(code, smt);
	std::panic::catch_unwind(move || duke::read_class(&mut std::io::Cursor::new(&bytes)).is_ok())
}
#[test]
fn one_same_frame_is_read() { assert_eq!(read(&[0xb1], &[0, 1, 0]).ok(), Some(true)); }
#[test]
fn stack_map_offset_sum_past_65535_is_an_error_not_a_panic() {
	// frame 0: same_frame with offset_delta 0; frame 1: same_frame_extended with offset_delta 65535 -> 0 + 65535 + 1
	assert_eq!(read(&[0xb1], &[0, 2, 0, 251, 0xff, 0xff]).ok(), Some(false), "must be Err, not a panic");
}
