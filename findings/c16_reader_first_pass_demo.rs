// demonstration for the fixed findings of C16 in the first pass of duke's code reader
fn class_with_code(code: &[u8]) -> Vec<u8> {
	let mut b: Vec<u8> = vec![0xCA, 0xFE, 0xBA, 0xBE, 0, 0, 0, 52];
	let utf8 = |s: &str| { let mut v = vec![1u8, 0, s.len() as u8]; v.extend_from_slice(s.as_bytes()); v };
	b.extend_from_slice(&[0, 7]); // constant_pool_count
	b.extend(utf8("A"));                  // 1
	b.extend_from_slice(&[7, 0, 1]);      // 2 Class A
	b.extend(utf8("Code"));               // 3
	b.extend(utf8("m"));                  // 4
	b.extend(utf8("()V"));                // 5
	b.extend(utf8("java/lang/Object"));   // 6 (unused)
	b.extend_from_slice(&[0, 0x21, 0, 2, 0, 0, 0, 0, 0, 0]); // access, this, super=0, interfaces, fields
	b.extend_from_slice(&[0, 1, 0, 9, 0, 4, 0, 5, 0, 1]);    // 1 method: flags, name, desc, 1 attribute
	let len = 2 + 2 + 4 + code.len() + 2 + 2;
	b.extend_from_slice(&[0, 3]);
	b.extend_from_slice(&(len as u32).to_be_bytes());
	b.extend_from_slice(&[0, 0, 0, 0]);
	b.extend_from_slice(&(code.len() as u32).to_be_bytes());
	b.extend_from_slice(code);
	b.extend_from_slice(&[0, 0, 0, 0]);
	b.extend_from_slice(&[0, 0]); // class attributes
	b
}
fn read(code: &[u8]) -> std::thread::Result<bool> {
	let bytes = class_with_code(code);
	std::panic::catch_unwind(move || duke::read_class(&mut std::io::Cursor::new(&bytes)).is_ok())
}
#[test]
fn sane_code_is_read() { assert_eq!(read(&[0xb1]).ok(), Some(true)); }
#[test]
fn tableswitch_spanning_the_int_range_is_an_error_not_a_panic() {
	// tableswitch at 0: 3 padding bytes, default=0, low=i32::MIN, high=i32::MAX
	let mut code = vec![0xaa, 0, 0, 0, 0, 0, 0, 0];
	code.extend_from_slice(&i32::MIN.to_be_bytes());
	code.extend_from_slice(&i32::MAX.to_be_bytes());
	assert_eq!(read(&code).ok(), Some(false), "must be Err, not a panic");
}
#[test]
fn truncated_last_instruction_is_an_error_not_a_panic() {
	// sipush with only one operand byte left
	assert_eq!(read(&[0x11, 0x00]).ok(), Some(false), "must be Err, not a panic");
}
