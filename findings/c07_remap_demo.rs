// demonstration for the C07 findings in dukebox/src/remap.rs (real public API: dukebox::remap::remap_class, quill remapper_b from a Tiny v2 mapping A -> B)
use duke::tree::attribute::Attribute;
use duke::tree::class::{ClassAccess, ClassFile, ClassName, ClassSignature, ObjClassName};
use duke::tree::field::{Field, FieldAccess, FieldDescriptor, FieldName, FieldSignature};
use duke::tree::method::code::{Code, Handle, Instruction, InstructionListEntry, InvokeDynamic};
use duke::tree::method::{Method, MethodAccess, MethodDescriptor, MethodName, MethodRef, MethodSignature};
use duke::tree::record::{RecordComponent, RecordName};
use duke::tree::version::Version;
use java_string::JavaString;
use quill::tree::names::Namespace;

fn js(s: &str) -> JavaString { JavaString::from(s) }
fn attr() -> Attribute { Attribute { name: js("Custom"), bytes: vec![1, 2, 3] } }
struct NoSupers;
impl quill::remapper::SuperClassProvider for NoSupers {
	fn get_super_classes(&self, _class: &duke::tree::class::ObjClassNameSlice) -> anyhow::Result<Option<&indexmap::IndexSet<ObjClassName>>> { Ok(None) }
}
fn class() -> ClassFile {
	let mut c = ClassFile::new(Version::V17, ClassAccess::default(), ObjClassName::try_from(js("A")).unwrap(), Some(ObjClassName::try_from(js("java/lang/Object")).unwrap()), vec![]);
	c.signature = Some(ClassSignature::try_from(js("Ljava/util/List<LA;>;")).unwrap());
	c.module_main_class = Some(ClassName::try_from(js("A")).unwrap());
	c.record_components.push(RecordComponent::new(RecordName::try_from(js("x")).unwrap(), FieldDescriptor::try_from(js("LA;")).unwrap()));
	c.attributes.push(attr());
	let mut f = Field::new(FieldAccess::from(0u16), FieldName::try_from(js("f")).unwrap(), FieldDescriptor::try_from(js("LA;")).unwrap());
	f.signature = Some(FieldSignature::try_from(js("Ljava/util/List<LA;>;")).unwrap());
	f.attributes.push(attr());
	c.fields.push(f);
	let mut m = Method::new(MethodAccess::from(0u16), MethodName::try_from(js("m")).unwrap(), MethodDescriptor::try_from(js("()V")).unwrap());
	m.signature = Some(MethodSignature::try_from(js("()Ljava/util/List<LA;>;")).unwrap());
	m.attributes.push(attr());
	let mut code = Code::default();
	let bootstrap = Handle::InvokeStatic(MethodRef { class: ClassName::try_from(js("A")).unwrap(), name: MethodName::try_from(js("bsm")).unwrap(), desc: MethodDescriptor::try_from(js("()V")).unwrap() }, false);
	code.instructions.push(InstructionListEntry { label: None, frame: None, instruction: Instruction::InvokeDynamic(InvokeDynamic {
		name: MethodName::try_from(js("run")).unwrap(), descriptor: MethodDescriptor::try_from(js("(LA;)LA;")).unwrap(), handle: bootstrap, arguments: vec![] }) });
	code.instructions.push(InstructionListEntry { label: None, frame: None, instruction: Instruction::Return });
	code.attributes.push(attr());
	m.code = Some(code);
	c.methods.push(m);
	c
}
fn remapped() -> ClassFile {
	let mappings = quill::tiny_v2::read::<2, ()>("tiny\t2\t0\ts\ta\nc\tA\tB\n".as_bytes()).unwrap();
	let remapper = mappings.remapper_b(Namespace::<2>::new(0).unwrap(), Namespace::<2>::new(1).unwrap(), &NoSupers).unwrap();
	dukebox::remap::remap_class(&remapper, class()).unwrap()
}
#[test] fn class_itself_is_renamed() { assert_eq!(remapped().name.as_inner().to_string(), "B"); }
#[test] fn invokedynamic_descriptor_is_remapped() {
	let c = remapped();
	let Instruction::InvokeDynamic(indy) = &c.methods[0].code.as_ref().unwrap().instructions[0].instruction else { panic!() };
	assert_eq!(indy.descriptor.as_inner().to_string(), "(LB;)LB;", "the call site descriptor of invokedynamic still names the old class");
}
#[test] fn unknown_attributes_survive() {
	let c = remapped();
	assert_eq!(c.attributes.len(), 1, "unknown class attribute dropped");
	assert_eq!(c.fields[0].attributes.len(), 1, "unknown field attribute dropped");
	assert_eq!(c.methods[0].attributes.len(), 1, "unknown method attribute dropped");
	assert_eq!(c.methods[0].code.as_ref().unwrap().attributes.len(), 1, "unknown code attribute dropped");
}
#[test] fn record_components_survive() { assert_eq!(remapped().record_components.len(), 1, "record components dropped"); }
#[test] fn module_main_class_survives_and_is_remapped() { assert_eq!(remapped().module_main_class.map(|x| x.as_inner().to_string()), Some("B".to_string())); }
#[test] fn signatures_are_remapped() {
	let c = remapped();
	assert_eq!(c.signature.unwrap().as_inner().to_string(), "Ljava/util/List<LB;>;");
	assert_eq!(c.fields[0].signature.as_ref().unwrap().as_inner().to_string(), "Ljava/util/List<LB;>;");
	assert_eq!(c.methods[0].signature.as_ref().unwrap().as_inner().to_string(), "()Ljava/util/List<LB;>;");
}
