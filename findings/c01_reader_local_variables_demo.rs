// demonstration for the C01 finding in the delivering tail of duke's code reader: a LocalVariableTable is parsed and then dropped
fn class_with_lvt() -> Vec<u8> {
	let mut b: Vec<u8> = vec![0xCA, 0xFE, 0xBA, 0xBE, 0, 0, 0, 52];
	let utf8 = |s: &str| { let mut v = vec![1u8, 0, s.len() as u8]; v.extend_from_slice(s.as_bytes()); v };
	// pool: 1 "A", 2 Class(1), 3 "Code", 4 "m", 5 "()V", 6 "LocalVariableTable", 7 "x", 8 "I"
	b.extend_from_slice(&[0, 9]);
	b.extend(utf8("A")); b.extend_from_slice(&[7, 0, 1]); b.extend(utf8("Code")); b.extend(utf8("m")); b.extend(utf8("()V"));
	b.extend(utf8("LocalVariableTable")); b.extend(utf8("x")); b.extend(utf8("I"));
	b.extend_from_slice(&[0, 0x21, 0, 2, 0, 0, 0, 0, 0, 0]);       // access, this, super, interfaces, fields
	b.extend_from_slice(&[0, 1, 0, 9, 0, 4, 0, 5, 0, 1]);          // one method m()V with one attribute
	let code: [u8; 1] = [0xb1];                                    // return
	let lvt: [u8; 12] = [0, 1, /* start_pc */ 0, 0, /* length */ 0, 1, /* name x */ 0, 7, /* descriptor I */ 0, 8, /* index */ 0, 0];
	let len = 2 + 2 + 4 + code.len() + 2 + 2 + 6 + lvt.len();
	b.extend_from_slice(&[0, 3]);
	b.extend_from_slice(&(len as u32).to_be_bytes());
	b.extend_from_slice(&[0, 0, 0, 1]);
	b.extend_from_slice(&(code.len() as u32).to_be_bytes());
	b.extend_from_slice(&code);
	b.extend_from_slice(&[0, 0, 0, 1]);                            // no exception table, one attribute
	b.extend_from_slice(&[0, 6]);
	b.extend_from_slice(&(lvt.len() as u32).to_be_bytes());
	b.extend_from_slice(&lvt);
	b.extend_from_slice(&[0, 0]);
	b
}
#[test]
fn local_variable_table_reaches_the_class_description() {
	let class = duke::read_class(&mut std::io::Cursor::new(class_with_lvt())).expect("well-formed class file");
	let code = class.methods[0].code.as_ref().expect("method has code");
	let lvs = code.local_variables.as_ref().expect("the LocalVariableTable of the file must not be dropped");
	assert_eq!(lvs.len(), 1);
	assert_eq!(lvs[0].index.index, 0);
}
