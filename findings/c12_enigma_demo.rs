// demonstration for the C12 findings of the enumeration group `enigma` (kx/enum/enigma.rs), real public API of quill only.
// Use: copy to quill/tests/c12_enigma_demo.rs in a scratch copy of /repo, then
//   CARGO_NET_OFFLINE=true cargo test --offline -p quill --test c12_enigma_demo
// Every test states the property; on /repo HEAD 701ded4 all five fail.
use quill::tree::mappings::{JavadocMapping, Mappings};
use quill::tree::names::Namespaces;

fn from_tiny(body: &str) -> Mappings<2, ()> { quill::tiny_v2::read::<2, ()>(format!("tiny\t2\t0\ts\ta\n{body}").as_bytes()).unwrap() }
fn classes(m: &Mappings<2, ()>) -> Vec<(String, Option<String>)> {
	let mut v: Vec<_> = m.classes.iter().map(|(k, c)| {
		let names: &[Option<duke::tree::class::ObjClassName>; 2] = (&c.info.names).into();
		(k.to_string(), names[1].as_ref().map(|n| n.to_string()))
	}).collect();
	v.sort();
	v
}
fn through_stream(m: &Mappings<2, ()>) -> (String, Mappings<2, ()>) {
	let mut v = Vec::new();
	quill::enigma_file::write_all(m, &mut v).unwrap();
	let text = String::from_utf8(v).unwrap();
	let mut back = Mappings::<2, ()>::from_namespaces(["s", "a"]).unwrap();
	quill::enigma_file::read_into(text.as_bytes(), &mut back).unwrap();
	(text, back)
}
fn through_dir(m: &Mappings<2, ()>, tag: &str) -> (Vec<String>, Mappings<2, ()>) {
	let d = std::env::temp_dir().join(format!("c12_enigma_demo_{tag}_{}", std::process::id()));
	let _ = std::fs::remove_dir_all(&d);
	std::fs::create_dir_all(&d).unwrap();
	quill::enigma_dir::write(m, &d).unwrap();
	let mut files = Vec::new();
	fn walk(p: &std::path::Path, root: &std::path::Path, out: &mut Vec<String>) {
		for e in std::fs::read_dir(p).unwrap() { let e = e.unwrap(); if e.file_type().unwrap().is_dir() { walk(&e.path(), root, out) } else {
			out.push(format!("{} = {:?}", e.path().strip_prefix(root).unwrap().display(), std::fs::read_to_string(e.path()).unwrap())) } }
	}
	walk(&d, &d, &mut files);
	files.sort();
	let back = quill::enigma_dir::read::<()>(&d, Namespaces::try_from(["s".to_owned(), "a".to_owned()]).unwrap()).unwrap();
	let _ = std::fs::remove_dir_all(&d);
	(files, back)
}

/// an inner class whose outer class is absent from the set (the quantifier of C12 names this case) keeps its source key.
/// HEAD: write_class strips everything up to the last `$` also for a class that starts a file: the text is "CLASS M N",
/// which reads back as the top-level class `M` -> `N`.
#[test] fn orphan_inner_class_keeps_its_key__stream() {
	let m = from_tiny("c\tp/B$M\tq/r/Y$N\n");
	let (text, back) = through_stream(&m);
	assert_eq!(classes(&back), classes(&m), "written text: {text:?}");
}
#[test] fn orphan_inner_class_keeps_its_key__directory() {
	let m = from_tiny("c\tp/B$M\tq/r/Y$N\n");
	let (files, back) = through_dir(&m, "orphan");
	assert_eq!(classes(&back), classes(&m), "written files: {files:?}");
}
/// a tab inside a comment line survives.  HEAD: the reader splits COMMENT lines at every white space character and joins with ' '.
#[test] fn tab_in_comment_survives() {
	let mut m = from_tiny("c\tA\tX\n");
	m.classes.values_mut().next().unwrap().javadoc = Some(JavadocMapping("a\tb".to_owned()));
	let (text, back) = through_stream(&m);
	assert_eq!(back.classes.values().next().unwrap().javadoc.as_ref().map(|j| j.0.as_str()), Some("a\tb"), "written text: {text:?}");
}
/// two classes whose file names coincide (`A` has no target name, so its file is `A`; `p/B` is called `A`): both survive
/// (or the writer refuses).  HEAD: the second one silently replaces the first in figure_out_files (IndexMap::insert).
#[test] fn classes_sharing_a_file_name_are_not_dropped__stream() {
	let m = from_tiny("c\tA\t\nc\tp/B\tA\n");
	assert_eq!(m.classes.len(), 2);
	let mut v = Vec::new();
	if quill::enigma_file::write_all(&m, &mut v).is_err() { return; }   // a refusal would be a clean answer
	let text = String::from_utf8(v).unwrap();
	let mut back = Mappings::<2, ()>::from_namespaces(["s", "a"]).unwrap();
	quill::enigma_file::read_into(text.as_bytes(), &mut back).unwrap();
	assert_eq!(classes(&back), classes(&m), "written text: {text:?}");
}
#[test] fn classes_sharing_a_file_name_are_not_dropped__directory() {
	let m = from_tiny("c\tA\t\nc\tp/B\tA\n");
	let (files, back) = through_dir(&m, "shared");
	assert_eq!(classes(&back), classes(&m), "written files: {files:?}");
}
