// Demonstration for the C16 finding "reader Labels::max_id overflows": copy to duke/tests/ and run
//   cargo test --offline -p duke --test c16_label_id_overflow_demo
// A method with code_length 65535 and a label at every bytecode offset 0..=65535 (LineNumberTable entries for 0..65534, one LocalVariableTable range
// ending at 65535): the 65536th label makes `self.max_id += 1` (u16) overflow.  Debug builds panic ("attempt to add with overflow"); C16 demands Ok or Err.
use std::io::Cursor;

fn u2(v: &mut Vec<u8>, x: u16) { v.extend_from_slice(&x.to_be_bytes()); }
fn u4(v: &mut Vec<u8>, x: u32) { v.extend_from_slice(&x.to_be_bytes()); }
fn utf8(v: &mut Vec<u8>, s: &str) { v.push(1); u2(v, s.len() as u16); v.extend_from_slice(s.as_bytes()); }

pub fn class_with_a_label_at_every_offset() -> Vec<u8> {
	let mut v = vec![0xCA, 0xFE, 0xBA, 0xBE, 0, 0, 0, 52];
	// pool: 1 Utf8 A, 2 Class #1, 3 Utf8 java/lang/Object, 4 Class #3, 5 Utf8 m, 6 Utf8 ()V, 7 Utf8 Code, 8 Utf8 LineNumberTable, 9 Utf8 LocalVariableTable, 10 Utf8 x, 11 Utf8 I
	u2(&mut v, 12);
	utf8(&mut v, "A"); v.push(7); u2(&mut v, 1); utf8(&mut v, "java/lang/Object"); v.push(7); u2(&mut v, 3);
	for s in ["m", "()V", "Code", "LineNumberTable", "LocalVariableTable", "x", "I"] { utf8(&mut v, s); }
	u2(&mut v, 0x0021); u2(&mut v, 2); u2(&mut v, 4); u2(&mut v, 0); u2(&mut v, 0);
	u2(&mut v, 1); // one method
	u2(&mut v, 0x0009); u2(&mut v, 5); u2(&mut v, 6); u2(&mut v, 1);
	// Code
	let code_length: u32 = 65535;
	let mut lnt = vec![]; u2(&mut lnt, 65535); for pc in 0..65535u32 { u2(&mut lnt, pc as u16); u2(&mut lnt, 1); }
	let mut lvt = vec![]; u2(&mut lvt, 1); u2(&mut lvt, 0); u2(&mut lvt, 65535); u2(&mut lvt, 10); u2(&mut lvt, 11); u2(&mut lvt, 0);
	let mut code = vec![]; u2(&mut code, 1); u2(&mut code, 1); u4(&mut code, code_length);
	code.extend(std::iter::repeat(0u8).take(65534)); code.push(0xb1); // nop ... return
	u2(&mut code, 0); // exception table
	u2(&mut code, 2);
	u2(&mut code, 8); u4(&mut code, lnt.len() as u32); code.extend_from_slice(&lnt);
	u2(&mut code, 9); u4(&mut code, lvt.len() as u32); code.extend_from_slice(&lvt);
	u2(&mut v, 7); u4(&mut v, code.len() as u32); v.extend_from_slice(&code);
	u2(&mut v, 0); // class attributes
	v
}

#[test]
fn a_label_at_every_offset_is_read_or_refused_without_a_panic() {
	let bytes = class_with_a_label_at_every_offset();
	let r = std::panic::catch_unwind(|| duke::read_class(&mut Cursor::new(&bytes)).map(|_| ()));
	assert!(r.is_ok(), "read_class panicked");
}
