"""property -> units / harness groups"""

PROPERTIES = {
    'C01': dict(level='proof', verus=['rlabels', 'rbranch'], kani=[], out=[]),
    'C02': dict(level='proof', verus=['cwrite', 'wjump'], kani=[], out=[]),
    'C17': dict(level='proof', verus=['rskip'], kani=[], out=[]),
    'C16': dict(level='proof', verus=['rlabels', 'cwrite', 'wjump', 'rskip', 'rbranch'], kani=[], out=[]),
}
