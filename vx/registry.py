"""property -> units / harness groups"""

PROPERTIES = {
    'C01': dict(level='proof', verus=['rlabels'], kani=[], out=[]),
    'C16': dict(level='proof', verus=['rlabels'], kani=[], out=[]),
}
