"""property -> units / harness groups, claim texts, not-applicable list"""

KANI_COMPLETE = 'Kani/CBMC function-level harnesses on the real crate, loop-free or unwound to a type-level constant, full-domain symbolic inputs'
ENUM_TECH = 'bounded exhaustive enumeration of the real function against an independent oracle (stand-in: no installed deductive verifier reaches this string code)'
VERUS_TECH = 'contract-based deductive verification (Verus/Z3) of functions extracted mechanically from /repo'

PROPERTIES = {
    'C01': dict(
        level='proof', verus=['rlabels', 'rbranch', 'rscan', 'rpool', 'rdecode', 'rframes', 'rattrs', 'rtables', 'raccept', 'rtree', 'rarms', 'rtypes', 'rpoolres', 'rannot', 'abuild'], kani=['flags'], enum=['cls', 'indy', 'corpus'],
        technique=VERUS_TECH,
        claim='Unbounded proof, for the functions under contract only: the reader offset->Label table (bounds checks, exact lookup, frame, injectivity invariant), '
              'branch-target arithmetic and switch padding, the primitive big-endian readers, the header check (magic, every major version up to 67 whatever the minor), the constant-pool layout (JVMS 4.4, two slots for long/double), '
              'both passes of read_code lifted as regions (every opcode form advances by its JVMS length and decodes to the instruction the JVMS table assigns, operands and branch targets resolved through the label table), '
              'the StackMapTable loop (every frame attached to its JVMS offset), the exception table entry, LineNumberTable and LocalVariable(Type)Table loops (accepted iff offsets are in range per JVMS 4.7.3/12/13/14, every entry '
              'attached to the labels of exactly its offsets), the delivering tail of read_code (every parsed table reaches the visitor: ghost event log), and all nine access-flag decoders (Kani, complete over u16). '
              'Partial: annotation / module / record content parsers, the tree-building visitor and the bootstrap-method indirection are not under contract; callee contracts of the pool accessors are assumed in the region units.',
        note='Trusted: Verus+Z3; extraction rewrites (error text dropped) and region lifting; assumed trait-level contracts describing std::io::Cursor; from_be_bytes stubs; '
             'external_body Labels::get_or_add_unchecked (HashMap::entry is outside Verus); fewer than 65535 labels; assumed ghost-log contracts on the visitor traits; opaque tree payload types.',
        out=['duke/src/class_reader.rs read_annotations_attribute / read_element_value* / read_type_annotations_* / read_module / read_record_component content', 'duke/src/class_reader/pool.rs get_loadable recursion through bootstrap methods',
             'duke/src/visitor/implementations/tree.rs (tree-building visitor)']),
    'C02': dict(
        level='proof', verus=['cwrite', 'wjump', 'wpool', 'wencode', 'wattrs', 'wtypes', 'wannot', 'wput', 'wfrom', 'warms'], kani=['flags'], enum=['cls', 'indy', 'corpus'],
        technique=VERUS_TECH,
        claim='Unbounded proof, for the functions under contract only: every jump emitted by if_helper/goto_helper/switch_helper has exactly the narrow / wide / inverted-if+goto_w byte shape with the offset that lands on the label, '
              'the narrow form is chosen iff the offset fits i16, unresolved jumps reserve a slot whose recorded patch position and base are exact, put_i16_at/put_i32_at patch big-endian and touch nothing else, '
              'alignment pads with <4 zero bytes, checked usize->uN length writers; every attribute is emitted as name index, exact attribute_length and that many bytes, attributes_count equals the attributes written (wattrs); '
              'every attribute block emits exactly the facts of its kind the tree holds (emitted-iff clauses of wattrs); the bodies of InnerClasses, NestMembers, PermittedSubclasses, ModulePackages, Exceptions, MethodParameters, LineNumberTable, LocalVariableTable, LocalVariableTypeTable, BootstrapMethods and the exception table of Code carry a count of the JVMS width equal to the number of entries, '
              'entries in JVMS layout, every reference through the index the pool hands out for that operand (warms); annotations, type annotation targets and paths are the JVMS encoding of the tree (wannot, wtypes); '
              'PoolWrite::put de-duplicates and accounts slots, from_* build the entry kinds JVMS 4.4 prescribes (wput, wfrom, wpool). '
              'Partial: the retry loop of write_code, Record / Module bodies and the StackMapTable (dropped: known finding) are not under contract.',
        note='Trusted: Verus+Z3; extraction rewrites; Vec<u8> sink model (write_all appends, never fails); to_be_bytes stubs; obeys_key_model::<Label>(); ordered LabelRange precondition.',
        out=['write_code retry loop as a whole (fixpoint of the label table)', 'duke/src/simple_class_writer/pool.rs PoolEntry::from_* converters and put_bootstrap_method', 'write_module, write_type_reference_code (closures)']),
    'C04': dict(
        level='proof', verus=['adiff'], kani=['names', 'diff'], enum=['maps'],
        technique=VERUS_TECH,
        claim='Unbounded proof, for the functions under contract only: apply_diff_option equals the spec table of the property (None keeps, Add only onto absent, Remove/Edit only when the stated old value matches, every other combination refused), '
              'Action::{from_tuple,to_tuple,flip,is_diff} equal their algebraic specs, and the lemmas from_tuple/to_tuple isomorphism, flip involution and apply(diff(a,b),a)=b hold for all values of all types. '
              'Partial: the map level (apply_diff_map / zip over IndexMap) and the text form are not under contract.',
        note='Trusted: Verus+Z3; extraction rewrites (Debug bound removed, error text dropped); T::obeys_eq_spec() (PartialEq::eq agrees with its spec) and cloned(b,x) as the meaning of Clone.',
        out=['quill/src/action/apply_diff.rs apply_diff_map and callers (IndexMap)', 'quill/src/action/diff_mappings.rs', 'quill/src/tiny_v2_diff.rs']),
    'C08': dict(
        level='proof', verus=[], kani=['names'], enum=['maps'],
        technique=KANI_COMPLETE,
        claim='Complete (not bounded) Kani proofs on the real quill crate for N in {2,3,4} namespaces and all u8 name values: Names::reorder(table)[i] == self[table[i]] for every table; '
              'reorder by any permutation followed by its inverse is the identity; the identity permutation changes nothing; first_name fails exactly when the first namespace has no name. '
              'Partial: building the table from namespace strings, descriptor re-keying and IndexMap re-insertion are not under contract.',
        note='Trusted: Kani 0.68/CBMC; anyhow shim; instantiation T = u8, N in {2,3,4} (loops run over the const generic N with unwinding assertions); other N not covered.',
        out=['quill/src/action/reorder.rs (table construction, remapper, map_with_key_from_result_iter over IndexMap)']),
    'C19': dict(
        level='proof', verus=['scope'], kani=[], enum=['maven'],
        explanation='Bounded part (never counted as proved): effective-POM construction, nearest-wins mediation, repository order and coordinate parsing / printing on 750 304 generated cases driven through in-memory POM repositories (kx/enum/maven_group.py lists the universes).',
        technique=VERUS_TECH,
        claim='Unbounded (finite, exhaustive) proof that the nested function the_scope_table equals the scope table of the Maven documentation on every documented cell and cuts provided/test/system dependencies. '
              'Partial: this is the only function of the resolver within reach of the verifier; effective-POM construction, nearest-wins mediation (async recursion, HashSet/VecDeque of Strings) and coordinate printing are covered by the bounded enumeration only.',
        note='Trusted: Verus+Z3; extraction rewrites (serde/default attributes stripped from the enum). The argument order at the call site is not checked.',
        out=['maven_dependency_resolver/src/maven_pom_done.rs', 'clean_up_dependencies / Forest::breadth_first_retain', 'coord.rs printing/parsing', 'call site of the_scope_table in get_dependencies_tree (async)']),
    'C20': dict(
        level='proof', verus=['c20len', 'c20ser', 'c20rd'], kani=[], enum=['rawcls'],
        technique=VERUS_TECH + ' (on the rustc macro expansion of raw_class_file)',
        explanation='Bounded part (never counted as proved): ClassFile::read / write / to_bytes / length on 436 000 generated class files and raw values (pools with and without Long / Double, every attribute kind the crate models, '
                    'stack map frames, annotations, modules and records, counts at their bounds, raw values that are no well-formed files, the 4 class files of the repository), each compared byte for byte and value for value with an independent '
                    'builder written from the JVMS (kx/enum/rawcls_group.py lists the universes).',
        claim='Unbounded proof, per flat attribute variant of the macro-generated AttributeInfo::_write (ConstantValue, Exceptions, EnclosingMethod, Synthetic, Signature, SourceFile, SourceDebugExtension, Deprecated, '
              'ModulePackages, ModuleMainClass, NestHost, NestMembers, PermittedSubclasses, Other): the bytes appended are a well-formed attribute_info whose attribute_length equals the number of bytes that follow, '
              'whose total size is the one JVMS 4.7.x prescribes, and which starts with the name index; everything written before is untouched. '
              'Partial: recursive variants (Code, annotations, Record, Module, StackMapTable, MethodParameters ...), _len/_read and the read side are not under contract.',
        note='Trusted: Verus+Z3; rustc -Zunpretty=expanded as the source of the verified text; arm lifting; sink model vw_write (Vec<u8> write_all appends big-endian bytes, never fails); vectors fit their count field.',
        out=['recursive attribute variants using this._len() -- bounded only', 'ClassFile::read / write as a whole, CpInfo, FieldInfo, MethodInfo writers -- bounded only', 'pools with Long / Double entries: known finding (two-slot rule ignored)']),
    'C07': dict(
        level='proof', verus=['remap', 'remapapi'], kani=[], enum=['remapjar'],
        technique=VERUS_TECH,
        explanation='Bounded part (never counted as proved): dukebox::remap::remap on 22 000 generated jars x remappers (class / member tables none, halves, all; five input forms: parsed bytes / trees / mixed, deflated and stored zip; '
                    'all 120 entry orders; non-class entries; unparsed entries; multi-release entries), observed on the returned jar, on the written archive and on the archive re-opened through dukebox (kx/enum/remapjar_group.py lists the universes).',
        claim='Unbounded proof, for the functions under contract only: every `impl Mappable / MappableWithClassName for X` of dukebox/src/remap.rs returns a value in which every field / enum payload whose type carries '
              'class, field or method references holds the remapped value of the input\'s field (the remapper\'s own answer at the leaves), and every other field is unchanged (nothing dropped). '
              'Partial: that Option<T> / Vec<T> map element-wise is assumed; the remapper itself (C06) is not under contract here; the jar level (entry names, non-class entries, re-opening) is covered by the bounded enumeration only.',
        note='Trusted: Verus+Z3; extraction rewrites (trait impls emitted as inherent impls, component calls resolved to a blanket stub with the contract == sp_remap); the reference-carrying type table written from the property statement; opaque name types.',
        out=['dukebox/src/remap.rs remap / remap_jar_entry_name (jar level, zip I/O) -- bounded only', 'remappers that send two class entries to one name (the statement has no model for them)', 'blanket impls for Option<T> / Vec<T> / &T (closures, iterator adapters)', 'impl Mappable for InnerClass (closure + transpose)']),
    'C15': dict(
        level='proof', verus=['bridge'], kani=[], enum=['bridge'],
        technique=VERUS_TECH,
        explanation='Bounded part (never counted as proved): the whole pass add_specialized_methods_to_mappings on 70 782 generated jar / mapping-set cases (kx/enum/bridge_group.py lists the universes).',
        claim='Unbounded proof, for the one function under contract: is_potential_bridge answers exactly "inheritable (not private, static or final), same arity, position-wise bridge-compatible parameter and return types" '
              'for all descriptors and flag combinations. Everything else of the pass (call-target index built by the visitor, are_types_bridge_compatible over the inheritance graph, name lookup through inheritance, mapping insertion) '
              'is covered by the bounded enumeration of the whole pass only.',
        note='Trusted: Verus+Z3; nested fn cut out of get_specialized_methods; MethodDescriptor::parse and are_types_bridge_compatible are opaque functions of their arguments; opaque tree types. '
             'Bounded stand-in for the whole pass: native enumeration against a model-level oracle written from the property statement (kx/enum/bridge.rs, own class file generator), see kx/enum/bridge_REPORT.md.',
        out=['get_higher_method tie-break (does not influence the produced mappings)', 'array types, invokedynamic, parameter / return classes outside the main jar, more than two parameters (outside the enumerated universes)']),
    'C09': dict(
        level='proof', verus=[], kani=['merge'], enum=['maps'],
        technique=KANI_COMPLETE,
        claim='Complete (loop-free, full-domain) Kani proofs on the real quill crate: merge_names places A\'s name in column a and B\'s in column b, absent where the side lacks the entry, refuses differing first names, and projects back to both inputs; '
              'merge_equal and merge_javadoc(_ab) are equality-or-error / present-iff-either. Partial: the key-union zip over IndexMap (zip_map_combination) and merge_namespaces are not under contract.',
        note='Trusted: Kani 0.68/CBMC; anyhow shim; merge_names instantiated at &JavaStr names from a 3-entry menu (the function only clones, compares and tests emptiness); Javadoc/T = u8.',
        out=['quill/src/action/diff_mappings.rs zip_map_combination (IndexMap)', 'merge_namespaces', 'Mappings::merge traversal']),
    'C03': dict(
        level='other', verus=['tinyesc'], kani=[], enum=['maps'],
        technique=ENUM_TECH + '; the comment escaping (escape / unescape) additionally by ' + VERUS_TECH,
        explanation='The property as a whole is only covered by the bounded stand-in; the escaping of comments -- the only free text of the format -- is proved unboundedly. Bounded stand-in for the Tiny v2 reader/writer: all 1517 mapping sets of the stated universe (2-4 namespaces, missing names, inner class names, unicode names, empty/one-line/multi-line comments, parameters without source names), each rendered in two line orders.',
        claim='Bounded (not proved): reading the text of a mapping set yields exactly the rendered entries (none lost, merged or re-parented), writing is independent of insertion order and sorted, an independent parser reads the written text back to the same set, write(read(write(M))) == write(M). '
              'Unbounded proof for escape / unescape only, for all strings: escape(s) is the escaping the format names (line break -> \\n, backslash -> \\\\), holds no line break, and unescape gives s back; unescape is the left-to-right decoder; '
              'lemma unesc(esc(s)) == s for every s. '
              'Not covered: sets only constructible through pub fields (top-level javadoc), inputs beyond the bound.',
        note='Bounded stand-in, NOT a proof: the operation works on IndexMap<JavaString,..> trees through nested closures and text I/O (outside Verus; CBMC gave no verdict in 10 min on one IndexMap insertion chain), so the real code is run natively on every mapping set of a stated small universe and compared with a model-level oracle written from the property statement (kx/enum/maps.rs: own model, own Tiny v2 renderer/parser). Inputs beyond the bound are not covered. '
             'Trusted for the proved part: Verus+Z3; String / str / Chars modelled as a vector of chars, str::replace(char, &str) by a verified mirror, string literals and `while let` rewritten by rule (unit docstring).',
        out=['quill/src/lines.rs WithMoreIdentIter on malformed indentation', 'inputs beyond the bound']),
    'C10': dict(
        level='other', verus=[], kani=[], enum=['maps', 'dummydiff'],
        technique=ENUM_TECH,
        explanation='Bounded stand-in for MappingsDiff::insert_dummy_and_contract_inner_names: 173 881 diffs (methods x parameters, fields x classes with inner names in keys and names, several members and classes), each built through the public fields and through .tinydiff text (group dummydiff). '
                    'Bounded stand-in for Mappings::remove_dummy: 3844 mapping sets mixing placeholder names (C_, net/minecraft/unmapped/C_, f_, m_, p_, <init>, <clinit>) and real names, with and without comments, at every nesting depth.',
        claim='Bounded (not proved), mapping side only: remove_dummy deletes exactly the entries the documented rules name and returns every other entry unchanged, is idempotent, never removes an entry that still has a retained child. '
              'Diff side (bounded, not proved): insert_dummy_and_contract_inner_names turns every removal into an edit to the placeholder (source name, p_<index>, simple inner name), discards added fields and parameters and added methods / classes left without children, '
              'drops exactly the nodes that change nothing and have no remaining child, returns everything else unchanged, is idempotent.',
        note='Bounded stand-in, NOT a proof: the operation works on IndexMap<JavaString,..> trees through nested closures and text I/O (outside Verus; CBMC gave no verdict in 10 min on one IndexMap insertion chain), so the real code is run natively on every mapping set of a stated small universe and compared with a model-level oracle written from the property statement (kx/enum/maps.rs: own model, own Tiny v2 renderer/parser). Inputs beyond the bound are not covered.',
        out=['inputs beyond the stated universes', 'class keys with an empty side of $ (group inner)', 'relative order of kept diff entries']),
    'C05': dict(
        level='other', verus=[], kani=[], enum=['vgraph'],
        technique=ENUM_TECH,
        explanation='Bounded stand-in for the version graph (src/version_graph.rs): every case writes a fresh mappings directory (one root .tiny, parent#child .tinydiff files), runs the real VersionGraph::resolve / versions / children / get / apply_diffs and compares with the model-level answer (root + the diffs along the path, inner names extended); chains, trees, diamonds, split a~b names, all file-creation orders of the bound, malformed directories (kx/enum/vgraph_group.py lists the universes).',
        claim='Bounded (not proved): the mappings reported for a version are the root with exactly the diffs along its path applied in order and inner names extended, independent of directory listing order; split versions are reachable under either half; malformed directories are refused. '
              'Not covered: directories whose diffs into one version disagree (any one path is accepted there), inputs beyond the bound.',
        note='Bounded stand-in, NOT a proof: the function is file-system scan + petgraph A* inside the binary crate, outside both verifiers; the real code is run natively on every directory of a stated small universe and compared with a model-level oracle written from the property statement (kx/enum/vgraph.rs).',
        out=['directories with disagreeing diffs into one version (ambiguous paths)', 'inputs beyond the bound']),
    'C12': dict(
        level='other', verus=[], kani=[], enum=['enigma'],
        technique=ENUM_TECH,
        explanation='Bounded stand-in for the Enigma reader / writer (quill::enigma_file, quill::enigma_dir): whole two-namespace mapping sets of a stated universe written as one stream and as a directory tree and read back, an independent rendering read by the real reader, comments over a small alphabet, garbage lines (kx/enum/enigma_group.py lists the universes).',
        claim='Bounded (not proved): write-then-read yields the same classes under the same keys with the same names, members, parameters and comments; the written text is sorted and nested like the source names; the directory form puts every class into exactly one file; no panic on garbage lines. '
              'Known findings (see known_findings.jsonl): inner classes whose outer class is absent lose their key; a tab inside a comment becomes a space; two top-level classes that share a file name.',
        note='Bounded stand-in, NOT a proof: text I/O through BufRead / fmt and directory I/O (walkdir) are outside both verifiers; the real code is run natively on every mapping set of a stated small universe and compared with a model-level oracle written from the property statement (kx/enum/enigma.rs).',
        out=['inputs beyond the bound']),
    'C14': dict(
        level='other', verus=[], kani=[], enum=['nest', 'nestio'],
        technique=ENUM_TECH,
        explanation='Bounded stand-in for dukenest (nest_jar, apply_nests_to_mappings, undo_nests_to_mappings, remap_nests): all nests tables of a stated universe over generated jars and mapping sets, with the renaming applied at model level as the oracle (kx/enum/nest_group.py lists the universes).',
        claim='Bounded (not proved): nesting renames exactly the listed classes that are present and satisfy the rule of their kind, transitively, rewrites references, records InnerClasses / EnclosingMethod entries and creates missing enclosing classes; applying / undoing a table on mappings is consistent with the jar; translating a table keeps every nest. '
              'Known findings (see known_findings.jsonl): the result depends on the order of the rows when a listed class is missing but named as enclosing class; class names inside Signature attributes are not rewritten (the C07 finding seen through nest_jar); an anonymous index above i32::MAX is not applied; a custom inner name that is a suffix of the class name is taken for a derived one.',
        note='Bounded stand-in, NOT a proof: string surgery on JavaString + IndexMap recursion + jar I/O are outside both verifiers; the real code is run natively on a stated small universe and compared with a model-level oracle written from the property statement (kx/enum/nest.rs).',
        out=['cyclic nests tables (stack overflow; outside the text of C14)', 'inputs beyond the bound']),
    'C06': dict(
        level='other', verus=['remapapi'], kani=[], enum=['mapdesc', 'maps'],
        technique=ENUM_TECH,
        explanation='Bounded stand-in for map_desc / map_class: all 137 257 strings of length <= 6 over {L ; [ a b I (} and all valid class names <= 4 over {a b / $ x}, compared with an independent scanner.',
        claim='Bounded (not proved): map_desc replaces exactly the class names inside L...; and keeps every other byte (shape preserved), fails exactly on an unterminated L or on L;, never panics; map_class returns the mapped name or the unchanged name. '
              'Not covered: member tables (remapper_b), super-class search, X->Y->X identity (IndexMap/IndexSet of JavaString: outside both verifiers).',
        note='Bounded stand-in, NOT a proof: Kani needs >300 s and >14 GB for one descriptor of length 1 (measured) and Verus has no str/Chars support, so the real functions are run natively on every input up to the stated bound and compared with an independent oracle; inputs beyond the bound are not covered. Real anyhow, scratch copy of the crate.',
        out=['quill/src/remapper.rs remapper_b / BRemapperImpl::map_field_fail / map_method_fail (IndexMap, recursion over super classes)', 'X->Y->X identity']),
    'C11': dict(
        level='other', verus=['inner'], kani=[], enum=['inner', 'maps'],
        technique=ENUM_TECH + '; the two split / join helpers additionally by ' + VERUS_TECH,
        explanation='The property as a whole (extension / contraction over a mapping set) is only covered by the bounded stand-in; the two helper functions are proved unboundedly. Bounded part: all valid object class names of length <= 7 over {a b $ /}; all pairs of names <= 3; whole mapping sets of the E3 group maps for extend / contract.',
        claim='Bounded (not proved) for the property as a whole. Unbounded proof for the two helper functions under contract only: split_inner_class_parent_and_name answers Some exactly when the last $ splits the name into a non-empty parent not ending in / and a non-empty inner name without /, '
              'and then returns the text around that $; from_inner_class returns parent + $ + inner; lemma: split and join are mutually inverse (for inner names without $). '
              'Partial: the recursive extend / contract over a whole mapping set (IndexMap of JavaString, closures) and the failure when an outer class is missing are covered by the bounded enumeration only.',
        note='Trusted: Verus+Z3; extraction rewrites (unsafe { f(x) } -> f(x), borrowed result slices -> owned copies); mirror of java_string (code point = char; rsplit_once / ends_with / contains / is_empty with their std meaning, bodies verified, agreement with the crate assumed). '
             'Bounded stand-in for the map level: native enumeration against a model-level oracle (kx/enum).',
        out=['quill/src/action/extend_inner_class_names.rs map / extend / contract over Mappings (IndexMap) -- bounded only', 'get_inner_class_name / get_inner_class_parent (Option::map with closures)']),
    'C13': dict(
        level='other', verus=['mergeord'], kani=[], enum=['mpo', 'jarmerge'],
        technique=ENUM_TECH + '; the order preserving list merge (merge_preserve_order) additionally by ' + VERUS_TECH,
        explanation='The property as a whole (jar level) is only covered by the bounded stand-in; the list merge that decides membership and order of interfaces, fields and methods is proved unboundedly. '
                    'Bounded part: all 206 x 206 pairs of duplicate-free lists of length <= 4 over 5 elements (mpo); generated jar pairs (jarmerge).',
        claim='Bounded (not proved) for the property as a whole. Unbounded proof for merge_preserve_order only, for all pairs of lists of any length: the result contains every element of either list and nothing else, '
              'is duplicate free when both inputs are (exactly once), always contains the client list as a subsequence (client order preserved), contains the server list as a subsequence whenever both inputs are duplicate free and no two shared '
              'elements occur in opposite orders (compatible orders), and the routine terminates. '
              'Partial: merge_slice / class_merger_merge callbacks, side annotations and the jar-level table (zip, IndexMap) are covered by the bounded enumeration only.',
        note='Trusted: Verus+Z3; extraction rules replacing std adaptors by their definitions (Peekable::next_if, Option::is_some_and, Vec::extend, Iterator::filter, slice::contains, vec.into_iter() dropped), '
             'the PeekIter model of Peekable<slice::Iter>, and the instantiation T = u64 (the routine is parametric in T and uses only ==; derive(PartialEq) on the real key types is structural). '
             'Bounded stand-in, NOT a proof, for everything else: the real functions are run natively on every input up to the stated bound and compared with an independent oracle; inputs beyond the bound are not covered. Real anyhow, scratch copy of the crate.',
        out=['dukebox/src/merge.rs merge_slice, class_merger_merge, merge (jar table), sided_annotation -- bounded only', 'dukebox/src/storage/*']),
    'C18': dict(
        level='proof', verus=['desc', 'inner', 'names'], kani=[], enum=['desc', 'names', 'inner'],
        technique=VERUS_TECH,
        explanation='Bounded part (never counted as proved): all strings of length <= 5 (field/return descriptors, 11 letters), <= 6 (method descriptors, 9 letters), <= 5 (names, 8 letters), plus the 255-dimension boundary and print-then-parse on a family of type structures.',
        claim='Unbounded proof, for the functions under contract only: read_field_type, FieldDescriptorSlice::parse, ReturnDescriptorSlice::parse and MethodDescriptorSlice::parse return Ok(t) exactly when the text is in the JVMS 4.3.2/4.3.3 grammar '
              '(specification functions ft_parse / field_desc / return_desc / method_desc written from the JVMS, at most 255 dimensions, class names between L and ; valid binary names) and then t is the structure the grammar assigns, Err on every other string; '
              'write_field_type and the three write functions print exactly ty_print / ret_print / method_print of the structure; is_valid_unqualified_name and is_valid_method_name answer true exactly for the JVMS 4.2.2 names (non-empty, none of . ; [ / -- and for methods also none of < > unless the name is <init> or <clinit>); lemmas: printing a parsed descriptor reproduces the text and parsing a printed one reproduces the structure (field, return, method). '
              'Partial: the validity predicates behind the name types (iterator adapters with closures) are outside Verus; is_valid_obj_class_name is assumed to answer the JVMS binary-name rule; they are covered by the bounded enumeration only.',
        note='Trusted: Verus+Z3; extraction rewrites (error text dropped, unsafe { f(x) } -> f(x), JavaCodePoint::from_char(c) -> c); mirrors of java_string (code point = char, JavaString = vector of code points) and std::iter::Peekable<Chars> '
             '(bodies verified, agreement with the crates assumed); string newtypes as plain wrappers; external_body is_valid_obj_class_name == sp_valid_obj. '
             'Bounded stand-in for the name predicates and as a second opinion on the parsers: native enumeration against an independent oracle (kx/enum).',
        out=['duke/src/tree/mod.rs names::is_valid_* (assumed / bounded only)', 'duke/src/tree/class.rs, field.rs, method.rs check_valid wrappers', 'unicode names beyond the bounded alphabet', 'signatures (check_valid accepts everything)']),
    'C16': dict(
        level='proof', verus=['rlabels', 'cwrite', 'wjump', 'wpool', 'wencode', 'wattrs', 'wtypes', 'wannot', 'wput', 'wfrom', 'warms', 'rskip', 'rbranch', 'rscan', 'rpool', 'rdecode', 'rframes', 'rattrs', 'rtables', 'raccept', 'rtree', 'rarms', 'rtypes', 'rpoolres', 'rannot', 'aaccept', 'abuild', 'adiff', 'scope', 'c20len', 'desc', 'inner', 'names', 'mergeord', 'tinyesc'], kani=[], enum=['desc', 'mapdesc', 'cls', 'enigma', 'nestio', 'tinyio'],
        technique=VERUS_TECH + ': implicit safety obligations (overflow, index, unwrap, unreachable, termination)',
        claim='Unbounded proof of panic-freedom and termination for every function extracted for the other properties (Verus generates no-overflow, in-bounds, no-failing-unwrap, unreachable!() unreachable, decreases obligations for each). '
              'This includes the descriptor parsers (read_field_type, the three parse functions, get_arguments_size) on arbitrary text. Partial: the line-oriented text parsers built on BufRead are outside the verifier and not covered.',
        note='Trusted: as for the units involved (see evidence.trusted_base). Machine integers are machine integers; usize is 64 bit.',
        out=['quill/src/lines.rs, tiny_v2.rs, tiny_v2_diff.rs, enigma_file.rs, dukenest/src/io.rs (text parsers)', 'read_code closures']),
    'C17': dict(
        level='proof', verus=['rskip', 'rattrs', 'raccept', 'rtree', 'aaccept', 'abuild'], kani=[], enum=['cls'],
        technique=VERUS_TECH,
        claim='Unbounded proof, for the functions under contract only: skip_attributes consumes exactly the attribute table; with_pos restores the stream position; the primitive readers consume exactly their width; '
              'every decline path of read_field / read_method / read_record_component / the class attribute loop (interest flag off, ControlFlow::Break, visit_code() == None) consumes exactly the declined structure, '
              'so the items after it are read from the right offset; the first pass over the members and the declined-members path of the second pass consume exactly both member tables; '
              'Code / Method / Field / RecordComponent / ClassFile::accept deliver to the visitor exactly the facts the item holds and the visitor is interested in, once, with the right visible flag, nothing to an uninterested visitor '
              '(ghost event log on the visitor traits, specification generated from a table written from the property). Partial: what an interested arm of the reader consumes/delivers is C01 territory; annotation-level accept '
              '(TypeAnnotation::accept) is assumed, Annotation / ElementValue::accept are proved against recording visitors (unit aaccept); the composition "read then accept == read" is not proved as one theorem.',
        note='Trusted: Verus+Z3; extraction rewrites; assumed Cursor contracts for marker/skip/goto/read_n/read_u8_vec; from_be_bytes stubs; interested attribute arms abstracted to havoc_reader (stated drop); '
             'assumed ghost-log contracts on the visitor traits (declarations only); opaque tree payload types.',
        out=['interested attribute arms of the reader (content parsers)', 'duke/src/tree/annotation.rs, type_annotation.rs accept', 'duke/src/visitor/implementations/*.rs']),
}

NOT_APPLICABLE = {
    # every property is claimed now; the three properties listed here in earlier sessions (C05, C12, C14) are bounded stand-ins (E3, level other)
}
