"""property -> units / harness groups"""

PROPERTIES = {
    'C01': dict(level='proof', verus=['rlabels'], kani=[], out=[]),
    'C02': dict(level='proof', verus=['cwrite', 'wjump'], kani=[], out=[]),
    'C16': dict(level='proof', verus=['rlabels', 'cwrite', 'wjump'], kani=[], out=[]),
}
