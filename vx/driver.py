"""./check <PROPERTY> [--tier quick|thorough] [--replay FILE] [--keep] [--unit U]

Decides one property: extracts every unit that carries an obligation of the
property from /repo's working tree, runs Verus (and Kani harness groups), maps
failures to named obligations, writes evidence, prints VIOLATION / KNOWN-FINDING
/ UNDECIDED lines.  Exit 0 / 1 / 2 as in DESIGN.md 2.6.
"""
import argparse
import concurrent.futures as cf
import importlib
import json
import os
import re
import shutil
import sys
import time
import traceback

VERIF = os.path.dirname(os.path.dirname(os.path.abspath(__file__)))
sys.path.insert(0, VERIF)

from vx.unit import Unit, run_verus, classify, REPO  # noqa: E402
from vx.rustcut import CutError  # noqa: E402
from vx import registry  # noqa: E402


from vx.known import load_known  # noqa: E402


TRUST_SCAN = [r'\bassume\s*\(', r'\badmit\s*\(', r'external_body', r'assume_specification', r'#\[verifier::external\b',
              r'\baxiom\b', r'exec_allows_no_decreases_clause', r'#\[verifier::truncate\]']


def scan_trusted(text):
    found = []
    lines = text.split('\n')
    for i, l in enumerate(lines):
        code = l.split('//')[0]
        for pat in TRUST_SCAN:
            if re.search(pat, code):
                # name the item: look ahead for fn / the assume_specification target
                ctx = ' '.join(x.strip() for x in lines[i:i + 3])
                m = re.search(r'assume_specification\s*(?:<[^\[]*>)?\s*\[\s*([^\]]+?)\s*\]', ctx)
                if m:
                    found.append('assume_specification: ' + re.sub(r'\s+', '', m.group(1)))
                else:
                    m = re.search(r'\bfn\s+([A-Za-z0-9_]+)', ctx)
                    found.append(f'{pat.strip(chr(92)).replace(chr(92), "")}: ' + (m.group(1) if m else l.strip()[:80]))
                break
    return sorted(set(found))


def run_verus_unit(uname, workdir, prop=None, tier='quick'):
    """build + verify one unit; returns a result dict"""
    mod = importlib.import_module('vx.units.' + uname)
    res = dict(unit=uname, engine='verus', obligations={}, failures=[], undecided=[], trusted=[], fns={},
               canaries=[], drops={}, solver_s=0.0, cmd='', per_fn_ms={}, wall=0.0)
    u = Unit(uname, mod.PROPS, getattr(mod, '__doc__', '') or '')
    try:
        mod.build(u)
        text, origin = u.render()
    except CutError as e:
        res['undecided'].append(f'extraction: {e}')
        return res
    path = os.path.join(workdir, uname + '.rs')
    with open(path, 'w') as f:
        f.write(text)
    res['unit_file'] = path
    res['unit_lines'] = text.count('\n')
    ulines = text.split('\n')
    r = run_verus(path, rlimit=getattr(mod, 'RLIMIT', None), extra=getattr(mod, 'VERUS_ARGS', ()), multiple_errors=getattr(mod, 'MULTIPLE_ERRORS', 10))
    res['cmd'] = r['cmd']
    res['wall'] = r['wall']
    res['drops'] = u.drops
    res['trusted'] = sorted(set(u.trusted) | set(scan_trusted(text)))
    res['blobs'] = u.blob
    js = r['json']
    if js is None:
        res['undecided'].append('verus produced no JSON: ' + r['stderr'][-400:])
        return res
    # ---- obligations
    for key, info in u.fns.items():
        res['fns'][key] = dict(file=info['file'], line=info['start_line'], props=info['props'],
                               external_body=info['external_body'])
        if info.get('lemma'):
            lab = info['clauses'][0]
            res['obligations'][f'{uname}/{key}'] = dict(props=u.clauses[lab]['props'], kind='lemma', text=u.clauses[lab]['text'], label=lab)
            continue
        if info['external_body']:
            continue
        res['obligations'][f'{uname}/{key}/safety'] = dict(
            props=info['safety_props'], kind='safety',
            text='no arithmetic overflow/underflow, index or slice out of range, failing unwrap, reachable unreachable!(), violated callee precondition; loops/recursion terminate (decreases)')
        for lab in info['clauses']:
            c = u.clauses[lab]
            res['obligations'][f'{uname}/{key}/{c["kind"]}:{lab}'] = dict(props=c['props'], kind=c['kind'], text=c['text'], label=lab)
    # ---- timing / per-function status
    fn_status = {}
    try:
        for mt in js['times-ms']['smt']['smt-run-module-times']:
            for fb in mt.get('function-breakdown', []):
                fn_status[fb['function']] = fb
                res['per_fn_ms'][fb['function']] = fb['time-micros'] / 1000.0
        res['solver_s'] = js['times-ms']['smt']['total'] / 1000.0
    except Exception:
        pass
    res['verus_summary'] = js.get('verification-results')
    # ---- diagnostics
    def origin_of(line):
        if 1 <= line <= len(origin):
            return origin[line - 1]
        return None

    def fn_of_line(line):
        # walk backwards to the closest origin with fn
        for l in range(line, max(0, line - 400), -1):
            o = origin_of(l)
            if o and o.get('fn'):
                return o
            if l - 1 < len(ulines) and ulines[l - 1].startswith('// <<< '):
                break
        return None

    for d in r['diags']:
        if d.get('level') != 'error':
            continue
        msg = d.get('message', '')
        if msg.startswith('aborting due to'):
            continue
        kind = classify(d)
        def callsite(s):
            # a span inside a macro expansion (unreachable!(), assert!()): use the outermost call site
            while s.get('expansion') and s['expansion'].get('span'):
                s = s['expansion']['span']
            return s
        prim = [callsite(s) for s in d.get('spans', []) if s.get('is_primary')]
        line = prim[0]['line_start'] if prim else 0
        ptext = prim[0]['text'][0]['text'].strip() if prim and prim[0].get('text') else ''
        o = fn_of_line(line) if line else None
        # a failure inside hand-written text of the unit (u.raw / preamble: helper lemmas, mirrors) belongs to no extracted function: every proof of the unit may rest on it
        raw_name = None
        if line and origin_of(line) is None and not (o and o.get('fn', '').startswith(('canary:', 'lemma:'))):
            inside = False
            for l in range(line, max(0, line - 400), -1):
                if l - 1 < len(ulines) and ulines[l - 1].startswith('// <<< '):
                    break
                oo = origin_of(l)
                if oo and oo.get('fn'):
                    inside = True      # spliced text (contract / proof) of an extracted function
                    break
                mfn = re.match(r'\s*(?:pub\s+)?(?:proof\s+|open\s+spec\s+|closed\s+spec\s+|spec\s+)?fn\s+(\w+)', ulines[l - 1]) if l - 1 < len(ulines) else None
                if mfn:
                    raw_name = mfn.group(1)
                    break
            if inside:
                raw_name = None
        if raw_name and kind is not None:
            # hand-written text does not depend on /repo: this can never be a violation of a property, but nothing proved with the help of that text counts
            res['undecided'].append(f'hand-written helper `{raw_name}` of the unit does not verify ({msg} @ unit line {line}): no proof of the unit is counted')
            continue
        if kind is None:
            if 'rlimit' in msg or 'Resource limit' in msg:
                res['undecided'].append(f'solver resource limit in {o.get("fn") if o else "?"}: {msg}')
            else:
                res['undecided'].append(f'verus rejected the unit (not a proof failure): {msg} @ unit line {line}: {ptext}')
            continue
        fnkey = o['fn'] if o else '?'
        label = None
        clause_line = None
        if kind == 'post':
            for s in d.get('spans', []):
                if s.get('label') and 'failed this postcondition' in s['label']:
                    clause_line = s['line_start']
        elif kind.startswith('inv') or kind == 'assert':
            clause_line = line
            # a loop `ensures` / invariant failing at a `break`: the primary span is the exit, the clause is the labelled secondary span
            for s in d.get('spans', []):
                if s.get('label') and 'failed this invariant' in s['label'] and not s.get('is_primary'):
                    clause_line = s['line_start']
        if clause_line:
            # labels sit at the end of the clause's (last) line
            for l in range(clause_line, min(clause_line + (1 if kind == 'assert' else 12), len(ulines) + 1)):
                m = re.search(r'// \[([^\]]+)\]', ulines[l - 1])
                if m:
                    label = m.group(1)
                    break
        in_proof_text = bool(line) and line - 1 < len(ulines) and re.search(r'\bproof\s*\{[^}]*$', ulines[line - 1][:prim[0].get('column_start', 1) - 1] if prim else '') is not None
        if kind == 'assert' and o and (o.get('line') is None or in_proof_text) and fnkey in u.fns and u.fns[fnkey].get('proof_label'):
            # an assertion inside proof text spliced in by the unit: it is a proof step of the named clause
            label = u.fns[fnkey]['proof_label']
        if fnkey.startswith('canary:'):
            res['canaries'].append(dict(fn=fnkey, failed=True))
            continue
        if fnkey.startswith('lemma:'):
            ob = f'{uname}/{fnkey}'
        elif label and label in u.clauses:
            c = u.clauses[label]
            ob = f'{uname}/{c["fn"]}/{c["kind"]}:{label}'
        elif kind in ('post', 'inv', 'inv-end', 'inv-init'):
            ob = f'{uname}/{fnkey}/{kind}:?'
        else:
            ob = f'{uname}/{fnkey}/safety'
        repo_loc = None
        if o and o.get('file'):
            repo_loc = f'{o["file"]}:{o["line"]}' if o.get('line') else o['file']
        secondary = [dict(line=s['line_start'], label=s.get('label'), text=(s['text'][0]['text'].strip() if s.get('text') else ''))
                     for s in d.get('spans', []) if not s.get('is_primary')]
        res['failures'].append(dict(obligation=ob, kind=kind, message=msg, unit_line=line, expr=ptext, repo=repo_loc,
                                    secondary=secondary, rendered=d.get('rendered', '')[:3000], fn=fnkey, label=label))
    # ---- canaries: each must have failed
    failed_canaries = {c['fn'] for c in res['canaries']}
    res['canaries'] = [dict(fn=k, must_fail_failed=(k in failed_canaries)) for k, _ in u.canaries]
    vr = js.get('verification-results', {})
    if vr.get('encountered-vir-error') or (vr.get('encountered-error') and vr.get('verified', 0) == 0 and vr.get('errors', 0) == 0):
        if not res['undecided']:
            res['undecided'].append('verus stopped before verification: ' + r['stderr'][-600:])
    if not res['undecided']:
        for c in res['canaries']:
            if not c['must_fail_failed']:
                res['undecided'].append(f'vacuity guard: canary {c["fn"]} verified `ensures false` (contradictory requires or trusted base)')
        if not u.canaries:
            res['undecided'].append('vacuity guard: unit has no canary')
    # an obligation that belongs to a function whose SMT run did not happen is not discharged
    res['verified_fns'] = sum(1 for f in fn_status.values() if f.get('success'))
    # thorough tier: proof stability -- the same unit under two more solver seeds; a proof that holds under one seed and not under
    # another is reported as unstable (UNDECIDED), never as a violation
    if tier == 'thorough' and not res['undecided'] and os.environ.get('VERIF_STABILITY', '1') != '0':
        base_failed = {f['obligation'] for f in res['failures']}
        for seed_ in (7, 1234):
            r2 = run_verus(path, rlimit=getattr(mod, 'RLIMIT', None), extra=list(getattr(mod, 'VERUS_ARGS', ())) + ['--smt-option', f'smt.random_seed={seed_}'],
                           multiple_errors=getattr(mod, 'MULTIPLE_ERRORS', 10))
            res['solver_s'] += (r2['json'] or {}).get('times-ms', {}).get('smt', {}).get('total', 0) / 1000.0 if r2['json'] else 0
            vr = (r2['json'] or {}).get('verification-results') or {}
            base = res.get('verus_summary') or {}
            if r2['json'] is None or vr.get('errors') != base.get('errors') or vr.get('verified') != base.get('verified'):
                res['undecided'].append(f'unstable proof: solver seed {seed_} gives {vr} where the default seed gives {base}')
        res['stability_seeds'] = [0, 7, 1234]
    return res


def main(argv=None):
    ap = argparse.ArgumentParser()
    ap.add_argument('prop')
    ap.add_argument('--tier', default=os.environ.get('VERIF_TIER', 'quick'), choices=['quick', 'thorough'])
    ap.add_argument('--replay')
    ap.add_argument('--keep', action='store_true')
    ap.add_argument('--unit', action='append')
    ap.add_argument('--no-kani', action='store_true')
    ap.add_argument('--no-enum', action='store_true')
    a = ap.parse_args(argv)
    prop = a.prop
    seed = int(os.environ.get('VERIF_SEED', '0') or 0)
    t0 = time.time()

    if a.replay:
        from vx import replay
        return replay.run(a.replay)

    if (a.unit or a.no_kani or a.no_enum or os.environ.get('VERIF_REPO')) and not os.environ.get('VERIF_EVIDENCE_DIR'):
        # partial / development runs never overwrite the evidence of the registered check
        os.environ['VERIF_EVIDENCE_DIR'] = '/tmp/verif-dev-evidence'
        os.environ.setdefault('VERIF_REPLAY_DIR', '/tmp/verif-dev-replays')
    if prop not in registry.PROPERTIES:
        print(f'UNDECIDED property={prop} reason=not-claimed (see MANIFEST.not_applicable)')
        return 2
    pdef = registry.PROPERTIES[prop]
    scratch = os.environ.get('VERIF_SCRATCH') or f'/var/tmp/verif-{os.getpid()}'
    os.makedirs(scratch, exist_ok=True)
    results = []
    try:
        units = [u for u in pdef.get('verus', []) if not a.unit or u in a.unit]
        with cf.ThreadPoolExecutor(max_workers=8) as ex:
            futs = {ex.submit(run_verus_unit, u, scratch, prop, a.tier): u for u in units}
            kfut = None
            if not a.no_kani and pdef.get('kani'):
                from kx import kani
                kfut = ex.submit(kani.run_groups, prop, pdef['kani'], a.tier, scratch)
            efut = None
            if pdef.get('enum') and not a.no_enum:
                from kx import enumrun
                efut = ex.submit(enumrun.run_groups, prop, pdef['enum'], a.tier, scratch)
            for f in futs:
                try:
                    results.append(f.result())
                except Exception as e:
                    results.append(dict(unit=futs[f], engine='verus', obligations={}, failures=[], trusted=[], fns={}, canaries=[],
                                        drops={}, solver_s=0, cmd='', undecided=[f'internal error: {e}\n{traceback.format_exc()[-800:]}']))
            if kfut is not None:
                try:
                    results.extend(kfut.result())
                except Exception as e:
                    results.append(dict(unit='kani', engine='kani', obligations={}, failures=[], trusted=[], fns={}, canaries=[],
                                        drops={}, solver_s=0, cmd='', undecided=[f'internal error: {e}\n{traceback.format_exc()[-800:]}']))
            if efut is not None:
                try:
                    results.extend(efut.result())
                except Exception as e:
                    results.append(dict(unit='enum', engine='enum', obligations={}, failures=[], trusted=[], fns={}, canaries=[],
                                        drops={}, solver_s=0, cmd='', undecided=[f'internal error: {e}\n{traceback.format_exc()[-800:]}']))
        from vx import report
        rc = report.decide_and_write(prop, pdef, a.tier, seed, results, time.time() - t0, scratch)
    finally:
        if not a.keep and not os.environ.get('VERIF_KEEP'):
            shutil.rmtree(scratch, ignore_errors=True)
        else:
            print(f'(scratch kept at {scratch})')
    return rc


if __name__ == '__main__':
    sys.exit(main())
