"""decide a property from unit results; write evidence + replay files; print verdict lines."""
import json
import os
import re
import time

VERIF = os.path.dirname(os.path.dirname(os.path.abspath(__file__)))

from vx.known import load_known  # noqa: E402


def matches_known(f, k, prop):
    if k.get('property') != prop:
        return False
    if k.get('obligation') != f['obligation']:
        return False
    ex = k.get('expr')
    if ex and ex not in (f.get('expr') or '') and ex not in (f.get('message') or ''):
        return False
    return True


def decide_and_write(prop, pdef, tier, seed, results, wall, scratch):
    known, fixed = load_known()
    obligations = {}        # name -> dict
    bounded = {}            # name -> dict (bounded stand-ins, not counted)
    failures = []
    undecided = []
    trusted = set(pdef.get('trusted', []))
    cmds = []
    fns = {}
    drops = {}
    canaries = []
    solver_s = 0.0
    per_fn = {}
    enum_cases = enum_nontrivial = 0
    for r in results:
        for u in r.get('undecided', []):
            undecided.append(f'{r["unit"]}: {u}')
        involved = False
        for name, ob in r.get('obligations', {}).items():
            if prop in ob['props']:
                involved = True
                ob = dict(ob, backend={'verus': 'verus-z3', 'kani': 'kani-cbmc', 'enum': 'native-exhaustive-enumeration'}[r['engine']])
                if ob.get('bounded'):
                    bounded[name] = ob
                else:
                    obligations[name] = ob
        for f in r.get('failures', []):
            props = None
            for name, ob in r.get('obligations', {}).items():
                if name == f['obligation']:
                    props = ob['props']
            if props is None:
                # unmapped clause (post:?): attribute to the function's props
                fk = f.get('fn')
                props = r.get('fns', {}).get(fk, {}).get('props', []) if fk else []
            # a failing obligation of a shared helper that carries no property of its own (ClassRead / ClassWrite defaults re-verified inside a unit): every proof of the unit
            # uses its contract, so it counts for every property the unit serves
            if prop in props or f.get('all_props') or (not props and r.get('engine') == 'verus' and involved):
                failures.append(dict(f, unit=r['unit'], engine=r['engine']))
        if involved or r.get('undecided'):
            trusted.update(r.get('trusted', []))
            if r.get('cmd'):
                cmds.append(r['cmd'])
            for k, v in r.get('fns', {}).items():
                if prop in v.get('props', []) or prop == 'C16':
                    fns[f'{r["unit"]}:{k}'] = v
            for k, v in r.get('drops', {}).items():
                drops[k] = drops.get(k, 0) + v
            canaries.extend(dict(c, unit=r['unit']) for c in r.get('canaries', []))
            solver_s += r.get('solver_s', 0.0)
            enum_cases += sum(o.get('cases', 0) for o in r.get('obligations', {}).values() if prop in o['props'])
            enum_nontrivial += sum(o.get('nontrivial', 0) for o in r.get('obligations', {}).values() if prop in o['props'])
            for k, v in r.get('per_fn_ms', {}).items():
                per_fn[k] = v

    failed_names = {f['obligation'] for f in failures}
    new_failures = []
    known_hit = []
    for f in failures:
        ks = [k for k in known if matches_known(f, k, prop)]
        if ks:
            known_hit.append((f, ks[0]))
        else:
            new_failures.append(f)

    # obligations that fail exactly as a listed known finding are reported apart (known_finding_obligations) and not counted as
    # obligations of the proof: `obligations` counts what this run was expected to discharge, `discharged` what it did discharge
    known_names = {f['obligation'] for f, _ in known_hit} - {f['obligation'] for f in new_failures}
    n_ob = len([n for n in obligations if n not in known_names])
    n_dis = len([n for n in obligations if n not in failed_names])
    n_b = len(bounded)
    n_bdis = len([n for n in bounded if n not in failed_names])

    rc = 0
    lines = []
    replay_paths = []
    if undecided and not new_failures:
        rc = 2
    if n_ob + n_b == 0 and not undecided:
        undecided.append('vacuity guard: zero obligations generated for this property')
        rc = 2
    seen = set()
    for f, k in known_hit:
        key = (k.get('obligation'), k.get('expr'))
        if key in seen:
            continue
        seen.add(key)
        lines.append(f'KNOWN-FINDING: property={prop} {k.get("what", f["obligation"])}')
    if new_failures:
        rc = 1
        rdir = os.environ.get('VERIF_REPLAY_DIR') or os.path.join(VERIF, 'replays')
        os.makedirs(rdir, exist_ok=True)
        by_ob = {}
        for f in new_failures:
            by_ob.setdefault(f['obligation'], []).append(f)
        for i, (ob, fs) in enumerate(sorted(by_ob.items())):
            f = fs[0]
            path = os.path.join(rdir, f'{prop}-{re.sub(r"[^A-Za-z0-9_.-]+", "_", ob)}.json')
            odef = obligations.get(ob) or bounded.get(ob) or {}
            rep = dict(property=prop, obligation=ob, engine=f.get('engine'), unit=f.get('unit'),
                       clause=odef.get('text'), repo_location=f.get('repo'), failing_expression=f.get('expr'),
                       verifier_message=f.get('message'), verifier_output=[x.get('rendered', '') for x in fs],
                       counterexample=f.get('counterexample'), replay_test=f.get('replay_test'),
                       replay_result=f.get('replay_result'), replay_enum=f.get('replay_enum'),
                       note='counterexample replayed against the real code' if f.get('replay_result') == 'reproduced'
                       else 'no-failing-input-found: the verifier gave no model that could be replayed; this obligation is discharged on the pinned tree and fails now')
            with open(path, 'w') as fh:
                json.dump(rep, fh, indent=1)
            replay_paths.append(path)
            tail = '' if f.get('replay_result') == 'reproduced' else ' no-failing-input-found'
            lines.append(f'VIOLATION property={prop} replay={path} obligation={ob}{tail}'
                         if False else f'VIOLATION property={prop} replay={path}{tail}')
            lines.append(f'  failed obligation: {ob} [{f.get("kind")}] {f.get("message")} at {f.get("repo") or "unit line " + str(f.get("unit_line"))}: {f.get("expr")}')
    if rc == 2:
        for u in undecided:
            lines.append(f'UNDECIDED property={prop} reason={u}')

    # ------------------------------------------------------------------ evidence
    level = pdef['level']
    samples = []
    for name in list(obligations)[:0]:
        pass
    pick = sorted(obligations.items(), key=lambda kv: (kv[1]['kind'] == 'safety', kv[0]))[:3] + sorted(bounded.items())[:2]
    for name, ob in pick:
        samples.append(dict(obligation=name, clause=ob.get('text'), backend=ob.get('backend'), bound=ob.get('bound'),
                            result='failed' if name in failed_names else 'discharged'))
    cov = dict(
        obligations=n_ob, discharged=n_dis,
        checker_cmd=' ; '.join(sorted(set(cmds))) or 'none',
        trusted_base=sorted(trusted),
        samples=samples,
        obligation_names=sorted(n for n in obligations if n not in known_names),
        known_finding_obligations=sorted(known_names),
        backends=sorted({o['backend'] for o in list(obligations.values()) + list(bounded.values())}),
        solver_time_s=round(solver_s, 3),
        slow_functions={k: v for k, v in per_fn.items() if v > 20000},
        functions_under_contract=[dict(function=k, repo=f'{v.get("file")}:{v.get("line")}', external_body=v.get('external_body', False)) for k, v in sorted(fns.items())],
        extraction_drops=drops,
        unverified_surroundings=pdef.get('out', []),
        canaries=canaries,
        bounded=[dict(obligation=n, bound=o.get('bound'), cases=o.get('cases'), nontrivial=o.get('nontrivial'), result='failed' if n in failed_names else 'held-within-bound', clause=o.get('text')) for n, o in sorted(bounded.items())],
        known_findings=[k.get('what') for _, k in known_hit],
        undecided=undecided,
        exhaustive=False,
    )
    if level == 'other':
        cov['explanation'] = pdef.get('explanation', '') + f' This run: {n_b} bounded obligation(s), {n_bdis} held within their bound ({enum_cases} inputs enumerated, {enum_nontrivial} of them non-trivial); {n_ob} unbounded obligation(s), {n_dis} discharged.'
        cov['evaluations'] = enum_cases + n_ob
        cov['distinct_nontrivial'] = enum_nontrivial + n_dis
        cov['rule'] = ('every input of the stated bound is generated exactly once (distinct by construction); an input is non-trivial when the oracle puts it on the interesting side '
                       '(inside the grammar / actually rewritten / lists that share elements); unbounded obligations count one each')
        cov['exhaustive'] = True
        cov['exhaustive_note'] = 'exhaustive only WITHIN the stated bounds; nothing is claimed beyond them'
    elif n_b:
        cov['bounded_inputs_enumerated'] = enum_cases
    ev = dict(property_id=prop, tier=tier, seed=seed, level=level, coverage=cov,
              assumptions=sorted(set(pdef.get('assumptions', [])) | trusted),
              wall_s=round(wall, 2), violations=len({f['obligation'] for f in new_failures}))
    evdir = os.environ.get('VERIF_EVIDENCE_DIR') or os.path.join(VERIF, 'evidence')
    os.makedirs(evdir, exist_ok=True)
    with open(os.path.join(evdir, prop + '.json'), 'w') as fh:
        json.dump(ev, fh, indent=1)
    for l in lines:
        print(l)
    print(f'{prop}: tier={tier} obligations={n_ob} discharged={n_dis} failing-as-known-finding={len(known_names)} bounded={n_b}/{n_bdis} known={len(seen)} new_failures={len({f["obligation"] for f in new_failures})} rc={rc} wall={wall:.1f}s')
    return rc
