import json
import os

VERIF = os.path.dirname(os.path.dirname(os.path.abspath(__file__)))


def load_known():
    known, fixed = [], []
    p = os.path.join(VERIF, 'known_findings.jsonl')
    if os.path.exists(p):
        for l in open(p):
            l = l.strip()
            if not l or l.startswith('#'):
                continue
            d = json.loads(l)
            (fixed if d.get('status') == 'fixed' else known).append(d)
    return known, fixed


