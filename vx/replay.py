"""./check <P> --replay <file>: re-run a recorded violation against /repo's current tree.
Kani counterexamples: the generated concrete-playback unit test is executed natively on the real crate (exit 1 = still fails).
Verus obligations without a model: the unit is re-extracted and re-verified; exit 1 if the named obligation still fails."""
import json
import os
import shutil
import subprocess
import sys

VERIF = os.path.dirname(os.path.dirname(os.path.abspath(__file__)))


def run(path):
    rep = json.load(open(path))
    scratch = os.environ.get('VERIF_SCRATCH') or f'/var/tmp/verif-replay-{os.getpid()}'
    os.makedirs(scratch, exist_ok=True)
    try:
        rt = rep.get('replay_test')
        if rt:
            from kx import kani
            from kx.groups import GROUPS
            from vx.rustcut import Source
            g = GROUPS[rt['group']]
            ws, _tdir = kani.make_ws(scratch)
            kani.install_group(ws, rt['group'])
            target = os.path.join(ws, g['file'])
            s = Source(target)
            it = s.cut_item('mod', f'verif_kani_{rt["group"]}')
            open(target, 'w').write(s.text[:it['close']] + '\n' + rt['test'] + '\n' + s.text[it['close']:])
            env = dict(os.environ, CARGO_NET_OFFLINE='true', CARGO_TARGET_DIR=os.path.join(_tdir, 'kani-target-' + g['crate'] + '-pb'))
            p = subprocess.run(['cargo', 'kani', 'playback', '-Z', 'concrete-playback', '-p', g['crate'], '--', rt['test_name']],
                               cwd=ws, env=env, capture_output=True, text=True)
            out = p.stdout + p.stderr
            print('\n'.join(l for l in out.splitlines() if 'panicked' in l or 'test result' in l or 'assertion' in l))
            if 'test result: FAILED' in out:
                print(f'REPLAY reproduced: {rep["obligation"]} fails on the real code with input {rep.get("counterexample")}')
                return 1
            print('REPLAY not reproduced (test passed or did not build)')
            return 0
        re_ = rep.get('replay_enum')
        if re_:
            from kx import enumrun
            rs = enumrun.run_groups(rep['property'], [re_['group']], 'thorough', scratch, only=[re_['test']])
            fs = [f for r in rs for f in r['failures']]
            und = [u for r in rs for u in r['undecided'] if 'canary' not in u]
            for f in fs:
                print('\n'.join('FAILING INPUT ' + x for x in f.get('counterexample', [])))
            if fs:
                print(f'REPLAY reproduced: {rep["obligation"]} fails on the real code')
                return 1
            if und:
                print('REPLAY undecided:', und)
                return 2
            print('REPLAY not reproduced: the enumeration passes on the current tree')
            return 0
        # Verus: re-verify the unit
        from vx.driver import run_verus_unit
        unit = rep.get('unit')
        r = run_verus_unit(unit, scratch)
        still = [f for f in r['failures'] if f['obligation'] == rep['obligation']]
        if r['undecided']:
            print('REPLAY undecided:', r['undecided'])
            return 2
        if still:
            print(f'REPLAY reproduced: obligation {rep["obligation"]} still fails: {still[0]["message"]} at {still[0].get("repo")}: {still[0].get("expr")}')
            return 1
        print('REPLAY not reproduced: obligation is discharged on the current tree')
        return 0
    finally:
        shutil.rmtree(scratch, ignore_errors=True)
