"""rarms -- the interested attribute arms of the class reader (duke/src/class_reader.rs `read`, `read_field`, `read_method`,
`read_record_component`): what an arm that parses an attribute for an *interested* visitor reads and delivers.

C01: "... every field and method with flags and descriptors, ... annotations, module/record/nest data and unrecognised attributes byte for byte.
Nothing is invented, dropped or attached to the wrong member".  Unit rattrs proves the decline paths; this unit lifts each interested arm
`name if name == attribute::X => { body }` that is free of closures into a function (parameters: reader, pool, the level's visitor, length,
attribute_name) and proves, with the ghost event log of the visitor traits (vx/units/_visit.py):

  * the arm delivers exactly one event of the kind the JVMS assigns to attribute X, with the value resolved from the constant-pool index found at the
    JVMS offset of the attribute body (visible / invisible annotations by the name of the attribute), nothing else;
  * it consumes exactly the bytes of the body that JVMS 4.7 prescribes for X (2 for a pool index, 4 for EnclosingMethod, `length` for raw bodies;
    for annotation bodies: what the annotation parser consumed).

Pool accessors, the annotation parsers and read_module are opaque functions of (pool, index) / (reader position) here (unit rpool verifies the pool).
Arms that use `reader.read_vec(|r| .., |r| ..)` (InnerClasses, NestMembers, ...) are outside the Verus subset (FnMut closures) and stay unverified."""
import re

from vx.unit import C
from vx.rustcut import CutError, code_mask, match_close
from vx.units._cread import add_classread
from vx.units._visit import spec_trait, opaque
from vx.units import raccept as RA

PROPS = ['C01']
R = 'duke/src/class_reader.rs'
V = 'duke/src/visitor/'
T = 'duke/src/tree/'
LIB = 'duke/src/lib.rs'

STUBS = r'''
// TRUSTED: pool accessors / conversions / annotation parsers / read_module are opaque functions of their arguments here
pub uninterp spec fn sp_utf8(pool: PoolRead, i: u16) -> JavaString;
pub uninterp spec fn sp_class(pool: PoolRead, i: u16) -> ClassName;
pub uninterp spec fn sp_method_nat(pool: PoolRead, i: u16) -> MethodNameAndDesc;
pub uninterp spec fn sp_constant_value(pool: PoolRead, i: u16) -> ConstantValue;
pub uninterp spec fn sp_package(pool: PoolRead, i: u16) -> PackageName;
pub open spec fn sp_class_opt(pool: PoolRead, i: u16) -> Option<ClassName> { Some(sp_class(pool, i)) }
pub uninterp spec fn sp_inner_flags(v: u16) -> InnerClassFlags;
impl vstd::std_specs::convert::FromSpecImpl<u16> for InnerClassFlags {
    open spec fn obeys_from_spec() -> bool { true }
    open spec fn from_spec(v: u16) -> InnerClassFlags { sp_inner_flags(v) }
}
impl From<u16> for InnerClassFlags { #[verifier::external_body] fn from(v: u16) -> (r: InnerClassFlags) { unimplemented!() } }
pub open spec fn inner_class_is(d: Seq<u8>, q: int, pool: PoolRead, e: InnerClass) -> bool {
    e.inner_class == sp_class(pool, u16_at(d, q) as u16)
    && e.outer_class == (if u16_at(d, q + 2) == 0 { None } else { Some(sp_class(pool, u16_at(d, q + 2) as u16)) })
    && e.inner_name == (if u16_at(d, q + 4) == 0 { None } else { Some(sp_utf8(pool, u16_at(d, q + 4) as u16)) })
    && e.flags == sp_inner_flags(u16_at(d, q + 6) as u16)
}
pub uninterp spec fn sp_parameter_flags(v: u16) -> ParameterFlags;
impl vstd::std_specs::convert::FromSpecImpl<u16> for ParameterFlags {
    open spec fn obeys_from_spec() -> bool { true }
    open spec fn from_spec(v: u16) -> ParameterFlags { sp_parameter_flags(v) }
}
impl From<u16> for ParameterFlags { #[verifier::external_body] fn from(v: u16) -> (r: ParameterFlags) { unimplemented!() } }
pub uninterp spec fn sp_parameter_name(s: JavaString) -> ParameterName;
// `o.map(|x| x.try_into()).transpose()?` on an optional UTF-8 entry: the conversion of the string when there is one (it may refuse), None otherwise
#[verifier::external_body] pub fn opt_try_into_parameter_name(o: Option<JavaString>) -> (res: Result<Option<ParameterName>, VErr>)
    ensures res matches Ok(v) ==> v == (match o { Some(s) => Some(sp_parameter_name(s)), None => None }) { unimplemented!() }
pub open spec fn method_parameter_is(d: Seq<u8>, q: int, pool: PoolRead, e: MethodParameter) -> bool {
    e.name == (if u16_at(d, q) == 0 { None } else { Some(sp_parameter_name(sp_utf8(pool, u16_at(d, q) as u16))) })
    && e.flags == sp_parameter_flags(u16_at(d, q + 2) as u16)
}
pub open spec fn u8_at(d: Seq<u8>, p: int) -> int { d[p] as int }
pub open spec fn sp_package_opt(pool: PoolRead, i: u16) -> Option<PackageName> { Some(sp_package(pool, i)) }
pub uninterp spec fn sp_class_sig(s: JavaString) -> ClassSignature;
pub uninterp spec fn sp_field_sig(s: JavaString) -> FieldSignature;
pub uninterp spec fn sp_method_sig(s: JavaString) -> MethodSignature;
pub uninterp spec fn sp_string_of(b: Seq<u8>) -> JavaString;
impl PoolRead {
    #[verifier::external_body] pub fn get_utf8(&self, index: u16) -> (res: Result<JavaString, VErr>) ensures res matches Ok(v) ==> v == sp_utf8(*self, index) { unimplemented!() }
    #[verifier::external_body] pub fn get_class(&self, index: u16) -> (res: Result<ClassName, VErr>) ensures res matches Ok(v) ==> v == sp_class(*self, index) { unimplemented!() }
    #[verifier::external_body] pub fn get_optional_class(&self, index: u16) -> (res: Result<Option<ClassName>, VErr>)
        ensures res matches Ok(v) ==> v == (if index == 0 { None } else { Some(sp_class(*self, index)) }) { unimplemented!() }
    #[verifier::external_body] pub fn get_optional_utf8(&self, index: u16) -> (res: Result<Option<JavaString>, VErr>)
        ensures res matches Ok(v) ==> v == (if index == 0 { None } else { Some(sp_utf8(*self, index)) }) { unimplemented!() }
    #[verifier::external_body] pub fn get_package(&self, index: u16) -> (res: Result<PackageName, VErr>) ensures res matches Ok(v) ==> v == sp_package(*self, index) { unimplemented!() }
    #[verifier::external_body] pub fn get_constant_value(&self, index: u16) -> (res: Result<ConstantValue, VErr>) ensures res matches Ok(v) ==> v == sp_constant_value(*self, index) { unimplemented!() }
    // `pool.get_optional(i, PoolRead::get_method_name_and_type)`: index 0 means "no entry"
    #[verifier::external_body] pub fn get_optional_method_name_and_type(&self, index: u16) -> (res: Result<Option<MethodNameAndDesc>, VErr>)
        ensures res matches Ok(v) ==> v == (if index == 0 { None } else { Some(sp_method_nat(*self, index)) }) { unimplemented!() }
}
impl ClassSignature { #[verifier::external_body] pub fn try_from(s: JavaString) -> (res: Result<Self, VErr>) ensures res matches Ok(v) ==> v == sp_class_sig(s) { unimplemented!() } }
impl FieldSignature { #[verifier::external_body] pub fn try_from(s: JavaString) -> (res: Result<Self, VErr>) ensures res matches Ok(v) ==> v == sp_field_sig(s) { unimplemented!() } }
impl MethodSignature { #[verifier::external_body] pub fn try_from(s: JavaString) -> (res: Result<Self, VErr>) ensures res matches Ok(v) ==> v == sp_method_sig(s) { unimplemented!() } }
impl Clone for JavaString { #[verifier::external_body] fn clone(&self) -> (r: Self) ensures r == *self { unimplemented!() } }
pub mod jstring { use super::*;
    #[verifier::external_body] pub fn from_vec_to_string(v: Vec<u8>) -> (res: Result<JavaString, VErr>) ensures res matches Ok(s) ==> s == sp_string_of(v@) { unimplemented!() } }
pub open spec fn u16_at(d: Seq<u8>, p: int) -> int { val16(d.subrange(p, p + 2)) }
// annotation bodies: the parser hands what it parsed to the sub-visitor and consumes some number of bytes, both functions of (data, position, pool)
pub uninterp spec fn sp_annotations(d: Seq<u8>, p: int, pool: PoolRead) -> Seq<Annotation>;
pub uninterp spec fn sp_type_annotations<T>(d: Seq<u8>, p: int, pool: PoolRead) -> Seq<TypeAnnotation<T>>;
pub uninterp spec fn sp_annotations_len(d: Seq<u8>, p: int, pool: PoolRead) -> int;
#[verifier::external_body]
pub fn read_annotations_attribute<A: AnnotationsVisitor, Rd: ClassRead>(reader: &mut Rd, annotations_visitor: A, pool: &PoolRead) -> (res: Result<A, VErr>)
    ensures final(reader).data() == old(reader).data(),
        res matches Ok(a) ==> a.items() == annotations_visitor.items() + sp_annotations(old(reader).data(), old(reader).pos(), *pool) && final(reader).pos() == old(reader).pos() + sp_annotations_len(old(reader).data(), old(reader).pos(), *pool)
{ unimplemented!() }
#[verifier::external_body]
pub fn read_type_annotations_attribute<T, A: TypeAnnotationsVisitor<T>, Rd: ClassRead>(reader: &mut Rd, type_annotations_visitor: A, pool: &PoolRead) -> (res: Result<A, VErr>)
    ensures final(reader).data() == old(reader).data(),
        res matches Ok(a) ==> a.items() == type_annotations_visitor.items() + sp_type_annotations::<T>(old(reader).data(), old(reader).pos(), *pool) && final(reader).pos() == old(reader).pos() + sp_annotations_len(old(reader).data(), old(reader).pos(), *pool)
{ unimplemented!() }
'''

# JVMS 4.7: attribute name -> (event delivered with its value as a function of the body at p, bytes of body consumed)
IDX = 'u16_at(d, p) as u16'
VALUE = {
    ('klass', 'ENCLOSING_METHOD'): ('ClEv::EnclosingMethod(EnclosingMethod { class: sp_class(*pool, {i}), method: (if u16_at(d, p + 2) == 0 { None } else { Some(sp_method_nat(*pool, u16_at(d, p + 2) as u16)) }) })', '4'),
    ('klass', 'SIGNATURE'): ('ClEv::Signature(sp_class_sig(sp_utf8(*pool, {i})))', '2'),
    ('klass', 'SOURCE_FILE'): ('ClEv::SourceFile(sp_utf8(*pool, {i}))', '2'),
    ('klass', 'SOURCE_DEBUG_EXTENSION'): ('ClEv::SourceDebugExtension(sp_string_of(d.subrange(p, p + length as int)))', 'length as int'),
    ('klass', 'MODULE_MAIN_CLASS'): ('ClEv::ModuleMainClass(sp_class(*pool, {i}))', '2'),
    ('klass', 'NEST_HOST'): ('ClEv::NestHost(sp_class(*pool, {i}))', '2'),
    ('field', 'CONSTANT_VALUE'): ('FEv::ConstantValue(sp_constant_value(*pool, {i}))', '2'),
    ('field', 'SIGNATURE'): ('FEv::Signature(sp_field_sig(sp_utf8(*pool, {i})))', '2'),
    ('method', 'SIGNATURE'): ('MEv::Signature(sp_method_sig(sp_utf8(*pool, {i})))', '2'),
    ('component', 'SIGNATURE'): ('REv::Signature(sp_field_sig(sp_utf8(*pool, {i})))', '2'),
}
ANNOT = {'RUNTIME_VISIBLE_ANNOTATIONS': ('Annotations', 'true', 'sp_annotations(d, p, *pool)'), 'RUNTIME_INVISIBLE_ANNOTATIONS': ('Annotations', 'false', 'sp_annotations(d, p, *pool)'),
         'RUNTIME_VISIBLE_TYPE_ANNOTATIONS': ('TypeAnnotations', 'true', 'sp_type_annotations::<{tgt}>(d, p, *pool)'),
         'RUNTIME_INVISIBLE_TYPE_ANNOTATIONS': ('TypeAnnotations', 'false', 'sp_type_annotations::<{tgt}>(d, p, *pool)')}
# arms whose body is `let v = reader.read_vec(|r| SIZE, |r| ELEMENT)?; visitor.visit_x(v)?;`: the call is beta-reduced with the real body of ClassRead::read_vec
# (duke/src/lib.rs): `get_size(self)` / `get_element(self)` replaced by the closure bodies with `r` bound to the reader.  (level, attribute) -> (event, width of the count,
# bytes per element, element k of the vector v as a function of the bytes at q = p + count width + k * element size)
VEC = {
    ('klass', 'NEST_MEMBERS'): ('ClEv::NestMembers', 2, 2, 'sp_class_opt(*pool, u16_at(d, q) as u16) == Some(v[k])'),
    ('klass', 'PERMITTED_SUBCLASSES'): ('ClEv::PermittedSubclasses', 2, 2, 'sp_class_opt(*pool, u16_at(d, q) as u16) == Some(v[k])'),
    ('klass', 'MODULE_PACKAGES'): ('ClEv::ModulePackages', 2, 2, 'sp_package_opt(*pool, u16_at(d, q) as u16) == Some(v[k])'),
    ('method', 'EXCEPTIONS'): ('MEv::Exceptions', 2, 2, 'sp_class_opt(*pool, u16_at(d, q) as u16) == Some(v[k])'),
    # JVMS 4.7.6: u2 inner_class_info_index, u2 outer_class_info_index (0: none), u2 inner_name_index (0: none), u2 inner_class_access_flags
    ('klass', 'INNER_CLASSES'): ('ClEv::InnerClasses', 2, 8, 'inner_class_is(d, q, *pool, v[k])'),
    # JVMS 4.7.24: u1 parameters_count; per parameter u2 name_index (0: no name), u2 access_flags
    ('method', 'METHOD_PARAMETERS'): ('MEv::Parameters', 1, 4, 'method_parameter_is(d, q, *pool, v[k])'),
}
FN_OF = dict(klass='read', field='read_field', method='read_method', component='read_record_component')
VAR_OF = dict(klass='class_visitor', field='field_visitor', method='method_visitor', component='record_component_visitor')


def arms_of(u, fname):
    """[(attribute constant or '_', guard has `!interests`, body text, line)] of the first `match attribute_name.as_java_str()` of fname"""
    s = u.src(R)
    f = s.cut_fn(fname)
    body, mask = f['body'], code_mask(f['body'])
    m = re.search(r'match\s+attribute_name\.as_java_str\(\)\s*\{', mask)
    if not m:
        raise CutError(f'{fname}: no `match attribute_name.as_java_str()`')
    ob = m.end() - 1
    cb = match_close(mask, ob)
    out, i = [], ob + 1
    while True:
        a = mask.find('=>', i, cb)
        if a < 0:
            break
        guard = body[i:a]
        j = a + 2
        while mask[j] in ' \t\n':
            j += 1
        if mask[j] == '{':
            e = match_close(mask, j)
            bs, be, k = j, e + 1, e + 1
        else:
            k = j
            while k < cb:
                if mask[k] in '([{':
                    k = match_close(mask, k)
                elif mask[k] == ',':
                    break
                k += 1
            bs, be = j, k
        mg = re.search(r'attribute::([A-Z_0-9]+)', guard)
        out.append((mg.group(1) if mg else '_', '!interests' in guard, body[bs:be], s.line_of(f['open'] + bs)))
        i = k + 1
    return out


def beta_read_vec(u, body):
    """`reader.read_vec(|r| SIZE, |r| ELEM)` -> the body of ClassRead::read_vec (cut from duke/src/lib.rs) with get_size(self) / get_element(self) replaced by the closure bodies"""
    mask = code_mask(body)
    m = re.search(r'reader\.read_vec\(', mask)
    if not m:
        raise CutError('arm has no reader.read_vec(..) call any more')
    op = m.end() - 1
    cl = match_close(mask, op)
    args, depth, cur = [], 0, ''
    for ch, mc in zip(body[op + 1:cl], mask[op + 1:cl]):
        if mc in '([{':
            depth += 1
        elif mc in ')]}':
            depth -= 1
        if mc == ',' and depth == 0:
            args.append(cur)
            cur = ''
        else:
            cur += ch
    if cur.strip():
        args.append(cur)
    if len(args) != 2 or not all(re.match(r'\s*\|r\|', a) for a in args):
        raise CutError('read_vec call does not have the shape read_vec(|r| SIZE, |r| ELEMENT) any more')
    def no_comments(t):
        # the reduced call is put on one line: line comments inside the closure bodies have to go
        m_, out, i = code_mask(t), [], 0
        while i < len(t):
            if t.startswith('//', i) and m_[i:i + 2].strip() == '':
                j = t.find('\n', i)
                i = len(t) if j < 0 else j
                continue
            out.append(t[i])
            i += 1
        return ''.join(out)
    size_e, elem_e = (no_comments(re.sub(r'^\s*\|r\|\s*', '', a)).strip() for a in args)
    rv = u.src(LIB).cut_fn('read_vec')['body']
    if 'get_size(self)' not in rv or 'get_element(self)' not in rv:
        raise CutError('ClassRead::read_vec no longer has the shape get_size(self) / get_element(self)')
    rv = rv.replace('get_size(self)', '{ let r = &mut *reader; ' + size_e + ' }').replace('get_element(self)', '{ let r = &mut *reader; ' + elem_e + ' }')
    rv = re.sub(r'for _ in 0\.\.size', 'for _i in iter: 0..size', rv)
    rv = re.sub(r'\bOk\(vec\)', 'Ok::<Vec<_>, VErr>(vec)', rv)
    rv = ' '.join(rv.split())      # one line: the arm keeps its line count
    u.drop('reader.read_vec(|r| SIZE, |r| ELEMENT) beta-reduced: the body of ClassRead::read_vec (duke/src/lib.rs) with get_size(self) / get_element(self) replaced by the closure bodies, r bound to the reader')
    return body[:m.start()] + '(|| -> Result<Vec<_>, VErr> ' + rv + ')()' if False else body[:m.start()] + '{ let res_: Result<Vec<_>, VErr> = ' + rv + '; res_ }' + body[cl + 1:]


def build(u):
    u.preamble('common.rs')
    u.preamble('bytes.rs')
    u.preamble('rbytes.rs')
    add_classread(u, [], with_pos=False)
    opaque(u, [t for t in RA.OPAQUE if t not in ('EnclosingMethod', 'InnerClass', 'MethodParameter')] + ['MethodNameAndDesc', 'InnerClassFlags', 'ParameterFlags', 'ParameterName'])
    u.raw(RA.COMMON)
    u.item(T + 'method/code.rs', 'struct', 'Label', derives=['Copy', 'Clone', 'PartialEq', 'Eq'])
    u.item(T + 'method/code.rs', 'struct', 'Lv', derives=[])
    u.item(T + 'class.rs', 'struct', 'EnclosingMethod', derives=[])
    u.item(T + 'class.rs', 'struct', 'InnerClass', derives=[])
    u.item(T + 'method.rs', 'struct', 'MethodParameter', derives=[])
    ua_specs = dict(RA.UA_SPECS)
    ua_specs['read'] = ('res', ['res matches Ok(x) ==> x.src() == (Attribute { name: name, bytes: bytes })'])
    u.item(T + 'attribute.rs', 'struct', 'Attribute', derives=[]) if False else None
    spec_trait(u, V + 'attribute.rs', 'UnknownAttributeVisitor', RA.UA_GHOST.replace('spec fn src(&self) -> Attribute;', 'spec fn src_name(&self) -> JavaString;\n    spec fn src_bytes(&self) -> Seq<u8>;\n    spec fn src(&self) -> Attribute;'),
               {'from_attribute': RA.UA_SPECS['from_attribute'], 'read': ('res', ['res matches Ok(x) ==> x.src_name() == name && x.src_bytes() == bytes@'])})
    u.raw(RA.CEV)
    u.item(V + 'method/code.rs', 'struct', 'CodeInterests', derives=[])
    spec_trait(u, V + 'method/code.rs', 'CodeVisitor', RA.CODE_GHOST, RA.CODE_SPECS)
    for lv in ('method', 'field', 'component', 'klass'):
        RA.level_trait(u, RA.LEVELS[lv])
    u.raw(STUBS)
    first = True
    for lv in ('klass', 'field', 'method', 'component'):
        L = RA.LEVELS[lv]
        E, var, trait, tgt = L['ev'], VAR_OF[lv], L['trait'], L['target']
        for name, declined_guard, body, line in arms_of(u, FN_OF[lv]):
            if declined_guard:
                continue
            key = (lv, name)
            d0, p0 = 'old(reader).data()', 'old(reader).pos()'
            if key in VALUE:
                ev, n = VALUE[key]
                ev = ev.replace('{i}', IDX).replace('(d,', f'({d0},').replace('d.subrange', f'{d0}.subrange').replace(' p ', f' {p0} ').replace('(p,', f'({p0},').replace('p + ', f'{p0} + ').replace(', p)', f', {p0})')
                ens = [C(f'C01.arm.{lv}.{name}.delivers-the-value-at-its-jvms-offset', f'res matches Ok(v) ==> v.log() == visitor_in.log().push({ev})'),
                       C(f'C01.arm.{lv}.{name}.consumes-its-jvms-body', f'res.is_ok() ==> final(reader).pos() == {p0} + {n}')]
            elif name in ANNOT:
                kind, vis, items = ANNOT[name]
                items = items.replace('{tgt}', tgt).replace('(d, p,', f'({d0}, {p0},')
                ens = [C(f'C01.arm.{lv}.{name}.delivered-with-the-visibility-its-name-states', f'res matches Ok(v) ==> v.log() == visitor_in.log().push({E}::{kind}({vis})).push({E}::{kind}Items({items}))'),
                       C(f'C01.arm.{lv}.{name}.consumes-what-the-annotation-parser-consumed', f'res.is_ok() ==> final(reader).pos() == {p0} + sp_annotations_len({d0}, {p0}, *pool)')]
            elif name == '_':
                ens = [C(f'C01.arm.{lv}.unknown.delivered-byte-for-byte-under-its-own-name',
                         f'res matches Ok(v) ==> v.log().len() == visitor_in.log().len() + 1 && v.log().subrange(0, visitor_in.log().len() as int) == visitor_in.log() '
                         f'&& ({{ let a = v.log().last(); a is Unknown }})'),
                       C(f'C01.arm.{lv}.unknown.consumes-exactly-length-bytes', f'res.is_ok() ==> final(reader).pos() == {p0} + length as int')]
            elif key in VEC:
                evc, cw, ew, elem = VEC[key]
                body = beta_read_vec(u, body)
                idx = 'u16_at' if cw == 2 else 'u8_at'
                n = f'{idx}({d0}, {p0})'
                el = re.sub(r'\bq\b', f'{p0} + {cw} + {ew} * k', elem.replace('(d,', f'({d0},'))
                ens = [C(f'C01.arm.{lv}.{name}.delivers-one-event-with-exactly-the-listed-entries-in-order',
                         f'res matches Ok(x) ==> x.log().len() == visitor_in.log().len() + 1 && x.log().subrange(0, visitor_in.log().len() as int) == visitor_in.log() '
                         f'&& (x.log().last() matches {evc}(v) && v.len() == {n} && (forall|k: int| 0 <= k < v.len() ==> #[trigger] {el.replace("v[k]", "v[k]")}))'),
                       C(f'C01.arm.{lv}.{name}.consumes-count-and-entries', f'res.is_ok() ==> final(reader).pos() == {p0} + {cw} + {ew} * {n}')]
                vec_loop = dict(invariant=[C(f'C01.arm.{lv}.{name}.inv', f'reader.data() == {d0} && 0 <= {p0} && size as int == {n} && vec@.len() == iter.index@ && reader.pos() == {p0} + {cw} + {ew} * iter.index@ '
                                                                        f'&& (forall|k: int| 0 <= k < iter.index@ ==> #[trigger] {el.replace("v[k]", "vec@[k]")})')])
            else:
                continue    # Code, Record, Module, BootstrapMethods, InnerClasses, MethodParameters, flags: not in this unit
            fn = f'arm_{lv}_{name if name != "_" else "unknown"}'
            extra = dict(loops={0: vec_loop}) if key in VEC else {}
            u.fn(R, f'{FN_OF[lv]}::{fn}', ret='res', canary=first,
                 synth=dict(sig=f'pub fn {fn}<V: {trait}, Rd: ClassRead>(reader: &mut Rd, pool: &PoolRead, visitor_in: V, length: u32, attribute_name: &JavaString) -> Result<V>',
                            body='{ let mut ' + var + ' = visitor_in; ' + body + '; Ok(' + var + ') }', line=line),
                 requires=[f'0 <= {p0}'], **extra,
                 opt_rewrites=[(r'pool\.get_optional\(([^,]+),\s*PoolRead::get_method_name_and_type\)', r'pool.get_optional_method_name_and_type(\1)'),
                               (r'pool\.get_optional\(([^,]+),\s*PoolRead::get_class\)', r'pool.get_optional_class(\1)'), (r'pool\.get_optional\(([^,]+),\s*PoolRead::get_utf8\)', r'pool.get_optional_utf8(\1)'),
                               (r'(pool\.get_optional_utf8\(\w+\.read_u16\(\)\?\)\?)\.map\(\|x\| x\.try_into\(\)\)\.transpose\(\)\?', r'opt_try_into_parameter_name(\1)?')],
                 ensures=ens + [C(f'C01.arm.{lv}.{name if name != "_" else "unknown"}.data-untouched', f'final(reader).data() == {d0}')])
            first = False
    u.drop('interested attribute arms of read / read_field / read_method / read_record_component lifted to functions arm_<level>_<ATTRIBUTE>(reader, pool, visitor, length, attribute_name) '
           '{ let mut <visitor> = visitor_in; <arm body>; Ok(<visitor>) }')
