"""shared builder: the real `trait ClassWrite` of duke/src/lib.rs with contracts (default methods are verified),
plus the trusted sink `impl ClassWrite for Vec<u8>` standing in for the blanket `impl<T: Write> ClassWrite for T`."""
from vx.unit import C

LIB = 'duke/src/lib.rs'
TR = ('trait', 'ClassWrite')

POST_COMMON = [
    ('err-only-if-sink-fails', 'res.is_err() ==> !old(self).infallible()'),
    ('sink-kind-kept', 'final(self).infallible() == old(self).infallible()'),
]


def add_classwrite(u, props, with_usize=True):
    u.open_block('pub trait ClassWrite {\n    // ghost view of the sink (added; spec only)\n    spec fn bytes(&self) -> Seq<u8>;\n    spec fn infallible(&self) -> bool;')
    for ty, spec in [('u8', 'seq![a]'), ('u16', 'be16(value)'), ('u32', 'be32(value)'), ('u64', 'be64(value)'),
                     ('i8', 'be_i8(value)'), ('i16', 'be_i16(value)'), ('i32', 'be_i32(value)'), ('i64', 'be_i64(value)')]:
        rew = [] if ty == 'u8' else [(r'value\.to_be_bytes\(\)', f'to_be_bytes_{ty}(value)')]
        u.fn(LIB, f'ClassWrite::write_{ty}', container=TR, ret='res', props=props, rewrites=rew,
             ensures=[C(f'cw.write_{ty}.appends-big-endian', f'res.is_ok() ==> final(self).bytes() == old(self).bytes() + {spec}')]
             + [C(f'cw.write_{ty}.{n}', t) for n, t in POST_COMMON])
    if with_usize:
        for ty, mx, spec in [('u8', '0xff', 'seq![value as u8]'), ('u16', '0xffff', 'be16(value as u16)'), ('u32', '0xffff_ffff', 'be32(value as u32)')]:
            u.fn(LIB, f'ClassWrite::write_usize_as_{ty}', container=TR, ret='res', props=props,
                 ensures=[
                     C(f'cw.write_usize_as_{ty}.checked', f'value > {mx} ==> res.is_err() && final(self).bytes() == old(self).bytes()'),
                     C(f'cw.write_usize_as_{ty}.exact', f'res.is_ok() ==> value <= {mx} && final(self).bytes() == old(self).bytes() + {spec}'),
                     C(f'cw.write_usize_as_{ty}.err-cause', f'res.is_err() ==> value > {mx} || !old(self).infallible()'),
                     C(f'cw.write_usize_as_{ty}.sink-kind-kept', 'final(self).infallible() == old(self).infallible()'),
                 ])
    u.fn(LIB, 'ClassWrite::write_u8_slice', container=TR, ret='res', no_body=True, props=props,
         ensures=[C('assumed.cw.write_u8_slice.appends', 'res.is_ok() ==> final(self).bytes() == old(self).bytes() + buf@'),
                  C('assumed.cw.write_u8_slice.err', 'res.is_err() ==> !old(self).infallible() && final(self).bytes() == old(self).bytes()'),
                  C('assumed.cw.write_u8_slice.kind', 'final(self).infallible() == old(self).infallible()')])
    u.close_block()
    u.raw('''
// TRUSTED sink: `impl<T: std::io::Write> ClassWrite for T` of the repository is replaced, for T = Vec<u8>,
// by this body-less model: Vec<u8>::write_all appends the bytes and never fails.
impl ClassWrite for Vec<u8> {
    open spec fn bytes(&self) -> Seq<u8> { self@ }
    open spec fn infallible(&self) -> bool { true }
    #[verifier::external_body]
    fn write_u8_slice(&mut self, buf: &[u8]) -> (res: Result<(), VErr>) {
        self.extend_from_slice(buf);
        Ok(())
    }
}
''', trusted=['impl ClassWrite for Vec<u8>::write_u8_slice: std::io::Write::write_all on Vec<u8> appends exactly the given bytes and returns Ok (blanket impl<T: Write> not verified)'])
