"""cwrite -- primitive big-endian writers of trait ClassWrite (duke/src/lib.rs)"""
from vx.units._cwrite import add_classwrite

PROPS = ['C02']


def build(u):
    u.preamble('common.rs')
    u.preamble('bytes.rs')
    add_classwrite(u, PROPS)
    u.canary_raw('cwrite', '''
pub fn cwrite_canary_must_fail(w: &mut Vec<u8>) -> (res: Result<(), VErr>)
    ensures false,   // [canary]
{
    w.write_u16(7)?;
    w.write_usize_as_u8(300)
}
''')
