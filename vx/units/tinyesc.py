"""tinyesc -- the comment escaping of the Tiny v2 reader / writer (quill/src/tiny_v2.rs, fns `escape` and `unescape`; the same two functions serve the
.tinydiff format).

C03: "Writing any mapping set as Tiny v2 and reading the text back yields the same mapping set (... comments) ... multi-line comments".  A comment is the only
free text of the format; the writer puts `escape(comment)` on a line of its own and the reader applies `unescape` to the rest of the line.  Contract, for ALL strings:
  * escape(s) is the text the statement names (line break -> `\\n`, backslash -> `\\\\`, everything else itself: spec function `esc`), holds no line break
    (a comment never spills onto a second line) and unescape gives s back;
  * unescape(t) is `unesc(t)` (the left-to-right decoder: `\\n` a line break, `\\\\` a backslash, a backslash before anything else or at the end kept);
  * lemma: unesc(esc(s)) == s and esc(s) is one line, for every s (induction) -- so write -> read returns every comment, and esc(unesc(esc(s))) == esc(s)
    gives the fixed point of the statement for the comment column.

What the extraction changes (each rule is the definition of the std item it removes, stated as an assumption):
  * `String` / `&str` -> mirror `VString` (vector of chars: the functions look at chars only; `len()` is used for a capacity hint only);
    `Chars` -> slice + position;
  * `str::replace(char, &str)` -> verified mirror `VString::replace` with `ensures r@ == repl(..)` (every occurrence of the character, left to right, replaced by the string);
  * string literals -> `&VString { cp: vec![..] }` with the same characters;
  * `while let Some(c) = it.next() { B }` -> `loop { let c = match it.next() { Some(c) => c, None => break }; B }`."""
from vx.unit import C

PROPS = ['C03']
F = 'quill/src/tiny_v2.rs'

MIRROR = r'''
// TRUSTED MODEL of String / str as a vector of chars
pub struct VString { pub cp: Vec<char> }
pub struct VChars<'a> { pub data: &'a Vec<char>, pub pos: usize }
impl View for VString { type V = Seq<char>; open spec fn view(&self) -> Seq<char> { self.cp@ } }
pub open spec fn repl(s: Seq<char>, from: char, to: Seq<char>) -> Seq<char> decreases s.len() {
    if s.len() == 0 { Seq::empty() } else { (if s[0] == from { to } else { seq![s[0]] }) + repl(s.subrange(1, s.len() as int), from, to) }
}
impl VString {
    pub fn with_capacity(n: usize) -> (r: VString) ensures r@ == Seq::<char>::empty() { VString { cp: Vec::new() } }
    pub fn len(&self) -> (n: usize) { self.cp.len() }
    pub fn push(&mut self, c: char) ensures final(self)@ == old(self)@.push(c) { self.cp.push(c); }
    pub fn chars(&self) -> (r: VChars<'_>) ensures r.data@ == self@, r.pos == 0 { VChars { data: &self.cp, pos: 0 } }
    // str::replace(char, &str): every occurrence of the character, left to right, replaced by the string
    pub fn replace(&self, from: char, to: &VString) -> (r: VString) ensures r@ == repl(self@, from, to@)
    {
        let mut out = VString { cp: Vec::new() };
        let mut i: usize = 0;
        proof { assert(self@.subrange(0, self@.len() as int) =~= self@); assert(out@ + repl(self@, from, to@) =~= repl(self@, from, to@)); }
        while i < self.cp.len()
            invariant i <= self.cp.len(), out@ + repl(self@.subrange(i as int, self@.len() as int), from, to@) == repl(self@, from, to@),
            decreases self.cp.len() - i
        {
            let ghost rest = self@.subrange(i as int, self@.len() as int);
            assert(rest.subrange(1, rest.len() as int) =~= self@.subrange(i + 1, self@.len() as int));
            if self.cp[i] == from {
                let mut k: usize = 0;
                let ghost o0 = out@;
                while k < to.cp.len() invariant k <= to.cp.len(), out@ == o0 + to@.subrange(0, k as int), decreases to.cp.len() - k
                { out.cp.push(to.cp[k]); k += 1; }
                assert(to@.subrange(0, k as int) =~= to@);
                assert((o0 + to@) + repl(rest.subrange(1, rest.len() as int), from, to@) =~= o0 + (to@ + repl(rest.subrange(1, rest.len() as int), from, to@)));
            } else {
                let ghost o0 = out@;
                out.cp.push(self.cp[i]);
                assert(out@ =~= o0 + seq![rest[0]]);
                assert((o0 + seq![rest[0]]) + repl(rest.subrange(1, rest.len() as int), from, to@) =~= o0 + (seq![rest[0]] + repl(rest.subrange(1, rest.len() as int), from, to@)));
            }
            i += 1;
        }
        assert(self@.subrange(i as int, self@.len() as int).len() == 0);
        assert(out@ + Seq::<char>::empty() =~= out@);
        out
    }
}
impl<'a> VChars<'a> {
    pub open spec fn wf(&self) -> bool { self.pos <= self.data@.len() }
    pub fn next(&mut self) -> (r: Option<char>) requires old(self).wf()
        ensures final(self).wf(), final(self).data == old(self).data,
            r == (if old(self).pos < old(self).data@.len() { Some(old(self).data@[old(self).pos as int]) } else { None::<char> }),
            final(self).pos == (if old(self).pos < old(self).data@.len() { old(self).pos + 1 } else { old(self).pos as int }),
    { if self.pos < self.data.len() { let x = self.data[self.pos]; self.pos = self.pos + 1; Some(x) } else { None } }
}

// ---- the property's vocabulary: the escaping of a comment, written from the statement (line break <-> \n, backslash <-> \\)
pub open spec fn esc1(c: char) -> Seq<char> { if c == '\\' { seq!['\\', '\\'] } else if c == '\n' { seq!['\\', 'n'] } else { seq![c] } }
pub open spec fn esc(s: Seq<char>) -> Seq<char> decreases s.len() {
    if s.len() == 0 { Seq::empty() } else { esc1(s[0]) + esc(s.subrange(1, s.len() as int)) }
}
pub open spec fn unesc(s: Seq<char>) -> Seq<char> decreases s.len() {
    if s.len() == 0 { Seq::empty() }
    else if s[0] != '\\' { seq![s[0]] + unesc(s.subrange(1, s.len() as int)) }
    else if s.len() == 1 { seq!['\\'] }
    else if s[1] == 'n' { seq!['\n'] + unesc(s.subrange(2, s.len() as int)) }
    else if s[1] == '\\' { seq!['\\'] + unesc(s.subrange(2, s.len() as int)) }
    else { seq!['\\', s[1]] + unesc(s.subrange(2, s.len() as int)) }
}
pub open spec fn one_line(s: Seq<char>) -> bool { forall|i: int| 0 <= i < s.len() ==> s[i] != '\n' }

'''

LEMMAS = r'''
pub proof fn lemma_repl_no_from(s: Seq<char>, from: char, to: Seq<char>)
    requires forall|i: int| 0 <= i < s.len() ==> s[i] != from
    ensures repl(s, from, to) == s
    decreases s.len()
{
    if s.len() > 0 { lemma_repl_no_from(s.subrange(1, s.len() as int), from, to); assert(seq![s[0]] + s.subrange(1, s.len() as int) =~= s); }
    else { assert(s =~= Seq::<char>::empty()); }
}
pub proof fn lemma_repl_concat(x: Seq<char>, y: Seq<char>, from: char, to: Seq<char>)
    ensures repl(x + y, from, to) == repl(x, from, to) + repl(y, from, to)
    decreases x.len()
{
    if x.len() == 0 { assert(x + y =~= y); assert(repl(x, from, to) + repl(y, from, to) =~= repl(y, from, to)); }
    else {
        let xs = x.subrange(1, x.len() as int);
        lemma_repl_concat(xs, y, from, to);
        assert((x + y).subrange(1, (x + y).len() as int) =~= xs + y);
        assert((x + y)[0] == x[0]);
        let h = if x[0] == from { to } else { seq![x[0]] };
        assert(h + (repl(xs, from, to) + repl(y, from, to)) =~= (h + repl(xs, from, to)) + repl(y, from, to));
    }
}
// the two replace calls of `escape` compute esc
pub proof fn lemma_two_replaces(s: Seq<char>)
    ensures repl(repl(s, '\\', seq!['\\', '\\']), '\n', seq!['\\', 'n']) == esc(s)
    decreases s.len()
{
    let bb = seq!['\\', '\\']; let bn = seq!['\\', 'n'];
    if s.len() == 0 { } else {
        let rest = s.subrange(1, s.len() as int);
        lemma_two_replaces(rest);
        let h = if s[0] == '\\' { bb } else { seq![s[0]] };
        assert(repl(s, '\\', bb) == h + repl(rest, '\\', bb));
        lemma_repl_concat(h, repl(rest, '\\', bb), '\n', bn);
        // repl(h, '\n', bn) == esc1(s[0])
        if s[0] == '\\' { lemma_repl_no_from(bb, '\n', bn); }
        else if s[0] == '\n' {
            let o = seq!['\n'];
            assert(o.subrange(1, 1) =~= Seq::<char>::empty());
            assert(o[0] == '\n');
            assert(repl(o.subrange(1, 1), '\n', bn) =~= Seq::<char>::empty());
            assert(repl(o, '\n', bn) =~= bn + Seq::<char>::empty());
            assert(bn + Seq::<char>::empty() =~= bn);
        } else { lemma_repl_no_from(seq![s[0]], '\n', bn); }
    }
}
pub proof fn lemma_unesc_esc(s: Seq<char>)
    ensures unesc(esc(s)) == s, one_line(esc(s))
    decreases s.len()
{
    if s.len() == 0 { assert(s =~= Seq::<char>::empty()); } else {
        let rest = s.subrange(1, s.len() as int);
        lemma_unesc_esc(rest);
        let e = esc(s);
        assert(e == esc1(s[0]) + esc(rest));
        if s[0] == '\\' || s[0] == '\n' {
            assert(e.subrange(2, e.len() as int) =~= esc(rest));
            assert(e[0] == '\\');
        } else {
            assert(e.subrange(1, e.len() as int) =~= esc(rest));
            assert(e[0] == s[0]);
        }
        assert(seq![s[0]] + rest =~= s);
        assert forall|i: int| 0 <= i < e.len() implies e[i] != '\n' by {
            let l = esc1(s[0]).len();
            if i >= l { assert(e[i] == esc(rest)[i - l]); }
        }
    }
}

'''


def _lit(m):
    """a string literal -> &VString { cp: vec![its characters] }"""
    s = m.group(1)
    chars, i = [], 0
    while i < len(s):
        if s[i] == '\\':
            chars.append(s[i:i + 2])
            i += 2
        else:
            chars.append(s[i])
            i += 1
    return '&VString { cp: vec![' + ', '.join("'" + c + "'" for c in chars) + '] }'


WHILE_LET = (r'while let Some\((\w+)\) = (\w+)\.next\(\) \{', r'loop { let \1 = match \2.next() { Some(\1) => \1, None => break };')
REST = 's@.subrange(chars.pos as int, s@.len() as int)'


def build(u):
    import re
    u.preamble('common.rs')
    u.raw(MIRROR, trusted=['VString / VChars model String / str / Chars as a vector of chars (push, chars, next, with_capacity); VString::replace models str::replace(char, &str) '
                           '(verified against the specification function repl: every occurrence, left to right)'])
    parts = re.split(r'(?=^pub proof fn )', LEMMAS, flags=re.M)
    labels = {'lemma_repl_no_from': 'C03.lemma.replace-without-occurrence-is-identity', 'lemma_repl_concat': 'C03.lemma.replace-distributes-over-concatenation',
              'lemma_two_replaces': 'C03.lemma.the-two-replace-calls-compute-the-escaping', 'lemma_unesc_esc': 'C03.lemma.unescape-inverts-escape-and-escaped-text-is-one-line'}
    for p in parts:
        m = re.search(r'pub proof fn (\w+)', p)
        if m:
            u.lemma(labels[m.group(1)], p)
    u.fn(F, 'unescape', ret='out', canary=True, proof_label='C03.unescape.inv.output-so-far-plus-decoding-of-the-rest-is-the-decoding-of-the-whole',
         sig_rewrites=[(r'\bString\b', 'VString')],
         rewrites=[(r'\bString::with_capacity', 'VString::with_capacity'), WHILE_LET],
         proof_before=[(r'^\t\t\tcontinue;', f'            proof {{ assert(rest.subrange(1, rest.len() as int) =~= {REST}); '
                                             'assert(o0.push(c) + unesc(rest.subrange(1, rest.len() as int)) =~= o0 + (seq![c] + unesc(rest.subrange(1, rest.len() as int)))); }')],
         loops={0: dict(before=f'proof {{ assert(s@.subrange(0, s@.len() as int) =~= s@); assert(out@ + unesc(s@) =~= unesc(s@)); }}',
                        invariant=[C('C03.unescape.inv.output-so-far-plus-decoding-of-the-rest-is-the-decoding-of-the-whole',
                                     f'chars.wf() && chars.data@ == s@ && out@ + unesc({REST}) == unesc(s@)')],
                        ensures=[C('C03.unescape.inv.left-at-the-end-of-the-text', 'chars.pos == s@.len()')],
                        decreases='s@.len() - chars.pos',
                        body_start=f'let ghost rest = {REST}; let ghost o0 = out@;',
                        body_end='''proof {
            if rest.len() >= 2 {
                let r2 = rest.subrange(2, rest.len() as int);
                assert(r2 =~= ''' + REST + ''');
                if rest[1] == 'n' { assert(o0.push('\\n') + unesc(r2) =~= o0 + (seq!['\\n'] + unesc(r2))); }
                else if rest[1] == '\\\\' { assert(o0.push('\\\\') + unesc(r2) =~= o0 + (seq!['\\\\'] + unesc(r2))); }
                else { assert(o0.push('\\\\').push(rest[1]) + unesc(r2) =~= o0 + (seq!['\\\\', rest[1]] + unesc(r2))); }
            } else {
                assert(o0.push('\\\\') + Seq::<char>::empty() =~= o0 + seq!['\\\\']);
            }
        }''',
                        after='proof { assert(out@ + Seq::<char>::empty() =~= out@); }')},
         ensures=[C('C03.unescape.decodes-left-to-right', 'out@ == unesc(s@)')])
    u.fn(F, 'escape', ret='r', canary=True,
         sig_rewrites=[(r'&str\b', '&VString'), (r'\bString\b', 'VString')],
         rewrites=[(r'"((?:\\.|[^"\\])*)"', _lit)],
         head_proof='proof { lemma_two_replaces(s@); lemma_unesc_esc(s@); }',
         ensures=[C('C03.escape.is-the-escaping-of-the-statement', 'r@ == esc(s@)'),
                  C('C03.escape.fits-on-one-line', 'one_line(r@)'),
                  C('C03.escape.unescape-gives-the-comment-back', 'unesc(r@) == s@')])
