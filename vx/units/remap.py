"""remap -- the structural remapping traversal of dukebox (dukebox/src/remap.rs `impl Mappable / MappableWithClassName for ...`).

C07: "after remapping, every class, field and method reference anywhere in every class ... is what the remapper answers for the original
reference ... all non-name content (flags, instruction stream shape, constants, line numbers) is unchanged".  Per impl, that is a
postcondition over the fields of the value it returns, generated from a *type table* written from the property statement:

  * a field (or enum payload) whose type carries references (REF below, through Option / Vec) must hold the remapped value of the input's
    field -- `sp_remap(x, r)` (or `sp_remap_wc(x, r, class)` for the types that are remapped relative to their class);
  * every other field must be unchanged; nothing may be dropped;
  * the leaves are the remapper's own answers: ClassName -> map_class_any, ObjClassName -> map_class, FieldRef -> map_field_ref,
    MethodRef -> map_method_ref, FieldDescriptor / MethodDescriptor -> map_field_desc / map_method_desc, Class element values -> map_return_desc;
    a Field / Method gets the name and descriptor `map_field` / `map_method` answer for (its class, its name, its descriptor).

One clause per field / variant, so that a finding on one field does not hide another.  `sp_remap` is uninterpreted: what it *is* for a
composite type is fixed by that type's own verified impl; that `Option<T>` / `Vec<T>` map element-wise is assumed (their blanket impls use
closures / iterator adapters).  Extraction: each `impl Mappable.. for X { fn remap.. }` is emitted as an inherent `impl X { fn remap_impl }`;
`.remap(..)` / `.remap_with_class_name(..)` calls on components resolve to a blanket stub trait with the contract `== sp_remap(..)`;
`(&x).remap(r)` / `x.as_ref().remap(r)` -> `x.remap_ref(r)` (same contract on a borrowed value); `eprintln!` / `todo!` removed."""
import re

from vx.unit import C
from vx.rustcut import CutError, code_mask, match_close, replace_macro_calls
from vx.units._visit import opaque
from vx.units.rtree import struct_fields

PROPS = ['C07']
RLIMIT = 50
RM = 'dukebox/src/remap.rs'
T = 'duke/src/tree/'

# types that carry class / field / method references (C07: "declarations, super types, instructions, constant handles, bootstrap arguments,
# exception tables, stack-map types, annotations, inner-class/enclosing-method/nest records, descriptors of locals")
REF = {'ClassName', 'ObjClassName', 'FieldDescriptor', 'MethodDescriptor', 'ReturnDescriptor', 'FieldRef', 'MethodRef', 'ClassSignature', 'FieldSignature',
       'MethodSignature', 'InnerClass', 'EnclosingMethod', 'Annotation', 'TypeAnnotation', 'ElementValuePair', 'ElementValue', 'Code', 'InstructionListEntry',
       'Instruction', 'StackMapData', 'VerificationTypeInfo', 'Loadable', 'Handle', 'ConstantDynamic', 'InvokeDynamic', 'Exception', 'Lv', 'Field', 'Method',
       'RecordComponent', 'Module', 'PackageName', 'MethodParameter'}
# remapped relative to the class they belong to
WC = {'Field', 'Method', 'Code', 'InstructionListEntry', 'Instruction', 'Loadable', 'ConstantDynamic', 'InvokeDynamic'}
OPAQUE = ['ClassName', 'ObjClassName', 'FieldDescriptor', 'MethodDescriptor', 'ReturnDescriptor', 'ClassSignature', 'FieldSignature', 'MethodSignature', 'JavaString',
          'FieldName', 'MethodName', 'RecordName', 'LocalVariableName', 'ParameterName', 'ParameterFlags', 'FieldAccess', 'MethodAccess', 'ClassAccess', 'InnerClassFlags', 'Version',
          'ConstantValue', 'Module', 'PackageName', 'RecordComponent', 'Attribute', 'TypePath', 'LabelRange', 'LvIndex', 'Object', 'ArrayType',
          'TargetInfoClass', 'TargetInfoField', 'TargetInfoMethod', 'TargetInfoCode', 'VRemapper']

STUBS = r'''
// TRUSTED: VRemapper stands for `impl BRemapper`: its answers are functions of (remapper, reference); sp_remap / sp_remap_wc: "the remapped value" of a component (uninterpreted; fixed per type by that type's own impl); the blanket impls for Option<T> / Vec<T> / &T are assumed to map element-wise
pub uninterp spec fn sp_remap<T>(x: T, r: VRemapper) -> T;
pub uninterp spec fn sp_remap_wc<T>(x: T, r: VRemapper, class: ObjClassName) -> T;
pub uninterp spec fn sp_map_class_any(r: VRemapper, c: ClassName) -> ClassName;
pub uninterp spec fn sp_map_class(r: VRemapper, c: ObjClassName) -> ObjClassName;
pub uninterp spec fn sp_map_field(r: VRemapper, class: ObjClassName, name: FieldName, desc: FieldDescriptor) -> FieldNameAndDesc;
pub uninterp spec fn sp_map_method(r: VRemapper, class: ObjClassName, name: MethodName, desc: MethodDescriptor) -> MethodNameAndDesc;
pub uninterp spec fn sp_map_field_ref(r: VRemapper, f: FieldRef) -> FieldRef;
pub uninterp spec fn sp_map_method_ref(r: VRemapper, m: MethodRef) -> MethodRef;
pub uninterp spec fn sp_map_field_desc(r: VRemapper, d: FieldDescriptor) -> FieldDescriptor;
pub uninterp spec fn sp_map_method_desc(r: VRemapper, d: MethodDescriptor) -> MethodDescriptor;
pub uninterp spec fn sp_map_return_desc(r: VRemapper, d: ReturnDescriptor) -> ReturnDescriptor;
pub uninterp spec fn sp_map_class_signature(r: VRemapper, s: ClassSignature) -> ClassSignature;
pub uninterp spec fn sp_map_field_signature(r: VRemapper, s: FieldSignature) -> FieldSignature;
pub uninterp spec fn sp_map_method_signature(r: VRemapper, s: MethodSignature) -> MethodSignature;
impl VRemapper {
    #[verifier::external_body] pub fn map_class_any(&self, c: &ClassName) -> (res: Result<ClassName, VErr>) ensures res matches Ok(o) ==> o == sp_map_class_any(*self, *c) { unimplemented!() }
    #[verifier::external_body] pub fn map_class(&self, c: &ObjClassName) -> (res: Result<ObjClassName, VErr>) ensures res matches Ok(o) ==> o == sp_map_class(*self, *c) { unimplemented!() }
    #[verifier::external_body] pub fn map_field(&self, class: &ObjClassName, name: &FieldName, desc: &FieldDescriptor) -> (res: Result<FieldNameAndDesc, VErr>) ensures res matches Ok(o) ==> o == sp_map_field(*self, *class, *name, *desc) { unimplemented!() }
    #[verifier::external_body] pub fn map_method(&self, class: &ObjClassName, name: &MethodName, desc: &MethodDescriptor) -> (res: Result<MethodNameAndDesc, VErr>) ensures res matches Ok(o) ==> o == sp_map_method(*self, *class, *name, *desc) { unimplemented!() }
    #[verifier::external_body] pub fn map_field_ref(&self, f: &FieldRef) -> (res: Result<FieldRef, VErr>) ensures res matches Ok(o) ==> o == sp_map_field_ref(*self, *f) { unimplemented!() }
    #[verifier::external_body] pub fn map_method_ref(&self, m: &MethodRef) -> (res: Result<MethodRef, VErr>) ensures res matches Ok(o) ==> o == sp_map_method_ref(*self, *m) { unimplemented!() }
    #[verifier::external_body] pub fn map_field_desc(&self, d: &FieldDescriptor) -> (res: Result<FieldDescriptor, VErr>) ensures res matches Ok(o) ==> o == sp_map_field_desc(*self, *d) { unimplemented!() }
    #[verifier::external_body] pub fn map_method_desc(&self, d: &MethodDescriptor) -> (res: Result<MethodDescriptor, VErr>) ensures res matches Ok(o) ==> o == sp_map_method_desc(*self, *d) { unimplemented!() }
    #[verifier::external_body] pub fn map_return_desc(&self, d: &ReturnDescriptor) -> (res: Result<ReturnDescriptor, VErr>) ensures res matches Ok(o) ==> o == sp_map_return_desc(*self, *d) { unimplemented!() }
    // the rest of the BRemapper API, so that a traversal rewritten in terms of them is still decided by its postcondition (unit remapapi verifies these default methods)
    #[verifier::external_body] pub fn map_method_name_and_desc(&self, class: &ObjClassName, m: &MethodNameAndDesc) -> (res: Result<MethodNameAndDesc, VErr>) ensures res matches Ok(o) ==> o == sp_map_method(*self, *class, m.name, m.desc) { unimplemented!() }
}
pub uninterp spec fn sp_as_obj(c: ClassName) -> Option<ObjClassName>;
impl ClassName {
    #[verifier::external_body] pub fn as_obj(&self) -> (r: Option<&ObjClassName>)
        ensures (r matches Some(o) ==> sp_as_obj(*self) == Some(*o)), (r is None ==> sp_as_obj(*self) is None) { unimplemented!() }
}
#[verifier::external_body] pub fn vtodo<T>() -> T requires false { unimplemented!() }
pub trait RemapAny: Sized {
    fn remap(self, remapper: &VRemapper) -> (res: Result<Self, VErr>) ensures res matches Ok(o) ==> o == sp_remap(self, *remapper);
    fn remap_ref(&self, remapper: &VRemapper) -> (res: Result<Self, VErr>) ensures res matches Ok(o) ==> o == sp_remap(*self, *remapper);
    fn remap_with_class_name(self, remapper: &VRemapper, this_class: &ObjClassName) -> (res: Result<Self, VErr>) ensures res matches Ok(o) ==> o == sp_remap_wc(self, *remapper, *this_class);
}
impl<T> RemapAny for T {
    #[verifier::external_body] fn remap(self, remapper: &VRemapper) -> (res: Result<Self, VErr>) { unimplemented!() }
    #[verifier::external_body] fn remap_ref(&self, remapper: &VRemapper) -> (res: Result<Self, VErr>) { unimplemented!() }
    #[verifier::external_body] fn remap_with_class_name(self, remapper: &VRemapper, this_class: &ObjClassName) -> (res: Result<Self, VErr>) { unimplemented!() }
}
'''


def base_type(ty):
    ty = ty.strip()
    while True:
        m = re.match(r'^(?:Option|Vec)<(.*)>$', ty)
        if not m:
            break
        ty = m.group(1).strip()
    return re.sub(r'<.*$', '', ty)


def expected(expr, ty, cls):
    b = base_type(ty)
    if b in WC:
        return f'sp_remap_wc({expr}, *remapper, {cls})'
    if b in REF:
        return f'sp_remap({expr}, *remapper)'
    return expr


def clean(u, key):
    def tr(body):
        n0 = body.count('\n')
        body, a = replace_macro_calls(body, 'eprintln', '()')
        body, b = replace_macro_calls(body, 'todo', 'vtodo()')
        u.drop(f'fn {key}: eprintln!(..) -> (); todo!(..) -> vtodo() (requires false: must be unreachable)', a + b)
        body = re.sub(r'\(&([\w.]+)\)\.remap\(', r'\1.remap_ref(', body)
        body = re.sub(r'\.as_ref\(\)\.remap\(', '.remap_ref(', body)
        assert body.count('\n') == n0
        return body
    return tr


def impl_fn(u, trait_re, ty, key, meth, ensures, impl_header=None, sig_rewrites=(), extra_rewrites=(), canary=False, props=None):
    u.fn(RM, f'{key}::{meth}', impl=rf'{trait_re}\s+for\s+{ty}', impl_header=impl_header or f'impl {key}', rename=meth + '_impl', ret='res', canary=canary,
         sig_rewrites=[(r'&impl BRemapper', '&VRemapper')] + list(sig_rewrites), transform=clean(u, key), opt_rewrites=list(extra_rewrites),
         ensures=[C(f'C07.{key}.{k}', t) for k, t in ensures])


def struct_impl(u, name, relpath, wc, special=None, skip=(), generic=''):
    """impl for a struct built by a literal: one clause per field"""
    fields = struct_fields(u, relpath, name)
    cls = '*this_class' if wc else None
    ens = []
    for f, ty in fields:
        if f in skip:
            continue
        if special and f in special:
            ens.append((f, 'res matches Ok(o) ==> ' + special[f]))
            continue
        c = cls if cls else ('self.name' if name == 'ClassFile' else None)
        want = expected(f'self.{f}', ty, c)
        kind = 'is-the-remapped-value' if want != f'self.{f}' else 'is-unchanged'
        ens.append((f'{f}.{kind}', f'res matches Ok(o) ==> o.{f} == {want}'))
    trait_re = 'MappableWithClassName' if wc else r'Mappable'
    meth = 'remap_with_class_name' if wc else 'remap'
    impl_fn(u, trait_re, re.escape(name) + (r'<T>' if generic else ''), name, meth, ens, impl_header=f'impl{generic} {name}{generic}', canary=(name == 'Field'))


def enum_variants(u, relpath, name):
    s = u.src(relpath)
    it = s.cut_item('enum', name)
    body = it['text'][it['text'].index('{') + 1:it['text'].rindex('}')]
    body = re.sub(r'//[^\n]*', '', body)
    body = re.sub(r'/\*.*?\*/', '', body, flags=re.S)
    out, i, mask = [], 0, code_mask(body)
    for m in re.finditer(r'(?:^|,)\s*([A-Z]\w*)\s*(\(|\{|,|$)', mask, re.M):
        pass
    # simple scanner: identifiers at depth 0
    depth, tok, k = 0, '', 0
    items = []
    cur = ''
    for ch in body:
        if ch in '({':
            depth += 1
        elif ch in ')}':
            depth -= 1
        if ch == ',' and depth == 0:
            items.append(cur.strip())
            cur = ''
        else:
            cur += ch
    if cur.strip():
        items.append(cur.strip())
    for itx in items:
        itx = re.sub(r'#\[[^\]]*\]', '', itx).strip()
        m = re.match(r'^(\w+)\s*(?:\((.*)\)|\{(.*)\})?$', itx, re.S)
        if not m:
            raise CutError(f'{relpath}: enum {name}: cannot parse variant `{itx[:40]}`')
        vname, tup, rec = m.group(1), m.group(2), m.group(3)
        if tup is not None:
            out.append((vname, 'tuple', [(None, x.strip()) for x in split_top(tup)]))
        elif rec is not None:
            out.append((vname, 'record', [tuple(y.strip() for y in x.split(':', 1)) for x in split_top(rec) if x.strip()]))
        else:
            out.append((vname, 'unit', []))
    return out


def split_top(s):
    parts, depth, cur = [], 0, ''
    for ch in s:
        if ch in '<({':
            depth += 1
        elif ch in '>)}':
            depth -= 1
        if ch == ',' and depth == 0:
            parts.append(cur)
            cur = ''
        else:
            cur += ch
    if cur.strip():
        parts.append(cur)
    return parts


def enum_impl(u, name, relpath, wc, special=None):
    """impl for an enum: one clause per variant with a reference-carrying payload, one clause for all the others (unchanged)"""
    vs = enum_variants(u, relpath, name)
    cls = '*this_class' if wc else None
    ens, plain = [], []
    for v, kind, fs in vs:
        if special and v in special:
            ens.append((v, 'res matches Ok(o) ==> ' + special[v]))
            continue
        if not any(base_type(t) in REF for _, t in fs):
            plain.append(v)
            continue
        if kind == 'tuple':
            bs = [f'a{i}' for i in range(len(fs))]
            pat = f'{name}::{v}(' + ', '.join(bs) + ')'
            want = f'{name}::{v}(' + ', '.join(expected(b, t, cls) for b, (_, t) in zip(bs, fs)) + ')'
        else:
            bs = [f for f, _ in fs]
            pat = f'{name}::{v} {{ ' + ', '.join(bs) + ' }'
            want = f'{name}::{v} {{ ' + ', '.join(f'{f}: ' + expected(f, t, cls) for f, t in fs) + ' }'
        ens.append((f'{v}.references-are-remapped', f'res matches Ok(o) ==> (self matches {pat} ==> o == {want})'))
    if plain:
        cond = ' || '.join(f'self is {v}' for v in plain)
        ens.append(('variants-without-references-are-unchanged', f'res matches Ok(o) ==> (({cond}) ==> o == self)'))
    trait_re = 'MappableWithClassName' if wc else r'Mappable'
    impl_fn(u, trait_re, re.escape(name), name, 'remap_with_class_name' if wc else 'remap', ens)


def build(u):
    u.preamble('common.rs')
    opaque(u, OPAQUE)
    u.raw('#[verifier::external_body] #[verifier::accept_recursive_types(T)] pub struct TypeAnnotationTarget<T> { _p: core::marker::PhantomData<T> }\n')
    # ---- tree types (real definitions, payload name types opaque)
    u.item(T + 'method/code.rs', 'struct', 'Label', derives=['Copy', 'Clone', 'PartialEq', 'Eq'])
    for f, kind, n in ((T + 'field.rs', 'struct', 'FieldRef'), (T + 'field.rs', 'struct', 'FieldNameAndDesc'), (T + 'method.rs', 'struct', 'MethodRef'),
                       (T + 'method.rs', 'struct', 'MethodNameAndDesc'), (T + 'method.rs', 'struct', 'MethodParameter'),
                       (T + 'class.rs', 'struct', 'InnerClass'), (T + 'class.rs', 'struct', 'EnclosingMethod'),
                       (T + 'annotation.rs', 'struct', 'Annotation'), (T + 'annotation.rs', 'struct', 'ElementValuePair'), (T + 'annotation.rs', 'enum', 'ElementValue'),
                       (T + 'type_annotation.rs', 'struct', 'TypeAnnotation'),
                       ('duke/src/visitor/method/code.rs', 'enum', 'VerificationTypeInfo'), ('duke/src/visitor/method/code.rs', 'enum', 'StackMapData'),
                       (T + 'method/code.rs', 'enum', 'Handle'), (T + 'method/code.rs', 'struct', 'ConstantDynamic'), (T + 'method/code.rs', 'struct', 'InvokeDynamic'),
                       (T + 'method/code.rs', 'enum', 'Loadable'), (T + 'method/code.rs', 'enum', 'Instruction'), (T + 'method/code.rs', 'struct', 'Exception'),
                       (T + 'method/code.rs', 'struct', 'Lv'), (T + 'method/code.rs', 'struct', 'InstructionListEntry'), (T + 'method/code.rs', 'struct', 'Code'),
                       (T + 'method.rs', 'struct', 'Method'), (T + 'field.rs', 'struct', 'Field'), (T + 'class.rs', 'struct', 'ClassFile')):
        u.item(f, kind, n, derives=[])
    u.raw(STUBS)
    u.raw('impl MethodNameAndDesc { pub fn with_class(self, class: ClassName) -> (r: MethodRef) ensures r.class == class && r.name == self.name && r.desc == self.desc { MethodRef { class, name: self.name, desc: self.desc } } }\n')
    u.drop('MethodNameAndDesc::with_class restated with its contract (three field moves)')
    # ---- leaves
    impl_fn(u, r'Mappable<ClassName>', r'&ClassName', 'ClassName', 'remap', [('is-what-the-remapper-answers', 'res matches Ok(o) ==> o == sp_map_class_any(*remapper, *self)')], sig_rewrites=[(r'\(self,', '(&self,')])
    impl_fn(u, r'Mappable<ObjClassName>', r'&ObjClassName', 'ObjClassName', 'remap', [('is-what-the-remapper-answers', 'res matches Ok(o) ==> o == sp_map_class(*remapper, *self)')], sig_rewrites=[(r'\(self,', '(&self,')])
    for ty, sp in (('FieldRef', 'sp_map_field_ref'), ('MethodRef', 'sp_map_method_ref'), ('FieldDescriptor', 'sp_map_field_desc'), ('MethodDescriptor', 'sp_map_method_desc'),
                   ('ClassSignature', 'sp_map_class_signature'), ('FieldSignature', 'sp_map_field_signature'), ('MethodSignature', 'sp_map_method_signature')):
        impl_fn(u, r'Mappable', ty, ty, 'remap', [('is-what-the-remapper-answers', f'res matches Ok(o) ==> o == {sp}(*remapper, self)')])
    # ---- structs
    nd = lambda kind: {'name': f'o.name == sp_map_{kind}(*remapper, *this_class, self.name, self.descriptor).name',
                       'descriptor': f'o.descriptor == sp_map_{kind}(*remapper, *this_class, self.name, self.descriptor).desc'}
    struct_impl(u, 'Field', T + 'field.rs', True, special=nd('field'))
    struct_impl(u, 'Method', T + 'method.rs', True, special=nd('method'))
    struct_impl(u, 'ClassFile', T + 'class.rs', False, special={'name': 'o.name == sp_remap(self.name, *remapper)'})
    struct_impl(u, 'Code', T + 'method/code.rs', True)
    struct_impl(u, 'InstructionListEntry', T + 'method/code.rs', True)
    struct_impl(u, 'Exception', T + 'method/code.rs', False)
    struct_impl(u, 'Lv', T + 'method/code.rs', False)
    struct_impl(u, 'ConstantDynamic', T + 'method/code.rs', True)
    struct_impl(u, 'InvokeDynamic', T + 'method/code.rs', True)
    struct_impl(u, 'Annotation', T + 'annotation.rs', False)
    struct_impl(u, 'ElementValuePair', T + 'annotation.rs', False)
    struct_impl(u, 'TypeAnnotation', T + 'type_annotation.rs', False, generic='<T>')
    struct_impl(u, 'MethodParameter', T + 'method.rs', False)
    impl_fn(u, 'Mappable', 'EnclosingMethod', 'EnclosingMethod', 'remap', [
        ('with-method.class-and-method-are-the-remapped-method-reference',
         'res matches Ok(o) ==> (self.method matches Some(m) ==> ({ let mr = sp_map_method_ref(*remapper, MethodRef { class: self.class, name: m.name, desc: m.desc }); '
         'o.class == mr.class && o.method is Some && o.method.unwrap().name == mr.name && o.method.unwrap().desc == mr.desc }))'),
        ('without-method.class-is-remapped', 'res matches Ok(o) ==> (self.method is None ==> o.class == sp_map_class_any(*remapper, self.class) && o.method is None)')])
    # ---- enums
    enum_impl(u, 'VerificationTypeInfo', 'duke/src/visitor/method/code.rs', False)
    enum_impl(u, 'StackMapData', 'duke/src/visitor/method/code.rs', False)
    enum_impl(u, 'Handle', T + 'method/code.rs', False)
    enum_impl(u, 'Loadable', T + 'method/code.rs', True)
    enum_impl(u, 'Instruction', T + 'method/code.rs', True)
    enum_impl(u, 'ElementValue', T + 'annotation.rs', False, special={
        'Class': '(self matches ElementValue::Class(a0) ==> o == ElementValue::Class(sp_map_return_desc(*remapper, a0)))',
        'Enum': '(self matches ElementValue::Enum { type_name, const_name } ==> (o is Enum && o->type_name == sp_remap(type_name, *remapper)))'})
