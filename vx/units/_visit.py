"""shared builder: duke's visitor traits (duke/src/visitor/*.rs) cut whole, with a ghost event log added.

The traits are declarations only, so nothing is verified *in* them: every `ensures` added here is an assumed contract that defines the
ghost observation device "what did this visitor receive, in which order": `log()` grows by exactly one event per visit call, carrying the
arguments of the call.  The replay functions (`accept`) and the delivering tail of the reader are then verified against a specification of
the log they have to produce.  A real visitor implementation is free to do anything; the log is the sequence of calls made on it."""
import re

from vx.rustcut import CutError, code_mask, match_close


def spec_trait(u, relpath, name, ghost, specs, rewrites=()):
    """cut `trait name`, insert the ghost declarations, attach `ensures` to the listed methods.
    specs: {method: (ret_name or None, [ensures clause, ..])}"""
    s = u.src(relpath)
    it = s.cut_item('trait', name)
    text = u.common_rewrites(it['text'])
    for pat, rep in rewrites:
        text, n = re.subn(pat, rep, text)
        if n == 0:
            raise CutError(f'{relpath}: trait {name}: rewrite /{pat}/ no longer matches')
    if not text.lstrip().startswith('pub'):
        text = 'pub ' + text.lstrip()
    for meth, (ret, ens) in specs.items():
        mask = code_mask(text)
        m = re.search(r'\bfn\s+' + re.escape(meth) + r'\b', mask)
        if not m:
            raise CutError(f'{relpath}: trait {name}: method {meth} not found')
        i = m.end()
        while mask[i] not in ';{':
            if mask[i] in '([':
                i = match_close(mask, i)
            i += 1
        sig = text[m.start():i]
        if ret:
            a = code_mask(sig).rfind('->')
            if a < 0:
                raise CutError(f'{relpath}: trait {name}: method {meth} has no return type')
            sig = sig[:a] + f'-> ({ret}: ' + sig[a + 2:].strip() + ')'
        contract = '\n        ensures\n' + ''.join(f'            {e},\n' for e in ens)
        if mask[i] == ';':
            new = sig.rstrip() + contract + '    ;'
            end = i + 1
            pre = ''
        else:
            end = match_close(mask, i) + 1
            new = sig.rstrip() + contract + '    { unimplemented!() }'
            pre = '#[verifier::external_body] '
            u.trusted.append(f'default body of {name}::{meth} replaced by its assumed log contract')
        nl = '\n' * max(0, text[m.start():end].count('\n') - new.count('\n'))
        text = text[:m.start()] + pre + new + nl + text[end:]
    ob = code_mask(text).find('{')
    # skip a where-clause: the body brace is the first `{` at nesting level 0 after the header
    text = text[:ob + 1] + '\n' + ghost.rstrip('\n') + '\n' + text[ob + 1:]
    u.drop(f'trait {name}: ghost event log declarations and assumed per-method log contracts added (declarations only; no body is verified in the trait)')
    u.trusted.append(f'assumed log contracts on trait {name} (ghost observation device: one event per visit call)')
    u.segments.append((f'// <<< {relpath}:{it["start_line"]} trait {name}\n', None))
    u.segments.append((text + '\n', dict(file=relpath, line=None, fn=None)))


def opaque(u, names):
    u.raw(''.join(f'#[verifier::external_body] pub struct {t} {{ _p: () }}\n' for t in names))
