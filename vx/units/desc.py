"""desc -- the descriptor parsers and printers (duke/src/tree/descriptor.rs)

C18: "Parsing a field, method or return descriptor yields the type structure the JVMS grammar assigns to it and fails on every string
outside the grammar; printing a parsed descriptor reproduces the original string and parsing a printed one reproduces the structure."
C16: the descriptor parsers return a value or an error on arbitrary text (no overflow, no panic, termination).

The functions are cut verbatim.  `Peekable<java_string::Chars>`, `JavaString` and the string newtypes are replaced by mirrors over a vector
of code points (vx/preamble/desc.rs; the mirror bodies are verified, their agreement with java_string / std is the stated assumption), the
way the class reader units replace the byte source.  The grammar (`ft_parse`, `params`, `field_desc`, `return_desc`, `method_desc`) and the
printer (`ty_print`, `method_print`) are specification functions written from JVMS 4.3.2 / 4.3.3, not from the code; the name predicate
`is_valid_obj_class_name` (iterator adapters with closures: outside Verus) is external with the assumed contract `== sp_valid_obj`
(bounded check of that predicate: E3 group `names`)."""
from vx.unit import C

PROPS = ['C18']
RLIMIT = 100
F = 'duke/src/tree/descriptor.rs'

NEWTYPES = ['ObjClassName', 'ClassName', 'FieldDescriptor', 'MethodDescriptor', 'ReturnDescriptor']


def newtype(n):
    return (f'pub struct {n} {{ pub inner: JavaString }}\n'
            f'pub type {n}Slice = {n};\n'
            f'impl {n} {{\n'
            f'    pub fn from_inner_unchecked(s: JavaString) -> (r: {n}) ensures r.inner == s {{ {n} {{ inner: s }} }}\n'
            f'    pub fn as_inner(&self) -> (r: &JavaStr) ensures *r == self.inner {{ &self.inner }}\n'
            f'}}\n')


VIEWS = r'''
pub struct ParsedFieldDescriptor(pub Type);
pub struct ParsedReturnDescriptor(pub Option<Type>);
pub open spec fn arr_view(a: ArrayType) -> SArr {
    match a { ArrayType::B => SArr::B, ArrayType::C => SArr::C, ArrayType::D => SArr::D, ArrayType::F => SArr::F, ArrayType::I => SArr::I,
              ArrayType::J => SArr::J, ArrayType::S => SArr::S, ArrayType::Z => SArr::Z, ArrayType::Object(n) => SArr::Object(n.inner@) }
}
pub open spec fn ty_view(t: Type) -> STy {
    match t { Type::B => STy::B, Type::C => STy::C, Type::D => STy::D, Type::F => STy::F, Type::I => STy::I, Type::J => STy::J,
              Type::S => STy::S, Type::Z => STy::Z, Type::Object(n) => STy::Object(n.inner@), Type::Array(d, a) => STy::Array(d, arr_view(a)) }
}
pub open spec fn opt_view(t: Option<Type>) -> Option<STy> { match t { Some(x) => Some(ty_view(x)), None => None } }
pub open spec fn tys_view(v: Seq<Type>) -> Seq<STy> { v.map_values(|t: Type| ty_view(t)) }
pub open spec fn tys_wf(v: Seq<STy>) -> bool { forall|i: int| 0 <= i < v.len() ==> sty_wf(#[trigger] v[i]) }
// TRUSTED: external_body is_valid_obj_class_name (x.split('/').all(..): iterator adapters with closures are outside Verus): assumed to answer sp_valid_obj, the JVMS 4.2.1 binary-name rule; bounded check in E3 group names
#[verifier::external_body]
pub fn is_valid_obj_class_name(x: &JavaStr) -> (b: bool)
    ensures b == sp_valid_obj(x@),
{ unimplemented!() }
// TRUSTED: external_body is_valid_class_name / is_valid_arr_class_name (same reason): an array class name is whatever starts with `[` (the code checks no more: two TODOs), a class name is an array class name or a binary name
#[verifier::external_body]
pub fn is_valid_class_name(x: &JavaStr) -> (b: bool)
    ensures b == ((x@.len() > 0 && x@[0] == '[') || sp_valid_obj(x@)),
{ unimplemented!() }
#[verifier::external_body]
pub fn is_valid_arr_class_name(x: &JavaStr) -> (b: bool)
    ensures b == (x@.len() > 0 && x@[0] == '['),
{ unimplemented!() }
'''

P0 = 'old(chars).pos()'
D0 = 'old(chars).data()'
START = f'({P0} + array_dimension as int + 1)'

NAME_LOOP = dict(
    invariant=[C('{n}.inv', f'chars.wf() && chars.data() == {D0} && 0 <= {P0} && {P0} + array_dimension as int + 1 < chars.pos() <= chars.data().len() '
                            f'&& brackets({D0}, {P0}) == array_dimension as int && {D0}[{P0} + array_dimension as int] == \'L\' '
                            f'&& char == chars.data()[chars.pos() - 1] && s@ == chars.data().subrange({START}, chars.pos() - 1) '
                            f'&& (forall|m: int| {START} <= m < chars.pos() - 1 ==> chars.data()[m] != \';\')')],
    decreases='chars.data().len() - chars.pos()',
    body_start=f'proof {{ if chars.at_end() {{ lemma_semi(chars.data(), {START}, chars.data().len() as int); }} }}',
    body_end=f'proof {{ assert(s@ =~= chars.data().subrange({START}, chars.pos() - 1)); }}',
    after=f'proof {{ lemma_semi(chars.data(), {START}, chars.pos() - 1); }}')


def name_loop(n):
    d = dict(NAME_LOOP)
    d['invariant'] = [C(f'C18.read_field_type.{n}', NAME_LOOP['invariant'][0].text)]
    return d


LEMMAS = [
    ('C18.lemma.printing-a-parsed-type-reproduces-the-text', r'''
pub proof fn lemma_print_of_parse(s: Seq<char>, i: int)
    requires ft_parse(s, i) is Some,
    ensures ({ let t = ft_parse(s, i).unwrap().0; let e = ft_parse(s, i).unwrap().1;
               0 <= i < e <= s.len() && s.subrange(i, e) == ty_print(t) && sty_wf(t) }),
{
    lemma_brackets_range(s, i);
    let d = brackets(s, i);
    let j = i + d;
    assert(s.subrange(i, j) =~= rep(d));
    if s[j] == 'L' {
        lemma_semi_range(s, j + 1);
        let k = semi(s, j + 1);
        let n = s.subrange(j + 1, k);
        assert(s.subrange(i, k + 1) =~= rep(d) + (seq!['L'] + n + seq![';']));
        if d == 0 { assert(rep(0) + (seq!['L'] + n + seq![';']) =~= seq!['L'] + n + seq![';']); }
    } else {
        let a = base_of(s[j]).unwrap();
        assert(s.subrange(i, j + 1) =~= rep(d) + arr_print(a));
        if d == 0 { assert(rep(0) + arr_print(a) =~= arr_print(a)); }
    }
}'''),
    ('C18.lemma.parsing-a-printed-type-reproduces-the-structure', r'''
pub open spec fn sarr_wf(a: SArr) -> bool { match a { SArr::Object(n) => sp_valid_obj(n), _ => true } }
pub proof fn lemma_parse_of_print_da(d: int, a: SArr, i: int, pre: Seq<char>, rest: Seq<char>)
    requires 0 <= d <= 255, sarr_wf(a), i == pre.len(),
    ensures ft_parse(pre + (rep(d) + arr_print(a)) + rest, i) == Some((lift(d, a), i + d + arr_print(a).len())),
{
    let s = pre + (rep(d) + arr_print(a)) + rest;
    assert forall|k: int| i <= k < i + d implies s[k] == '[' by { assert(s[k] == rep(d)[k - i]); }
    assert(s[i + d] == arr_print(a)[0]);
    assert(arr_print(a)[0] != '[');
    lemma_brackets(s, i, d);
    let j = i + d;
    match a {
        SArr::Object(n) => {
            assert(s[j] == 'L');
            assert forall|m: int| j + 1 <= m < j + 1 + n.len() implies s[m] != ';' by { assert(s[m] == arr_print(a)[m - j]); assert(s[m] == n[m - j - 1]); }
            assert(s[j + 1 + n.len()] == arr_print(a)[1 + n.len() as int]);
            assert(s[j + 1 + n.len()] == ';');
            lemma_semi(s, j + 1, j + 1 + n.len());
            assert(s.subrange(j + 1, j + 1 + n.len()) =~= n) by {
                assert forall|m: int| 0 <= m < n.len() implies s[j + 1 + m] == n[m] by { assert(s[j + 1 + m] == arr_print(a)[1 + m]); }
            }
        },
        _ => { assert(base_of(s[j]) == Some(a)); },
    }
}
pub proof fn lemma_parse_of_print(t: STy, i: int, pre: Seq<char>, rest: Seq<char>)
    requires sty_wf(t), i == pre.len(),
    ensures ft_parse(pre + ty_print(t) + rest, i) == Some((t, i + ty_print(t).len())),
{
    let a: SArr = match t {
        STy::Array(d, a) => a,
        STy::B => SArr::B, STy::C => SArr::C, STy::D => SArr::D, STy::F => SArr::F, STy::I => SArr::I,
        STy::J => SArr::J, STy::S => SArr::S, STy::Z => SArr::Z, STy::Object(n) => SArr::Object(n),
    };
    let d: int = match t { STy::Array(d, a) => d as int, _ => 0 };
    assert(rep(0) + arr_print(a) =~= arr_print(a));
    assert(ty_print(t) == rep(d) + arr_print(a));
    assert(lift(d, a) == t);
    lemma_parse_of_print_da(d, a, i, pre, rest);
}'''),
    ('C18.lemma.field-descriptor-print-parse-inverse', r'''
pub proof fn lemma_field_roundtrip(s: Seq<char>, t: STy)
    ensures field_desc(s) == Some(t) ==> ty_print(t) == s && sty_wf(t),
        sty_wf(t) ==> field_desc(ty_print(t)) == Some(t),
{
    if field_desc(s) == Some(t) { lemma_print_of_parse(s, 0); assert(s.subrange(0, s.len() as int) =~= s); }
    if sty_wf(t) {
        lemma_parse_of_print(t, 0, Seq::<char>::empty(), Seq::<char>::empty());
        assert(Seq::<char>::empty() + ty_print(t) + Seq::<char>::empty() =~= ty_print(t));
    }
}'''),
    ('C18.lemma.return-descriptor-print-parse-inverse', r'''
pub proof fn lemma_print_first(t: STy)
    ensures ty_print(t).len() > 0, ty_print(t)[0] != 'V', ty_print(t)[0] != ')',
{
    match t {
        STy::Array(d, a) => {
            if d == 0 { assert(rep(0) + arr_print(a) =~= arr_print(a)); } else { assert(rep(d as int)[0] == '['); }
        },
        _ => {},
    }
}
pub proof fn lemma_return_print_of_parse(s: Seq<char>, r: Option<STy>)
    requires return_desc(s) == Some(r),
    ensures ret_print(r) == s, r matches Some(t) ==> sty_wf(t),
{
    if s.len() > 0 && s[0] == 'V' { assert(s =~= seq!['V']); } else { lemma_print_of_parse(s, 0); assert(s.subrange(0, s.len() as int) =~= s); }
}
pub proof fn lemma_return_parse_of_print(r: Option<STy>)
    requires r matches Some(t) ==> sty_wf(t),
    ensures return_desc(ret_print(r)) == Some(r),
{
    match r {
        Some(t) => {
            lemma_parse_of_print(t, 0, Seq::<char>::empty(), Seq::<char>::empty());
            assert(Seq::<char>::empty() + ty_print(t) + Seq::<char>::empty() =~= ty_print(t));
            lemma_print_first(t);
        },
        None => {},
    }
}'''),
    ('C18.lemma.method-descriptor-printing-a-parsed-one-reproduces-the-text', r'''
pub proof fn lemma_params_print_cons(t: STy, ts: Seq<STy>)
    ensures params_print(seq![t] + ts) == ty_print(t) + params_print(ts),
    decreases ts.len(),
{
    let all = seq![t] + ts;
    if ts.len() == 0 {
        assert(all.drop_last() =~= Seq::<STy>::empty());
        assert(all.last() == t);
        assert(params_print(all.drop_last()) =~= Seq::<char>::empty());
        assert(params_print(ts) =~= Seq::<char>::empty());
        assert(params_print(all) =~= ty_print(t) + params_print(ts));
    } else {
        lemma_params_print_cons(t, ts.drop_last());
        assert(all.drop_last() =~= seq![t] + ts.drop_last());
        assert(all.last() == ts.last());
        assert(params_print(all) =~= ty_print(t) + params_print(ts));
    }
}
pub proof fn lemma_params_print_of_parse(s: Seq<char>, i: int)
    requires params(s, i) is Some,
    ensures ({ let ts = params(s, i).unwrap().0; let e = params(s, i).unwrap().1;
               0 <= i < e <= s.len() && s[e - 1] == ')' && s.subrange(i, e - 1) == params_print(ts) && tys_wf(ts) }),
    decreases s.len() - i,
{
    if s[i] == ')' {
        assert(s.subrange(i, i) =~= Seq::<char>::empty());
    } else {
        lemma_print_of_parse(s, i);
        let t = ft_parse(s, i).unwrap().0;
        let j = ft_parse(s, i).unwrap().1;
        lemma_params_print_of_parse(s, j);
        let ts = params(s, j).unwrap().0;
        let e = params(s, j).unwrap().1;
        lemma_params_print_cons(t, ts);
        assert(s.subrange(i, e - 1) =~= s.subrange(i, j) + s.subrange(j, e - 1));
        assert forall|k: int| 0 <= k < (seq![t] + ts).len() implies sty_wf(#[trigger] (seq![t] + ts)[k]) by {
            if k > 0 { assert((seq![t] + ts)[k] == ts[k - 1]); }
        }
    }
}
pub proof fn lemma_method_print_of_parse(s: Seq<char>)
    requires method_desc(s) is Some,
    ensures ({ let ps = method_desc(s).unwrap().0; let r = method_desc(s).unwrap().1;
               method_print(ps, r) == s && tys_wf(ps) && (r matches Some(t) ==> sty_wf(t)) }),
{
    lemma_params_print_of_parse(s, 1);
    let ps = params(s, 1).unwrap().0;
    let e = params(s, 1).unwrap().1;
    let r = ret_parse(s, e).unwrap().0;
    if s[e] == 'V' { assert(s.subrange(e, s.len() as int) =~= seq!['V']); } else { lemma_print_of_parse(s, e); }
    assert(s =~= seq!['('] + s.subrange(1, e - 1) + seq![')'] + s.subrange(e, s.len() as int));
}'''),
    ('C18.lemma.method-descriptor-parsing-a-printed-one-reproduces-the-structure', r'''
pub proof fn lemma_params_parse_of_print(ts: Seq<STy>, i: int, pre: Seq<char>, rest: Seq<char>)
    requires tys_wf(ts), i == pre.len(),
    ensures params(pre + params_print(ts) + seq![')'] + rest, i) == Some((ts, i + params_print(ts).len() + 1)),
    decreases ts.len(),
{
    let s = pre + params_print(ts) + seq![')'] + rest;
    if ts.len() == 0 {
        assert(s[i] == ')');
        assert(ts =~= Seq::<STy>::empty());
    } else {
        let t = ts[0];
        let tl = ts.subrange(1, ts.len() as int);
        assert(ts =~= seq![t] + tl);
        lemma_params_print_cons(t, tl);
        let rest2 = params_print(tl) + seq![')'] + rest;
        assert(s =~= pre + ty_print(t) + rest2);
        assert(sty_wf(ts[0]));
        lemma_parse_of_print(t, i, pre, rest2);
        lemma_print_first(t);
        assert(s[i] == ty_print(t)[0]);
        let j = i + ty_print(t).len();
        assert forall|k: int| 0 <= k < tl.len() implies sty_wf(#[trigger] tl[k]) by { assert(tl[k] == ts[k + 1]); }
        lemma_params_parse_of_print(tl, j, pre + ty_print(t), rest);
        assert(s =~= (pre + ty_print(t)) + params_print(tl) + seq![')'] + rest);
    }
}
pub proof fn lemma_method_parse_of_print(ps: Seq<STy>, r: Option<STy>)
    requires tys_wf(ps), r matches Some(t) ==> sty_wf(t),
    ensures method_desc(method_print(ps, r)) == Some((ps, r)),
{
    let s = method_print(ps, r);
    let pre = seq!['('];
    lemma_params_parse_of_print(ps, 1, pre, ret_print(r));
    assert(s =~= pre + params_print(ps) + seq![')'] + ret_print(r));
    let e: int = 1 + params_print(ps).len() as int + 1;
    match r {
        Some(t) => {
            let pre2 = pre + params_print(ps) + seq![')'];
            lemma_parse_of_print(t, e, pre2, Seq::<char>::empty());
            assert(s =~= pre2 + ty_print(t) + Seq::<char>::empty());
            lemma_print_first(t);
            assert(s[e] == ty_print(t)[0]);
        },
        None => { assert(s[e] == 'V'); },
    }
}'''),
]


def build(u):
    u.preamble('common.rs')
    u.preamble('desc.rs')
    u.raw(''.join(newtype(n) for n in NEWTYPES))
    u.drop('string newtypes generated by make_string_str_like! (ObjClassName, ClassName, FieldDescriptor, MethodDescriptor, ReturnDescriptor and their Slice forms) -> mirror structs around the code point vector; from_inner_unchecked / as_inner are plain constructor / accessor')
    u.item(F, 'enum', 'Type', derives=[])
    u.item(F, 'enum', 'ArrayType', derives=[])
    u.item(F, 'struct', 'ParsedMethodDescriptor', derives=[])
    u.raw(VIEWS)
    unsafe = [(r'unsafe \{ ([^{}]*) \}', r'\1')]
    path = [(r'crate::tree::names::(is_valid_(?:obj_|arr_)?class_name)', r'\1'),
            (r'JavaCodePoint::from_char\(([^()]*)\)', r'\1')]
    u.fn(F, 'read_field_type', ret='res', canary=True,
         requires=['old(chars).wf()'],
         rewrites=unsafe + path,
         loops={0: dict(invariant=[C('C18.read_field_type.dimension-loop',
                                     f'chars.wf() && chars.data() == {D0} && 0 <= {P0} && chars.pos() == {P0} + array_dimension as int && array_dimension <= 255 '
                                     f'&& (forall|k: int| {P0} <= k < chars.pos() ==> chars.data()[k] == \'[\')')],
                        decreases='chars.data().len() - chars.pos()',
                        body_start=f'proof {{ lemma_brackets(chars.data(), {P0}, chars.pos() - {P0}); }}',
                        after=f'proof {{ lemma_brackets(chars.data(), {P0}, array_dimension as int); }}'),
                1: name_loop('name-loop'), 2: name_loop('array-name-loop')},
         ensures=[C('C18.read_field_type.frame', f'final(chars).wf() && final(chars).data() == {D0}'),
                  C('C18.read_field_type.yields-the-jvms-structure', f'res matches Ok(t) ==> ft_parse({D0}, {P0}) == Some((ty_view(t), final(chars).pos()))'),
                  C('C18.read_field_type.fails-outside-the-grammar', f'res is Err ==> ft_parse({D0}, {P0}) is None')])
    u.fn(F, 'write_field_type', ret=None,
         requires=['sty_wf(ty_view(*t))'],
         rewrites=[(r'for _ in 0\.\.', 'for k_ in 0..')],
         loops={0: dict(invariant=[C('C18.write_field_type.bracket-loop', 'string@ == old(string)@ + rep(k_ as int)')],
                        body_end='proof { assert(string@ =~= old(string)@ + rep(k_ as int + 1)); }')},
         ensures=[C('C18.write_field_type.appends-the-printed-type', 'final(string)@ == old(string)@ + ty_print(ty_view(*t))')])
    SELF = 'self.inner@'
    u.fn(F, 'FieldDescriptorSlice::parse', ret='res',
         ensures=[C('C18.field.parse.yields-the-jvms-structure', f'res matches Ok(p) ==> field_desc({SELF}) == Some(ty_view(p.0))'),
                  C('C18.field.parse.fails-outside-the-grammar', f'res is Err ==> field_desc({SELF}) is None')])
    u.fn(F, 'ParsedFieldDescriptor::write', ret='res', rewrites=unsafe,
         requires=['sty_wf(ty_view(self.0))'],
         ensures=[C('C18.field.write.prints-the-type', 'res.inner@ == ty_print(ty_view(self.0))')])
    u.fn(F, 'ReturnDescriptorSlice::parse', ret='res',
         ensures=[C('C18.return.parse.yields-the-jvms-structure', f'res matches Ok(p) ==> return_desc({SELF}) == Some(opt_view(p.0))'),
                  C('C18.return.parse.fails-outside-the-grammar', f'res is Err ==> return_desc({SELF}) is None')])
    u.fn(F, 'ParsedReturnDescriptor::write', ret='res', rewrites=unsafe,
         requires=['self.0 matches Some(t) ==> sty_wf(ty_view(t))'],
         proof_before=[(r"JavaString::from\(", '            proof { reveal_strlit("V"); assert("V"@ =~= seq![\'V\']); }')],
         ensures=[C('C18.return.write.prints-the-type', 'res.inner@ == ret_print(opt_view(self.0))')])
    S = 'self.inner@'
    ACC = 'tys_view(parameter_descriptors@)'
    u.raw(r'''
pub open spec fn params_cont(acc: Seq<STy>, r: Option<(Seq<STy>, int)>) -> Option<(Seq<STy>, int)> {
    match r { Some((ts, e)) => Some((acc + ts, e)), None => None }
}
''')
    u.fn(F, 'MethodDescriptorSlice::parse', ret='res',
         loops={0: dict(
             invariant_except_break=[C('C18.method.parse.parameter-loop',
                                       f'chars.wf() && chars.data() == {S} && 1 <= chars.pos() <= chars.data().len() '
                                       f'&& params({S}, 1) == params_cont({ACC}, params({S}, chars.pos()))')],
             ensures=[C('C18.method.parse.parameter-loop-exit', f'chars.wf() && chars.data() == {S} && params({S}, 1) == Some(({ACC}, chars.pos()))')],
             decreases='chars.data().len() - chars.pos()',
             body_start='let ghost acc0 = parameter_descriptors@; let ghost p0 = chars.pos();',
             body_end=f'proof {{ lemma_print_of_parse({S}, p0); let q = params({S}, chars.pos()); let t = ty_view(parameter_descriptors@.last()); '
                      f'assert({ACC} =~= tys_view(acc0).push(t)); '
                      f'if q is Some {{ assert(tys_view(acc0) + (seq![t] + q.unwrap().0) =~= {ACC} + q.unwrap().0); }} }}')},
         proof_before=[(r'^\s*break;', f'                proof {{ assert({ACC} + Seq::<STy>::empty() =~= {ACC}); }}'),
                       (r'^\s*let mut parameter_descriptors', f'        proof {{ assert(Seq::<STy>::empty() =~= tys_view(Seq::<Type>::empty())); '
                                                              f'let q = params({S}, 1); if q is Some {{ assert(Seq::<STy>::empty() + q.unwrap().0 =~= q.unwrap().0); }} }}')],
         ensures=[C('C18.method.parse.yields-the-jvms-structure',
                    f'res matches Ok(p) ==> method_desc({S}) == Some((tys_view(p.parameter_descriptors@), opt_view(p.return_descriptor)))'),
                  C('C18.method.parse.fails-outside-the-grammar', f'res is Err ==> method_desc({S}) is None')])
    WFI = f'chars.wf() && chars.data() == {S}'
    u.fn(F, 'MethodDescriptorSlice::get_arguments_size', ret='res', props=['C16'],
         rewrites=[(r'\|&x\| ([^()]*)\)', r'|x_: &char| -> (b_: bool) ensures b_ == ({ let x = *x_; \1 }) { let x = *x_; \1 })')],
         loops={0: dict(invariant=[C('C16.get_arguments_size.inv', WFI)], decreases='chars.data().len() - chars.pos()',
                        body_start='let ghost p0 = chars.pos();', body_end='proof { assert(chars.pos() > p0); }'),
                1: dict(invariant=[C('C16.get_arguments_size.inv.brackets', WFI + ' && chars.pos() >= p0')], decreases='chars.data().len() - chars.pos()'),
                2: dict(invariant=[C('C16.get_arguments_size.inv.name', WFI + ' && chars.pos() > p0')], decreases='chars.data().len() - chars.pos()')})
    PV = 'tys_view(self.parameter_descriptors@)'
    u.fn(F, 'ParsedMethodDescriptor::write', ret='res', rewrites=unsafe + [(r'for parameter_descriptor in &self', 'for parameter_descriptor in iter: &self')],
         requires=[f'tys_wf({PV})', 'self.return_descriptor matches Some(t) ==> sty_wf(ty_view(t))'],
         loops={0: dict(invariant=[C('C18.method.write.parameter-loop', f"tys_wf({PV}) && s@ == seq!['('] + params_print({PV}.subrange(0, iter.index@ as int))")],
                        body_start=f'proof {{ assert(sty_wf({PV}[iter.index@ as int])); }}',
                        body_end=f'proof {{ let k = iter.index@ as int; assert({PV}.subrange(0, k + 1).drop_last() =~= {PV}.subrange(0, k)); '
                                 f"assert(s@ =~= seq!['('] + params_print({PV}.subrange(0, k + 1))); }}",
                        after=f'proof {{ assert({PV}.subrange(0, {PV}.len() as int) =~= {PV}); }}')},
         ensures=[C('C18.method.write.prints-the-descriptor', f'res.inner@ == method_print({PV}, opt_view(self.return_descriptor))')])
    for lab, text in LEMMAS:
        u.lemma(lab, text)
