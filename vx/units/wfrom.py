"""wfrom -- which constant-pool entries the class writer builds for a reference (duke/src/simple_class_writer/pool.rs `impl PoolEntry`:
from_method_handle, from_field_ref, from_method_ref, from_interface_method_ref, from_method_ref_or_interface_method_ref, from_class,
from_string, from_name_and_type, from_method_type, from_package, from_module, from_integer / long / float / double).

C02: "every index in range and of the right kind": a CONSTANT_MethodHandle gets the reference_kind of its variant and points at an entry of
the kind JVMS 4.4.8 prescribes for that kind (1-4 a Fieldref; 5, 8 a Methodref; 6, 7 a Methodref or, when the owner is an interface, an
InterfaceMethodref; 9 an InterfaceMethodref); a Fieldref / Methodref / InterfaceMethodref points at the Class entry of its owner and the
NameAndType entry of its name and descriptor; Class / String / MethodType / Package / Module point at the Utf8 entry of their text.  This is
the writer-side mirror of unit rpoolres (the reader resolves exactly these shapes).  The pool is threaded through opaque put_* functions
(pool state, operand) -> (index, next state); unit wput verifies `put` itself."""
from vx.unit import C

PROPS = ['C02']
P = 'duke/src/simple_class_writer/pool.rs'
CC = 'duke/src/class_constants.rs'
T = 'duke/src/tree/'

STUBS = r'''
// TRUSTED: tree name types and PoolWrite are opaque; the PoolWrite::put_* wrappers used here are opaque functions of (pool state, operand) returning (index, next pool state) -- each is `let e = PoolEntry::from_x(self, v)?; self.put(e)`, the from_x are verified in this unit and put in unit wput
#[verifier::external_body] pub struct VJavaStr { _p: () }
pub type JavaStr = VJavaStr;
#[verifier::external_body] pub struct ClassName { _p: () }
pub type ClassNameSlice = ClassName;
#[verifier::external_body] pub struct ObjClassName { _p: () }
#[verifier::external_body] pub struct FieldName { _p: () }
#[verifier::external_body] pub struct FieldDescriptor { _p: () }
#[verifier::external_body] pub struct MethodName { _p: () }
#[verifier::external_body] pub struct MethodDescriptor { _p: () }
#[verifier::external_body] pub struct PackageName { _p: () }
#[verifier::external_body] pub struct ModuleName { _p: () }
#[verifier::external_body] pub struct PoolWrite<'a> { _p: core::marker::PhantomData<&'a ()> }
pub uninterp spec fn str_of_class(c: &ClassName) -> &VJavaStr;
pub uninterp spec fn class_of_obj(c: &ObjClassName) -> &ClassName;
pub uninterp spec fn str_of_fname(c: &FieldName) -> &VJavaStr;
pub uninterp spec fn str_of_fdesc(c: &FieldDescriptor) -> &VJavaStr;
pub uninterp spec fn str_of_mname(c: &MethodName) -> &VJavaStr;
pub uninterp spec fn str_of_mdesc(c: &MethodDescriptor) -> &VJavaStr;
pub uninterp spec fn str_of_package(c: &PackageName) -> &VJavaStr;
pub uninterp spec fn str_of_module(c: &ModuleName) -> &VJavaStr;
impl ClassName { #[verifier::external_body] pub fn as_inner(&self) -> (r: &JavaStr) ensures r == str_of_class(self) { unimplemented!() } }
impl ObjClassName { #[verifier::external_body] pub fn as_class_name(&self) -> (r: &ClassNameSlice) ensures r == class_of_obj(self) { unimplemented!() } }
impl MethodDescriptor { #[verifier::external_body] pub fn as_inner(&self) -> (r: &JavaStr) ensures r == str_of_mdesc(self) { unimplemented!() } }
impl PackageName { #[verifier::external_body] pub fn as_inner(&self) -> (r: &JavaStr) ensures r == str_of_package(self) { unimplemented!() } }
impl ModuleName { #[verifier::external_body] pub fn as_inner(&self) -> (r: &JavaStr) ensures r == str_of_module(self) { unimplemented!() } }
pub uninterp spec fn pw_utf8<'a>(p: PoolWrite<'a>, s: &VJavaStr) -> (u16, PoolWrite<'a>);
pub uninterp spec fn pw_class<'a>(p: PoolWrite<'a>, c: &ClassName) -> (u16, PoolWrite<'a>);
pub uninterp spec fn pw_fnat<'a>(p: PoolWrite<'a>, n: &FieldName, d: &FieldDescriptor) -> (u16, PoolWrite<'a>);
pub uninterp spec fn pw_mnat<'a>(p: PoolWrite<'a>, n: &MethodName, d: &MethodDescriptor) -> (u16, PoolWrite<'a>);
pub uninterp spec fn pw_field<'a>(p: PoolWrite<'a>, f: &FieldRef) -> (u16, PoolWrite<'a>);
pub uninterp spec fn pw_method<'a>(p: PoolWrite<'a>, m: &MethodRef) -> (u16, PoolWrite<'a>);
pub uninterp spec fn pw_imethod<'a>(p: PoolWrite<'a>, m: &MethodRef) -> (u16, PoolWrite<'a>);
pub uninterp spec fn pw_either<'a>(p: PoolWrite<'a>, m: &MethodRef, is_interface: bool) -> (u16, PoolWrite<'a>);
pub trait NatPut<'a, T, U> { fn put_name_and_type(&mut self, t: &T, u: &U) -> Result<u16, VErr>; }
impl<'a> PoolWrite<'a> {
    #[verifier::external_body] pub fn put_utf8(&mut self, value: &JavaStr) -> (res: Result<u16, VErr>) ensures res matches Ok(i) ==> (i, *final(self)) == pw_utf8(*old(self), value) { unimplemented!() }
    #[verifier::external_body] pub fn put_class(&mut self, value: &ClassNameSlice) -> (res: Result<u16, VErr>) ensures res matches Ok(i) ==> (i, *final(self)) == pw_class(*old(self), value) { unimplemented!() }
    #[verifier::external_body] pub fn put_field_ref(&mut self, value: &FieldRef) -> (res: Result<u16, VErr>) ensures res matches Ok(i) ==> (i, *final(self)) == pw_field(*old(self), value) { unimplemented!() }
    #[verifier::external_body] pub fn put_method_ref(&mut self, value: &MethodRef) -> (res: Result<u16, VErr>) ensures res matches Ok(i) ==> (i, *final(self)) == pw_method(*old(self), value) { unimplemented!() }
    #[verifier::external_body] pub fn put_interface_method_ref(&mut self, value: &MethodRef) -> (res: Result<u16, VErr>) ensures res matches Ok(i) ==> (i, *final(self)) == pw_imethod(*old(self), value) { unimplemented!() }
    #[verifier::external_body] pub fn put_method_ref_or_interface_method_ref(&mut self, value: (&MethodRef, bool)) -> (res: Result<u16, VErr>) ensures res matches Ok(i) ==> (i, *final(self)) == pw_either(*old(self), value.0, value.1) { unimplemented!() }
}
// put_name_and_type is generic over AsRef<JavaStr>: one stub per pair of name types
impl<'a> PoolWrite<'a> {
    #[verifier::external_body] pub fn put_name_and_type_f(&mut self, t: &FieldName, u: &FieldDescriptor) -> (res: Result<u16, VErr>) ensures res matches Ok(i) ==> (i, *final(self)) == pw_fnat(*old(self), t, u) { unimplemented!() }
    #[verifier::external_body] pub fn put_name_and_type_m(&mut self, t: &MethodName, u: &MethodDescriptor) -> (res: Result<u16, VErr>) ensures res matches Ok(i) ==> (i, *final(self)) == pw_mnat(*old(self), t, u) { unimplemented!() }
}
// ---- JVMS 4.4.8 / table 5.4.3.5-A: reference_kind and the kind of entry it points at ----
pub open spec fn w_handle<'a>(p: PoolWrite<'a>, h: &Handle) -> (PoolEntry<'a>, PoolWrite<'a>) {
    match h {
        Handle::GetField(f) => (PoolEntry::MethodHandle { reference_kind: 1, reference_index: pw_field(p, f).0 }, pw_field(p, f).1),
        Handle::GetStatic(f) => (PoolEntry::MethodHandle { reference_kind: 2, reference_index: pw_field(p, f).0 }, pw_field(p, f).1),
        Handle::PutField(f) => (PoolEntry::MethodHandle { reference_kind: 3, reference_index: pw_field(p, f).0 }, pw_field(p, f).1),
        Handle::PutStatic(f) => (PoolEntry::MethodHandle { reference_kind: 4, reference_index: pw_field(p, f).0 }, pw_field(p, f).1),
        Handle::InvokeVirtual(m) => (PoolEntry::MethodHandle { reference_kind: 5, reference_index: pw_method(p, m).0 }, pw_method(p, m).1),
        Handle::InvokeStatic(m, b) => (PoolEntry::MethodHandle { reference_kind: 6, reference_index: pw_either(p, m, *b).0 }, pw_either(p, m, *b).1),
        Handle::InvokeSpecial(m, b) => (PoolEntry::MethodHandle { reference_kind: 7, reference_index: pw_either(p, m, *b).0 }, pw_either(p, m, *b).1),
        Handle::NewInvokeSpecial(m) => (PoolEntry::MethodHandle { reference_kind: 8, reference_index: pw_method(p, m).0 }, pw_method(p, m).1),
        Handle::InvokeInterface(m) => (PoolEntry::MethodHandle { reference_kind: 9, reference_index: pw_imethod(p, m).0 }, pw_imethod(p, m).1),
    }
}
'''

P0 = '*old(pool)'


def build(u):
    u.preamble('common.rs')
    u.item(CC, 'mod', 'pool')
    u.raw('use crate::pool::method_handle_reference;\n')
    u.raw(STUBS.split('pub uninterp spec fn pw_utf8')[0])
    for f, kind, n in ((T + 'field.rs', 'struct', 'FieldRef'), (T + 'method.rs', 'struct', 'MethodRef'), (T + 'method/code.rs', 'enum', 'Handle')):
        u.item(f, kind, n, derives=[])
    u.item(P, 'enum', 'PoolEntry', derives=[], rewrites=[(r"&'a JavaStr", "&'a VJavaStr")])
    u.raw('pub uninterp spec fn pw_utf8' + STUBS.split('pub uninterp spec fn pw_utf8', 1)[1])
    u.drop('put_name_and_type (generic over AsRef<JavaStr>) -> put_name_and_type_f / put_name_and_type_m (one opaque stub per pair of name types); `&Handle::X(ref m, b)` patterns -> `Handle::X(m, b)` with `*b` (Verus: ref patterns not supported)')
    H = "impl<'x> PoolEntry<'x>"
    sig = [(r"<'a, 'b: 'a>", ''), (r"<'a, 'b: 'a, 'c: 'a>", ''), (r"PoolWrite<'a>", "PoolWrite<'x>"), (r"&'[bc] ", '&'), (r'-> Result<Self, VErr>', "-> Result<PoolEntry<'x>, VErr>"), (r'-> Self', "-> PoolEntry<'x>")]

    def fn(name, ens, rewrites=(), opt=()):
        u.fn(P, f'PoolEntry::{name}', impl=r"PoolEntry<'_>", impl_header=H, ret='res', canary=(name == 'from_method_handle'),
             opt_rewrites=list(opt), rewrites=list(rewrites), opt_sig_rewrites=sig,
             ensures=[C(f'C02.wfrom.{name}.{k}', t) for k, t in ens])

    deref = [(r'&Handle::(InvokeStatic|InvokeSpecial)\(ref method, interface\) => \((\S+), pool\.put_method_ref_or_interface_method_ref\(\(method, interface\)\)\?\)',
              r'Handle::\1(method, interface) => (\2, pool.put_method_ref_or_interface_method_ref((method, *interface))?)')]
    fn('from_method_handle', [('kind-and-kind-of-the-entry-it-points-at-per-jvms-4.4.8', f'res matches Ok(e) ==> (e, *final(pool)) == w_handle({P0}, value)')], opt=deref)
    nat = [(r'pool\.put_name_and_type\(&(\w+)\.name, &\1\.desc\)', None)]
    fn('from_field_ref', [('class-entry-of-the-owner-and-name-and-type-entry-of-name-and-descriptor',
                           f'res matches Ok(e) ==> ({{ let c = pw_class({P0}, class_of_obj(&value.class)); let n = pw_fnat(c.1, &value.name, &value.desc); '
                           f'e == (PoolEntry::FieldRef {{ class_index: c.0, name_and_type_index: n.0 }}) && *final(pool) == n.1 }})')],
       rewrites=[(r'pool\.put_name_and_type\(', 'pool.put_name_and_type_f(')])
    mref = lambda var, fld: (f'res matches Ok(e) ==> ({{ let c = pw_class({P0}, &{var}.class); let n = pw_mnat(c.1, &{var}.name, &{var}.desc); '  # noqa: E731
                             f'e == (PoolEntry::{fld} {{ class_index: c.0, name_and_type_index: n.0 }}) && *final(pool) == n.1 }})')
    fn('from_method_ref', [('a-methodref-with-the-class-entry-of-the-owner-and-the-name-and-type-entry', mref('value', 'MethodRef'))], rewrites=[(r'pool\.put_name_and_type\(', 'pool.put_name_and_type_m(')])
    fn('from_interface_method_ref', [('an-interfacemethodref-with-the-class-entry-of-the-owner-and-the-name-and-type-entry', mref('value', 'InterfaceMethodRef'))], rewrites=[(r'pool\.put_name_and_type\(', 'pool.put_name_and_type_m(')])
    fn('from_method_ref_or_interface_method_ref',
       [('interfacemethodref-iff-the-owner-is-an-interface',
         f'res matches Ok(e) ==> ({{ let c = pw_class({P0}, &value.0.class); let n = pw_mnat(c.1, &value.0.name, &value.0.desc); *final(pool) == n.1 '
         f'&& e == (if value.1 {{ PoolEntry::InterfaceMethodRef {{ class_index: c.0, name_and_type_index: n.0 }} }} else {{ PoolEntry::MethodRef {{ class_index: c.0, name_and_type_index: n.0 }} }}) }})')],
       rewrites=[(r'pool\.put_name_and_type\(', 'pool.put_name_and_type_m(')])
    for name, var, acc in (('from_class', 'Class { name_index: i.0 }', 'str_of_class(value)'), ('from_string', 'String { string_index: i.0 }', 'value'),
                           ('from_method_type', 'MethodType { descriptor_index: i.0 }', 'str_of_mdesc(value)'), ('from_package', 'Package { name_index: i.0 }', 'str_of_package(value)'),
                           ('from_module', 'Module { name_index: i.0 }', 'str_of_module(value)')):
        fn(name, [('points-at-the-utf8-entry-of-its-text', f'res matches Ok(e) ==> ({{ let i = pw_utf8({P0}, {acc}); e == (PoolEntry::{var}) && *final(pool) == i.1 }})')])
    for name, var in (('from_integer', 'Integer'), ('from_long', 'Long')):
        fn(name, [('holds-the-value', f'res == (PoolEntry::{var} {{ bytes: value }})')])
