"""warms -- the bodies of the list shaped attributes of the class writer (duke/src/simple_class_writer.rs): the closures handed to
`write_attribute(.., |w, pool| ..)` for InnerClasses, NestMembers, PermittedSubclasses, ModulePackages (fn `write`) and Exceptions,
MethodParameters (fn `write_method`).  Unit wattrs proves the attribute header around them (name, attribute_length taken from the bytes the
closure produced, attributes_count); the closure bodies themselves are dropped there.  Here each closure body is lifted to a function
`warm_<level>_<ATTRIBUTE>(w, pool, <the captured list>) { <closure body> }`.

C02: "... a structurally valid class file ... every length / count field exact ... denoting exactly the given class": the bytes appended are
exactly the JVMS 4.7.x body of the attribute -- the count with the width the JVMS prescribes (u2; u1 for MethodParameters), equal to the number
of entries that follow, then per entry exactly its fields in JVMS order, every reference through the index the pool hands out for that very
operand at that moment (the pool is threaded as in unit wannot: pw_*(pool, operand) = (index, pool afterwards); `w_fold` folds an entry
encoder over the list), flags through their u16 conversion.  A list longer than the count field can hold makes the writer fail before
anything but the (rejected) count is attempted: `res.is_ok() ==> n <= max`.

What the extraction changes: `w.write_slice(list, |w, len| SIZE, |w, x| ELEM)` is beta-reduced with the real body of ClassWrite::write_slice
(duke/src/lib.rs): `put_size(self, slice.len())` / `put_element(self, value)` replaced by the closure bodies with their parameters bound;
`pool.put_optional(x.as_deref(), PoolWrite::put_class)` / `(.., PoolWrite::put_utf8)` / `(p.name.as_ref().map(|x| x.as_inner()), PoolWrite::put_utf8)`
-> `pool.put_optional_class(&x)` / `put_optional_utf8(&x)` / `put_optional_parameter_name(&p.name)` (assumed: index 0 and an untouched pool for None, the
put of the content otherwise: unit wput verifies put_optional itself); `.context(..)` dropped (error message only)."""
import re

from vx.unit import C
from vx.rustcut import CutError, code_mask, match_close
from vx.units._cwrite import add_classwrite
from vx.units._visit import opaque

PROPS = ['C02']
RLIMIT = 80
W = 'duke/src/simple_class_writer.rs'
LIB = 'duke/src/lib.rs'
T = 'duke/src/tree/'

STUBS = r'''
// TRUSTED: name types / flags / PoolWrite are opaque; every PoolWrite::put_* is an opaque function of (pool state, operand) returning (index, next pool state) (units wpool / wput / wfrom verify the pool writer)
pub type ClassNameSlice = ClassName;
pub uninterp spec fn pw_class(p: PoolWrite, c: ClassName) -> (u16, PoolWrite);
pub uninterp spec fn pw_package(p: PoolWrite, c: PackageName) -> (u16, PoolWrite);
pub uninterp spec fn pw_utf8(p: PoolWrite, s: JavaString) -> (u16, PoolWrite);
pub uninterp spec fn pw_pname(p: PoolWrite, s: ParameterName) -> (u16, PoolWrite);
pub open spec fn pw_opt_class(p: PoolWrite, o: Option<ClassName>) -> (u16, PoolWrite) { match o { Some(c) => pw_class(p, c), None => (0u16, p) } }
pub open spec fn pw_opt_utf8(p: PoolWrite, o: Option<JavaString>) -> (u16, PoolWrite) { match o { Some(c) => pw_utf8(p, c), None => (0u16, p) } }
pub open spec fn pw_opt_pname(p: PoolWrite, o: Option<ParameterName>) -> (u16, PoolWrite) { match o { Some(c) => pw_pname(p, c), None => (0u16, p) } }
impl PoolWrite {
    #[verifier::external_body] pub fn put_class(&mut self, value: &ClassNameSlice) -> (res: Result<u16, VErr>) ensures res matches Ok(i) ==> (i, *final(self)) == pw_class(*old(self), *value) { unimplemented!() }
    #[verifier::external_body] pub fn put_package(&mut self, value: &PackageName) -> (res: Result<u16, VErr>) ensures res matches Ok(i) ==> (i, *final(self)) == pw_package(*old(self), *value) { unimplemented!() }
    #[verifier::external_body] pub fn put_optional_class(&mut self, value: &Option<ClassName>) -> (res: Result<u16, VErr>) ensures res matches Ok(i) ==> (i, *final(self)) == pw_opt_class(*old(self), *value) { unimplemented!() }
    #[verifier::external_body] pub fn put_optional_utf8(&mut self, value: &Option<JavaString>) -> (res: Result<u16, VErr>) ensures res matches Ok(i) ==> (i, *final(self)) == pw_opt_utf8(*old(self), *value) { unimplemented!() }
    #[verifier::external_body] pub fn put_optional_parameter_name(&mut self, value: &Option<ParameterName>) -> (res: Result<u16, VErr>) ensures res matches Ok(i) ==> (i, *final(self)) == pw_opt_pname(*old(self), *value) { unimplemented!() }
}
pub uninterp spec fn inner_flag_bits(f: InnerClassFlags) -> u16;
pub uninterp spec fn parameter_flag_bits(f: ParameterFlags) -> u16;
impl vstd::std_specs::convert::FromSpecImpl<InnerClassFlags> for u16 { open spec fn obeys_from_spec() -> bool { true } open spec fn from_spec(v: InnerClassFlags) -> u16 { inner_flag_bits(v) } }
impl From<InnerClassFlags> for u16 { #[verifier::external_body] fn from(v: InnerClassFlags) -> (r: u16) { unimplemented!() } }
impl vstd::std_specs::convert::FromSpecImpl<ParameterFlags> for u16 { open spec fn obeys_from_spec() -> bool { true } open spec fn from_spec(v: ParameterFlags) -> u16 { parameter_flag_bits(v) } }
impl From<ParameterFlags> for u16 { #[verifier::external_body] fn from(v: ParameterFlags) -> (r: u16) { unimplemented!() } }
impl Clone for InnerClassFlags { #[verifier::external_body] fn clone(&self) -> (r: Self) ensures r == *self { unimplemented!() } }
impl Copy for InnerClassFlags {}
impl Clone for ParameterFlags { #[verifier::external_body] fn clone(&self) -> (r: Self) ensures r == *self { unimplemented!() } }
impl Copy for ParameterFlags {}

// ---- JVMS 4.7.x entry encodings, threaded through the pool: (bytes, pool afterwards) ----
pub open spec fn e_class(p: PoolWrite, c: ClassName) -> (Seq<u8>, PoolWrite) { (be16(pw_class(p, c).0), pw_class(p, c).1) }
pub open spec fn e_package(p: PoolWrite, c: PackageName) -> (Seq<u8>, PoolWrite) { (be16(pw_package(p, c).0), pw_package(p, c).1) }
// JVMS 4.7.6: u2 inner_class_info_index, u2 outer_class_info_index (0: none), u2 inner_name_index (0: none), u2 inner_class_access_flags
pub open spec fn e_inner(p: PoolWrite, e: InnerClass) -> (Seq<u8>, PoolWrite) {
    let a = pw_class(p, e.inner_class); let b = pw_opt_class(a.1, e.outer_class); let c = pw_opt_utf8(b.1, e.inner_name);
    (be16(a.0) + be16(b.0) + be16(c.0) + be16(inner_flag_bits(e.flags)), c.1)
}
// JVMS 4.7.24: u2 name_index (0: no name), u2 access_flags
pub open spec fn e_parameter(p: PoolWrite, e: MethodParameter) -> (Seq<u8>, PoolWrite) {
    let a = pw_opt_pname(p, e.name);
    (be16(a.0) + be16(parameter_flag_bits(e.flags)), a.1)
}
// JVMS 4.7.12 line_number_table entry: u2 start_pc, u2 line_number
pub uninterp spec fn lab_pc(t: Labels, l: Label) -> u16;
impl Labels { #[verifier::external_body] pub fn try_get(&self, target: &Label) -> (res: Result<u16, VErr>) ensures res matches Ok(v) ==> v == lab_pc(*self, *target) { unimplemented!() } }
pub open spec fn e_line(labels: Labels, p: PoolWrite, e: (Label, u16)) -> (Seq<u8>, PoolWrite) { (be16(lab_pc(labels, e.0)) + be16(e.1), p) }
// JVMS 4.7.3 exception_table entry: u2 start_pc, u2 end_pc, u2 handler_pc, u2 catch_type (0: any)
pub open spec fn e_exception(labels: Labels, p: PoolWrite, e: Exception) -> (Seq<u8>, PoolWrite) {
    let a = pw_opt_class(p, e.catch);
    (be16(lab_pc(labels, e.start)) + be16(lab_pc(labels, e.end)) + be16(lab_pc(labels, e.handler)) + be16(a.0), a.1)
}
// JVMS 4.7.23 bootstrap_methods entry: u2 bootstrap_method_ref, u2 num_bootstrap_arguments, u2 bootstrap_arguments[num]
pub uninterp spec fn pw_handle(p: PoolWrite, h: Handle) -> (u16, PoolWrite);
impl PoolWrite { #[verifier::external_body] pub fn put_method_handle(&mut self, value: &Handle) -> (res: Result<u16, VErr>) ensures res matches Ok(i) ==> (i, *final(self)) == pw_handle(*old(self), *value) { unimplemented!() } }
pub open spec fn args_bytes(a: Seq<u16>, k: int) -> Seq<u8> decreases k { if 0 < k <= a.len() { args_bytes(a, k - 1) + be16(a[k - 1]) } else { Seq::<u8>::empty() } }
pub open spec fn e_bootstrap(p: PoolWrite, m: BootstrapMethodWrite) -> (Seq<u8>, PoolWrite) {
    let a = pw_handle(p, *m.handle);
    (be16(a.0) + be16(m.arguments@.len() as u16) + args_bytes(m.arguments@, m.arguments@.len() as int), a.1)
}
// JVMS 4.7.13 / 4.7.14 local_variable_table / local_variable_type_table entry: u2 start_pc, u2 length, u2 name_index, u2 descriptor_index / signature_index, u2 index;
// one entry per local variable that carries a descriptor / a signature, none for the others
pub uninterp spec fn range_start(t: Labels, r: LabelRange) -> u16;
pub uninterp spec fn range_len(t: Labels, r: LabelRange) -> u16;
impl Labels { #[verifier::external_body] pub fn try_get_range(&self, range: &LabelRange) -> (res: Result<(u16, u16), VErr>) ensures res matches Ok(v) ==> v == (range_start(*self, *range), range_len(*self, *range)) { unimplemented!() } }
pub uninterp spec fn lvname_str(n: LocalVariableName) -> JavaString;
pub uninterp spec fn fdesc_str(n: FieldDescriptor) -> JavaString;
pub uninterp spec fn fsig_str(n: FieldSignature) -> JavaString;
impl LocalVariableName { #[verifier::external_body] pub fn as_inner(&self) -> (r: &JavaString) ensures *r == lvname_str(*self) { unimplemented!() } }
impl FieldDescriptor { #[verifier::external_body] pub fn as_inner(&self) -> (r: &JavaString) ensures *r == fdesc_str(*self) { unimplemented!() } }
impl FieldSignature { #[verifier::external_body] pub fn as_inner(&self) -> (r: &JavaString) ensures *r == fsig_str(*self) { unimplemented!() } }
impl PoolWrite { #[verifier::external_body] pub fn put_utf8(&mut self, value: &JavaString) -> (res: Result<u16, VErr>) ensures res matches Ok(i) ==> (i, *final(self)) == pw_utf8(*old(self), *value) { unimplemented!() } }
pub open spec fn e_lv_entry(labels: Labels, p: PoolWrite, lv: Lv, text: JavaString) -> (Seq<u8>, PoolWrite) {
    let a = pw_utf8(p, lvname_str(lv.name)); let b = pw_utf8(a.1, text);
    (be16(range_start(labels, lv.range)) + be16(range_len(labels, lv.range)) + be16(a.0) + be16(b.0) + be16(lv.index.index), b.1)
}
pub open spec fn e_lvt(labels: Labels, p: PoolWrite, lv: Lv) -> (Seq<u8>, PoolWrite) {
    match lv.descriptor { Some(d) => e_lv_entry(labels, p, lv, fdesc_str(d)), None => (Seq::<u8>::empty(), p) }
}
pub open spec fn e_lvtt(labels: Labels, p: PoolWrite, lv: Lv) -> (Seq<u8>, PoolWrite) {
    match lv.signature { Some(d) => e_lv_entry(labels, p, lv, fsig_str(d)), None => (Seq::<u8>::empty(), p) }
}
pub open spec fn count_desc(l: Seq<Lv>, k: int) -> int decreases k { if 0 < k <= l.len() { count_desc(l, k - 1) + (if l[k - 1].descriptor is Some { 1int } else { 0int }) } else { 0 } }
pub open spec fn count_sign(l: Seq<Lv>, k: int) -> int decreases k { if 0 < k <= l.len() { count_sign(l, k - 1) + (if l[k - 1].signature is Some { 1int } else { 0int }) } else { 0 } }
// JVMS 4.7.30 record_component_info: what write_record_component appends for a component (opaque here; its attribute section is verified in unit wattrs)
pub uninterp spec fn e_component(p: PoolWrite, c: RecordComponent) -> (Seq<u8>, PoolWrite);
#[verifier::external_body] pub fn write_record_component(writer: &mut Vec<u8>, record_component: &RecordComponent, pool: &mut PoolWrite) -> (res: Result<(), VErr>)
    ensures res.is_ok() ==> final(writer)@ == old(writer)@ + e_component(*old(pool), *record_component).0 && *final(pool) == e_component(*old(pool), *record_component).1 { unimplemented!() }
// the first k entries of a list, each through the pool the previous one left
pub open spec fn w_fold<X>(p: PoolWrite, s: Seq<X>, k: int, f: spec_fn(PoolWrite, X) -> (Seq<u8>, PoolWrite)) -> (Seq<u8>, PoolWrite) decreases k {
    if 0 < k <= s.len() { let r = w_fold(p, s, k - 1, f); let e = f(r.1, s[k - 1]); (r.0 + e.0, e.1) } else { (Seq::<u8>::empty(), p) }
}
pub proof fn lemma_fold_step<X>(p: PoolWrite, s: Seq<X>, k: int, f: spec_fn(PoolWrite, X) -> (Seq<u8>, PoolWrite), head: Seq<u8>)
    requires 0 <= k < s.len(),
    ensures w_fold(p, s, k + 1, f).1 == f(w_fold(p, s, k, f).1, s[k]).1,
            head + w_fold(p, s, k + 1, f).0 == head + w_fold(p, s, k, f).0 + f(w_fold(p, s, k, f).1, s[k]).0,
{
    let r = w_fold(p, s, k, f); let e = f(r.1, s[k]);
    assert(w_fold(p, s, k + 1, f) == (r.0 + e.0, e.1));
    assert(head + (r.0 + e.0) =~= head + r.0 + e.0);
}
'''

# (level fn, ATTRIBUTE) -> (captured list name, its type, entry encoder, count width in bytes, maximum count, shape)
ARMS = {
    ('write', 'INNER_CLASSES'): ('inner_classes', '&Vec<InnerClass>', 'e_inner', 2, '0xffff', 'loop'),
    ('write', 'NEST_MEMBERS'): ('nest_members', '&Vec<ClassName>', 'e_class', 2, '0xffff', 'loop'),
    ('write', 'PERMITTED_SUBCLASSES'): ('permitted_subclasses', '&Vec<ClassName>', 'e_class', 2, '0xffff', 'loop'),
    ('write', 'MODULE_PACKAGES'): ('module_packages', '&Vec<PackageName>', 'e_package', 2, '0xffff', 'slice'),
    ('write_method', 'EXCEPTIONS'): ('exceptions', '&Vec<ClassName>', 'e_class', 2, '0xffff', 'slice'),
    ('write_method', 'METHOD_PARAMETERS'): ('method_parameters', '&Vec<MethodParameter>', 'e_parameter', 1, '0xff', 'slice'),
    # inside Code: entries name bytecode offsets through the label table (opaque function lab_pc of (table, label))
    ('write_code', 'LINE_NUMBER_TABLE'): ('line_number_table', '&Vec<(Label, u16)>', 'e_line', 2, '0xffff', 'slice'),
    # JVMS 4.7.3 exception_table: not an attribute of its own but a list in the body of Code (`writer.write_slice(&code.exception_table, ..)`, lifted as a region)
    ('write_code', 'exception_table'): ('exception_table', '&Vec<Exception>', 'e_exception', 2, '0xffff', 'region'),
}
WITH_LABELS = {'LINE_NUMBER_TABLE', 'exception_table'}


def closure_of(u, fname, attr):
    """(text between the braces of `write_attribute(&mut buffer, pool, attribute::ATTR, |w, pool| { .. })` in fn fname, line of its first line)"""
    s = u.src(W)
    f = s.cut_fn(fname)
    body, mask = f['body'], code_mask(f['body'])
    m = re.search(r'write_attribute\(&mut buffer, pool, attribute::' + attr + r', \|w, (?:pool|_)\| \{', mask)
    if not m:
        raise CutError(f'{W}: fn {fname}: no `write_attribute(&mut buffer, pool, attribute::{attr}, |w, pool| {{` any more')
    ob = m.end() - 1
    cb = match_close(mask, ob)
    return body[ob + 1:cb], s.line_of(f['open'] + ob)


def region_of(u, fname, lst):
    """the statement `writer.write_slice(&code.<lst>, ..)?;` of fn fname as a closure-body-like text `w.write_slice(<lst>, ..)` (receiver renamed to w, the list to its
    field name), line of its first line"""
    s = u.src(W)
    f = s.cut_fn(fname)
    body, mask = f['body'], code_mask(f['body'])
    m = re.search(r'writer\.write_slice\(&code\.' + lst + r'\s*,', mask)
    if not m:
        raise CutError(f'{W}: fn {fname}: no `writer.write_slice(&code.{lst}, ..)` any more')
    op = mask.index('(', m.start())
    cl = match_close(mask, op)
    text = 'w.write_slice(' + lst + body[m.end() - 1:cl + 1]
    u.drop(f'fn {fname}: statement `writer.write_slice(&code.{lst}, ..)?;` lifted to a function (receiver `writer` named `w`, `&code.{lst}` passed as `{lst}`)')
    return text, s.line_of(f['open'] + m.start())


def bind(pat):
    """`let <closure parameter pattern> = value;` without reference patterns (Verus has none): `&(ref a, b)` -> `let a = &value.0; let b = value.1;`"""
    pat = pat.strip()
    m = re.fullmatch(r'&\(ref (\w+), (\w+)\)', pat)
    if m:
        return f'let {m.group(1)} = &value.0; let {m.group(2)} = value.1;'
    if re.fullmatch(r'\w+', pat):
        return f'let {pat} = value;'
    m = re.fullmatch(r'&(\w+)', pat)
    if m:
        return f'let {m.group(1)} = *value;'
    raise CutError(f'closure parameter pattern `{pat}` not handled')


def beta_write_slice(u, body):
    """`w.write_slice(LIST, |w, n| SIZE, |w, x| ELEM)` (anywhere in the text) -> the body of ClassWrite::write_slice (cut from duke/src/lib.rs) with put_size(self, slice.len()) /
    put_element(self, value) replaced by the closure bodies, their parameters bound by `let`"""
    if '"' in body:
        raise CutError('write_slice closure holds a string literal: not handled')
    code = re.sub(r'//[^\n]*', lambda m: ' ' * len(m.group(0)), body)      # comments blanked, offsets kept
    mask = code_mask(code)
    m0 = re.search(r'w\.write_slice\(', mask)
    if not m0:
        raise CutError('closure has no w.write_slice(..) call any more')
    op = m0.end() - 1
    cl = match_close(mask, op)
    m = re.fullmatch(r'\s*(&?[\w.]+)\s*,\s*\|w, (\w+)\|\s*(.*?),\s*\|w, ([^|]+)\|\s*(.*)', code[op + 1:cl], re.S)
    if not m:
        raise CutError('closure is no longer of the shape w.write_slice(LIST, |w, n| SIZE, |w, x| ELEM)')
    lst, n, size_e, x, elem_e = m.groups()
    elem_e = elem_e.strip().rstrip(',').strip()
    ws = u.src(LIB).cut_fn('write_slice')['body']
    if 'put_size(self, slice.len())' not in ws or 'put_element(self, value)' not in ws:
        raise CutError('ClassWrite::write_slice no longer has the shape put_size(self, slice.len()) / put_element(self, value)')
    ws = ws.replace('put_size(self, slice.len())', '{ let ' + n + ' = slice.len(); ' + size_e.strip() + ' }')
    ws = ws.replace('put_element(self, value)', '{ ' + bind(x) + ' ' + elem_e + ' }')
    ws = re.sub(r'for value in slice', 'for value in iter: slice', ws)
    ws = ' '.join(ws.split())
    u.drop('w.write_slice(LIST, |w, n| SIZE, |w, x| ELEM) beta-reduced: the body of ClassWrite::write_slice (duke/src/lib.rs) with put_size(self, slice.len()) / put_element(self, value) '
           'replaced by the closure bodies, n / x bound by let, self = w')
    pad = '\n' * code[m0.start():cl + 1].count('\n')
    return code[:m0.start()] + '{ let slice = ' + lst + '; ' + ws + ' }' + pad + code[cl + 1:], lst.lstrip('&')


def build(u):
    u.preamble('common.rs')
    u.preamble('bytes.rs')
    add_classwrite(u, [])
    opaque(u, ['ClassName', 'PackageName', 'JavaString', 'ParameterName', 'InnerClassFlags', 'ParameterFlags', 'PoolWrite', 'Labels', 'Label', 'Handle', 'LabelRange', 'LocalVariableName', 'FieldDescriptor', 'FieldSignature', 'RecordComponent'])
    u.item(T + 'method/code.rs', 'struct', 'Exception', derives=[])
    u.item('duke/src/simple_class_writer/pool.rs', 'struct', 'BootstrapMethodWrite', derives=[])
    u.item(T + 'method/code.rs', 'struct', 'LvIndex', derives=[])
    u.item(T + 'method/code.rs', 'struct', 'Lv', derives=[])
    u.item(T + 'class.rs', 'struct', 'InnerClass', derives=[])
    u.item(T + 'method.rs', 'struct', 'MethodParameter', derives=[])
    u.raw(STUBS)
    first = True
    for (fname, attr), (lst, ty, enc, cw, mx, shape) in ARMS.items():
        body, line = region_of(u, fname, lst) if shape == 'region' else closure_of(u, fname, attr)
        if shape in ('slice', 'region'):
            body, got = beta_write_slice(u, body)
            if got != lst:
                raise CutError(f'{attr}: the list written is `{got}`, the contract knows `{lst}`')
            L = 'slice@'
        else:
            L = f'{lst}@'
        n = f'{lst}@.len()'
        cnt = f'be16({n} as u16)' if cw == 2 else f'seq![{n} as u8]'
        W0, P0 = 'old(w).bytes()', '*old(pool)'
        lab = attr in WITH_LABELS
        f = f'|q: PoolWrite, x| {enc}(*labels, q, x)' if lab else f'|q: PoolWrite, x| {enc}(q, x)'
        lv = dict(write='klass', write_method='method', write_code='code')[fname]
        inv = (f'{n} <= {mx} && {L} == {lst}@ && w.bytes() == {W0} + {cnt} + w_fold({P0}, {lst}@, iter.index@ as int, {f}).0 '
               f'&& *pool == w_fold({P0}, {lst}@, iter.index@ as int, {f}).1 && w.infallible() == old(w).infallible()')
        u.fn(W, f'{fname}::warm_{lv}_{attr}', ret='res', canary=first, proof_label=f'C02.warm.{attr}.inv.count-then-the-entries-so-far-each-through-the-pool-the-previous-one-left',
             synth=dict(sig=f'pub fn warm_{lv}_{attr}<Wr: ClassWrite>(w: &mut Wr, pool: &mut PoolWrite, {lst}: {ty}' + (', labels: &Labels' if lab else '') + ') -> Result<()>', body='{' + body + '}', line=line),
             opt_rewrites=[(r'\.context\("[^"]*"\)', ''),
                           (r'pool\.put_optional\(([\w.]+)\.as_deref\(\), PoolWrite::put_class\)', r'pool.put_optional_class(&\1)'),
                           (r'pool\.put_optional\(([\w.]+)\.as_deref\(\), PoolWrite::put_utf8\)', r'pool.put_optional_utf8(&\1)'),
                           (r'pool\.put_optional\(([\w.]+)\.as_ref\(\)\.map\(\|x\| x\.as_inner\(\)\), PoolWrite::put_utf8\)', r'pool.put_optional_parameter_name(&\1)'),
                           (r'\bfor (\w+) in (' + lst + r') \{', r'for \1 in iter: \2 {')],
             loops={0: dict(invariant=[C(f'C02.warm.{attr}.inv.count-then-the-entries-so-far-each-through-the-pool-the-previous-one-left', inv)],
                            body_start=f'proof {{ lemma_fold_step({P0}, {lst}@, iter.index@ as int, {f}, {W0} + {cnt}); }}',
                            body_end=f'proof {{ assert(w.bytes() =~= {W0} + {cnt} + w_fold({P0}, {lst}@, iter.index@ as int + 1, {f}).0); }}')},
             ensures=[C(f'C02.warm.{attr}.count-of-jvms-width-equals-the-number-of-entries-and-entries-in-jvms-layout',
                        f'res.is_ok() ==> {n} <= {mx} && final(w).bytes() == {W0} + {cnt} + w_fold({P0}, {lst}@, {n} as int, {f}).0'),
                      C(f'C02.warm.{attr}.pool-holds-exactly-the-puts-of-the-entries-in-order', f'res.is_ok() ==> *final(pool) == w_fold({P0}, {lst}@, {n} as int, {f}).1')])
        first = False
    # ---- BootstrapMethods: a loop over the methods the pool collected, each with a nested write_slice over its argument indices
    body, line = closure_of(u, 'write', 'BOOTSTRAP_METHODS')
    body, got = beta_write_slice(u, body)
    if got != 'bootstrap_method.arguments':
        raise CutError(f'BOOTSTRAP_METHODS: the nested list is `{got}`, the contract knows `bootstrap_method.arguments`')
    M, W0, P0 = 'bootstrap_methods@', 'old(w).bytes()', '*old(pool)'
    n = f'{M}.len()'
    cnt = f'be16({n} as u16)'
    f = '|q: PoolWrite, x| e_bootstrap(q, x)'
    inv = (f'{n} <= 0xffff && w.bytes() == {W0} + {cnt} + w_fold({P0}, {M}, iter.index@ as int, {f}).0 '
           f'&& *pool == w_fold({P0}, {M}, iter.index@ as int, {f}).1 && w.infallible() == old(w).infallible()')
    A = 'bm.arguments@'
    u.fn(W, 'write::warm_klass_BOOTSTRAP_METHODS', ret='res', proof_label='C02.warm.BOOTSTRAP_METHODS.inv.count-then-the-entries-so-far-each-through-the-pool-the-previous-one-left',
         synth=dict(sig='pub fn warm_klass_BOOTSTRAP_METHODS<Wr: ClassWrite>(w: &mut Wr, pool: &mut PoolWrite, bootstrap_methods: Vec<BootstrapMethodWrite>) -> Result<()>', body='{' + body + '}', line=line),
         opt_rewrites=[(r'\bfor (\w+) in (bootstrap_methods) \{', r'for \1 in iter: \2 {')],
         loops={0: dict(invariant=[C('C02.warm.BOOTSTRAP_METHODS.inv.count-then-the-entries-so-far-each-through-the-pool-the-previous-one-left', inv)],
                        body_start=f'let ghost bm = bootstrap_method; let ghost k0 = iter.index@ as int; let ghost b0 = w.bytes(); proof {{ assert(bm == {M}[k0]); lemma_fold_step({P0}, {M}, k0, {f}, {W0} + {cnt}); }}',
                        body_end=f'proof {{ assert(w.bytes() =~= b0 + (be16(pw_handle(w_fold({P0}, {M}, k0, {f}).1, *bm.handle).0) + be16({A}.len() as u16) + args_bytes({A}, {A}.len() as int))); '
                                 f'assert(w.bytes() =~= {W0} + {cnt} + w_fold({P0}, {M}, k0 + 1, {f}).0); }}'),
                1: dict(before='let ghost b1 = w.bytes(); let ghost p1 = *pool;',
                        invariant=[C('C02.warm.BOOTSTRAP_METHODS.inv.argument-indices-so-far',
                                     f'slice@ == {A} && {A}.len() <= 0xffff && w.bytes() == b1 + args_bytes({A}, iter.index@ as int) && *pool == p1 && w.infallible() == old(w).infallible()')],
                        body_end=f'proof {{ assert(w.bytes() =~= b1 + args_bytes({A}, iter.index@ as int + 1)); }}')},
         ensures=[C('C02.warm.BOOTSTRAP_METHODS.count-equals-the-number-of-methods-each-with-its-handle-its-argument-count-and-its-argument-indices',
                    f'res.is_ok() ==> {n} <= 0xffff && final(w).bytes() == {W0} + {cnt} + w_fold({P0}, {M}, {n} as int, {f}).0'),
                  C('C02.warm.BOOTSTRAP_METHODS.pool-holds-exactly-the-puts-of-the-handles-in-order', f'res.is_ok() ==> *final(pool) == w_fold({P0}, {M}, {n} as int, {f}).1')])
    # ---- Record: the count, then every component through write_record_component (its own attribute section is unit wattrs; here an opaque function of (pool, component))
    body, line = closure_of(u, 'write', 'RECORD')
    R, W0, P0 = 'record_components@', 'old(w).bytes()', '*old(pool)'
    cnt = f'be16({R}.len() as u16)'
    f = '|q: PoolWrite, x| e_component(q, x)'
    lab = 'C02.warm.RECORD.inv.count-then-the-components-so-far-in-order'
    u.fn(W, 'write::warm_klass_RECORD', ret='res', proof_label=lab,
         synth=dict(sig='pub fn warm_klass_RECORD(w: &mut Vec<u8>, pool: &mut PoolWrite, record_components: &Vec<RecordComponent>) -> Result<()>', body='{' + body + '}', line=line),
         rewrites=[(r'&class\.record_components\b', 'record_components'), (r'\bclass\.record_components\b', 'record_components')],
         opt_rewrites=[(r'\bfor (\w+) in (record_components) \{', r'for \1 in iter: \2 {')],
         loops={0: dict(invariant=[C(lab, f'{R}.len() <= 0xffff && w.bytes() == {W0} + {cnt} + w_fold({P0}, {R}, iter.index@ as int, {f}).0 && *pool == w_fold({P0}, {R}, iter.index@ as int, {f}).1')],
                        body_start=f'proof {{ lemma_fold_step({P0}, {R}, iter.index@ as int, {f}, {W0} + {cnt}); }}',
                        body_end=f'proof {{ assert(w.bytes() =~= {W0} + {cnt} + w_fold({P0}, {R}, iter.index@ as int + 1, {f}).0); }}')},
         ensures=[C('C02.warm.RECORD.count-equals-the-number-of-components-and-each-is-written-once-in-order',
                    f'res.is_ok() ==> {R}.len() <= 0xffff && final(w).bytes() == {W0} + {cnt} + w_fold({P0}, {R}, {R}.len() as int, {f}).0 && *final(pool) == w_fold({P0}, {R}, {R}.len() as int, {f}).1')])
    # ---- LocalVariableTable / LocalVariableTypeTable: one entry per local variable with a descriptor / signature; the count is the variable `desc` / `sign` the
    # counting loop of write_code left (unit wattrs proves desc == count_desc(..) / sign == count_sign(..) at the end of that loop)
    for attr, cntvar, cntfn, enc in (('LOCAL_VARIABLE_TABLE', 'desc', 'count_desc', 'e_lvt'), ('LOCAL_VARIABLE_TYPE_TABLE', 'sign', 'count_sign', 'e_lvtt')):
        body, line = closure_of(u, 'write_code', attr)
        Lv_, W0, P0 = 'local_variables@', 'old(w).bytes()', '*old(pool)'
        cnt = f'be16({cntvar} as u16)'
        f = f'|q: PoolWrite, x| {enc}(*labels, q, x)'
        lab = f'C02.warm.{attr}.inv.count-then-one-entry-per-variable-that-has-one-so-far'
        u.fn(W, f'write_code::warm_code_{attr}', ret='res', proof_label=lab,
             synth=dict(sig=f'pub fn warm_code_{attr}<Wr: ClassWrite>(w: &mut Wr, pool: &mut PoolWrite, local_variables: &Vec<Lv>, labels: &Labels, desc: usize, sign: usize) -> Result<()>', body='{' + body + '}', line=line),
             requires=[f'desc == count_desc({Lv_}, {Lv_}.len() as int)', f'sign == count_sign({Lv_}, {Lv_}.len() as int)'],
             opt_rewrites=[(r'\bfor lv in local_variables \{', 'for lv in iter: local_variables {')],
             loops={0: dict(invariant=[C(lab, f'{cntvar} <= 0xffff && w.bytes() == {W0} + {cnt} + w_fold({P0}, {Lv_}, iter.index@ as int, {f}).0 && *pool == w_fold({P0}, {Lv_}, iter.index@ as int, {f}).1 '
                                              f'&& w.infallible() == old(w).infallible()')],
                            body_start=f'proof {{ lemma_fold_step({P0}, {Lv_}, iter.index@ as int, {f}, {W0} + {cnt}); }}',
                            body_end=f'proof {{ assert(w.bytes() =~= {W0} + {cnt} + w_fold({P0}, {Lv_}, iter.index@ as int + 1, {f}).0); }}')},
             ensures=[C(f'C02.warm.{attr}.count-is-the-number-of-variables-that-have-one-and-exactly-those-follow-in-jvms-layout',
                        f'res.is_ok() ==> {cntvar} <= 0xffff && final(w).bytes() == {W0} + {cnt} + w_fold({P0}, {Lv_}, {Lv_}.len() as int, {f}).0'),
                      C(f'C02.warm.{attr}.pool-holds-exactly-the-puts-of-the-entries-in-order', f'res.is_ok() ==> *final(pool) == w_fold({P0}, {Lv_}, {Lv_}.len() as int, {f}).1')])
    u.drop('closure bodies of write_attribute(&mut buffer, pool, attribute::X, |w, pool| { .. }) lifted to functions warm_<level>_<X>(w, pool, <captured list>) { <closure body> }')
