"""adiff -- leaf level of diff application and the Action algebra (quill/src/action/apply_diff.rs, quill/src/tree/mappings_diff/action.rs)"""
from vx.unit import C

PROPS = ['C04']
A = 'quill/src/action/apply_diff.rs'
ACT = 'quill/src/tree/mappings_diff/action.rs'


def build(u):
    u.preamble('common.rs')
    u.raw('use vstd::std_specs::cmp::PartialEqSpec;')
    u.item(ACT, 'enum', 'Action', derives=[], rewrites=[(r'#\[default\]\s*', '')])
    u.raw('''
// ---- the action algebra as spec functions (written from the property statement / the type's documentation) ----
pub open spec fn spec_from_tuple<T>(a: Option<T>, b: Option<T>) -> Action<T> {
    match (a, b) {
        (None, None) => Action::None,
        (None, Some(y)) => Action::Add(y),
        (Some(x), None) => Action::Remove(x),
        (Some(x), Some(y)) => Action::Edit(x, y),
    }
}
pub open spec fn spec_to_tuple<T>(d: Action<T>) -> (Option<T>, Option<T>) {
    match d {
        Action::None => (None, None),
        Action::Add(y) => (None, Some(y)),
        Action::Remove(x) => (Some(x), None),
        Action::Edit(x, y) => (Some(x), Some(y)),
    }
}
pub open spec fn spec_flip<T>(d: Action<T>) -> Action<T> {
    let t = spec_to_tuple(d);
    spec_from_tuple(t.1, t.0)
}
// applying a diff to an optional leaf value: Some(result) or refusal (None)
pub open spec fn spec_apply<T: PartialEq>(d: Action<T>, t: Option<T>) -> Option<Option<T>> {
    match (d, t) {
        (Action::None, t) => Some(t),
        (Action::Add(b), None) => Some(Some(b)),
        (Action::Add(_), Some(_)) => None,
        (Action::Remove(a), Some(x)) => if x.eq_spec(&a) { Some(None) } else { None },
        (Action::Remove(_), None) => None,
        (Action::Edit(a, b), Some(x)) => if x.eq_spec(&a) { Some(Some(b)) } else { None },
        (Action::Edit(_, _), None) => None,
    }
}
''')
    u.fn(A, 'apply_diff_option', ret='res', canary=True,
         sig_rewrites=[(r'T:\s*Debug\s*\+\s*Clone\s*\+\s*PartialEq', 'T: Clone + PartialEq')],
         requires=['T::obeys_eq_spec()'],
         ensures=[
             C('C04.apply.refused-iff-spec-refuses', 'res.is_err() <==> spec_apply(*diff, target) is None'),
             C('C04.apply.none-keeps-target', '*diff is None ==> res == Ok::<Option<T>, VErr>(target)'),
             C('C04.apply.add', 'diff matches Action::Add(b) ==> (target is None ==> (res matches Ok(Some(x)) && cloned(*b, x)))'),
             C('C04.apply.remove', 'diff matches Action::Remove(a) ==> (res.is_ok() ==> res == Ok::<Option<T>, VErr>(None))'),
             C('C04.apply.edit', 'diff matches Action::Edit(a, b) ==> (res.is_ok() ==> (res matches Ok(Some(x)) && cloned(*b, x)))'),
         ])
    u.fn(ACT, 'Action::is_diff', ret='r', impl=r'Action<T>', impl_which=0,
         requires=['T::obeys_eq_spec()'],
         ensures=[C('C04.action.is_diff', 'r == match *self { Action::None => false, Action::Add(_) => true, Action::Remove(_) => true, Action::Edit(a, b) => !a.eq_spec(&b) }')])
    u.fn(ACT, 'Action::from_tuple', ret='r', impl=r'Action<T>', impl_which=1,
         ensures=[C('C04.action.from_tuple', 'r == spec_from_tuple(a, b)')])
    u.fn(ACT, 'Action::to_tuple', ret='r', impl=r'Action<T>', impl_which=1,
         ensures=[C('C04.action.to_tuple', 'r == spec_to_tuple(self)')])
    u.fn(ACT, 'Action::flip', ret='r', impl=r'Action<T>', impl_which=1,
         ensures=[C('C04.action.flip', 'r == spec_flip(self)')])
    u.lemma('C04.lemma.tuple-isomorphism', '''
pub proof fn lemma_tuple_iso<T>(d: Action<T>, a: Option<T>, b: Option<T>)
    ensures
        spec_from_tuple(spec_to_tuple(d).0, spec_to_tuple(d).1) == d,
        spec_to_tuple(spec_from_tuple(a, b)) == (a, b),
        spec_flip(spec_flip(d)) == d,
{
}''')
    u.lemma('C04.lemma.diff-then-apply-is-exact', '''
// leaf inverse law: applying the action (a -> b) to a yields b, for every pair of optional leaf values
pub proof fn lemma_apply_gen_diff<T: PartialEq>(a: Option<T>, b: Option<T>)
    requires
        forall|x: T| #[trigger] x.eq_spec(&x),
    ensures
        spec_apply(spec_from_tuple(a, b), a) == Some(b),
        // and the flipped action takes b back to a
        spec_apply(spec_flip(spec_from_tuple(a, b)), b) == Some(a),
{
}''')
