"""rpool -- the reader's constant pool (duke/src/class_reader/pool.rs): PoolRead::read lays the entries out per JVMS 4.4 (tags, operand
order and widths, two index slots for long/double), PoolRead::get is an exact bounds-checked lookup, the integer/long accessors return the
stored constant.  `JavaString` is replaced by an opaque stand-in that remembers the raw bytes (modified-UTF-8 decoding is not verified)."""
import re

from vx.unit import C
from vx.units._cread import add_classread

PROPS = ['C01']
P = 'duke/src/class_reader/pool.rs'
CC = 'duke/src/class_constants.rs'
RLIMIT = 200

SPEC = r'''
// TRUSTED: VJavaString stands in for java_string::JavaString (an external crate type): it only remembers the bytes it was decoded from
pub struct VJavaString { pub raw: Vec<u8> }
// TRUSTED: external_body from_vec_to_string: duke::jstring::from_vec_to_string (modified UTF-8 decoding) is not verified; assumed to be a function of the bytes
#[verifier::external_body]
pub fn from_vec_to_string(vec: Vec<u8>) -> (res: Result<VJavaString, VErr>)
    ensures res matches Ok(s) ==> s.raw@ == vec@,
{ unimplemented!() }

// ---- JVMS 4.4: the cp_info at d[q..] is the encoding of e ----
pub open spec fn entry_len(e: PoolEntry) -> int {
    match e {
        PoolEntry::Utf8 { string } => 3 + string.raw@.len() as int,
        PoolEntry::Integer { .. } | PoolEntry::Float { .. } => 5,
        PoolEntry::Long { .. } | PoolEntry::Double { .. } => 9,
        PoolEntry::Class { .. } | PoolEntry::String { .. } | PoolEntry::MethodType { .. } | PoolEntry::Module { .. } | PoolEntry::Package { .. } => 3,
        PoolEntry::MethodHandle { .. } => 4,
        _ => 5,
    }
}
pub open spec fn u2(d: Seq<u8>, q: int) -> int { val16(d.subrange(q, q + 2)) }
pub open spec fn entry_at(d: Seq<u8>, q: int, e: PoolEntry) -> bool {
    match e {
        PoolEntry::Utf8 { string } => d[q] == 1 && u2(d, q + 1) == string.raw@.len() && d.subrange(q + 3, q + 3 + string.raw@.len()) == string.raw@,
        PoolEntry::Integer { bytes } => d[q] == 3 && sval32(d.subrange(q + 1, q + 5)) == bytes as int,
        PoolEntry::Float { bytes } => d[q] == 4 && val32(d.subrange(q + 1, q + 5)) == bytes as int,
        PoolEntry::Long { bytes } => d[q] == 5 && sval64(d.subrange(q + 1, q + 9)) == bytes as int,
        PoolEntry::Double { bytes } => d[q] == 6 && val64(d.subrange(q + 1, q + 9)) == bytes as int,
        PoolEntry::Class { name_index } => d[q] == 7 && u2(d, q + 1) == name_index,
        PoolEntry::String { string_index } => d[q] == 8 && u2(d, q + 1) == string_index,
        PoolEntry::FieldRef { class_index, name_and_type_index } => d[q] == 9 && u2(d, q + 1) == class_index && u2(d, q + 3) == name_and_type_index,
        PoolEntry::MethodRef { class_index, name_and_type_index } => d[q] == 10 && u2(d, q + 1) == class_index && u2(d, q + 3) == name_and_type_index,
        PoolEntry::InterfaceMethodRef { class_index, name_and_type_index } => d[q] == 11 && u2(d, q + 1) == class_index && u2(d, q + 3) == name_and_type_index,
        PoolEntry::NameAndType { name_index, descriptor_index } => d[q] == 12 && u2(d, q + 1) == name_index && u2(d, q + 3) == descriptor_index,
        PoolEntry::MethodHandle { reference_kind, reference_index } => d[q] == 15 && d[q + 1] == reference_kind && u2(d, q + 2) == reference_index,
        PoolEntry::MethodType { descriptor_index } => d[q] == 16 && u2(d, q + 1) == descriptor_index,
        PoolEntry::Dynamic { bootstrap_method_attribute_index, name_and_type_index } => d[q] == 17 && u2(d, q + 1) == bootstrap_method_attribute_index && u2(d, q + 3) == name_and_type_index,
        PoolEntry::InvokeDynamic { bootstrap_method_attribute_index, name_and_type_index } => d[q] == 18 && u2(d, q + 1) == bootstrap_method_attribute_index && u2(d, q + 3) == name_and_type_index,
        PoolEntry::Module { name_index } => d[q] == 19 && u2(d, q + 1) == name_index,
        PoolEntry::Package { name_index } => d[q] == 20 && u2(d, q + 1) == name_index,
    }
}
pub open spec fn is_wide(o: Option<PoolEntry>) -> bool { o matches Some(e) && (e is Long || e is Double) }
// position after the first k index slots (slot 0 is unused; the slot after a long/double holds no entry)
pub open spec fn pool_end(start: int, s: Seq<Option<PoolEntry>>, k: nat) -> int decreases k {
    if k <= 1 { start } else { pool_end(start, s, (k - 1) as nat) + (match s[k - 1] { Some(e) => entry_len(e), None => 0 }) }
}
pub open spec fn pool_ok(d: Seq<u8>, start: int, s: Seq<Option<PoolEntry>>, k: nat) -> bool decreases k {
    if k == 0 { true } else if k == 1 { s[0] is None } else {
        pool_ok(d, start, s, (k - 1) as nat) && (match s[k - 1] {
            Some(e) => !is_wide(s[k - 2]) && pool_end(start, s, (k - 1) as nat) + entry_len(e) <= d.len() && entry_at(d, pool_end(start, s, (k - 1) as nat), e),
            None => k >= 3 && is_wide(s[k - 2]),
        })
    }
}
pub proof fn lemma_pool_prefix(d: Seq<u8>, start: int, a: Seq<Option<PoolEntry>>, b: Seq<Option<PoolEntry>>, k: nat)
    requires k <= a.len(), k <= b.len(), forall|i: int| 0 <= i < k ==> a[i] == b[i]
    ensures pool_end(start, a, k) == pool_end(start, b, k), pool_ok(d, start, a, k) == pool_ok(d, start, b, k)
    decreases k
{
    if k > 0 { lemma_pool_prefix(d, start, a, b, (k - 1) as nat); }
}
'''


def build(u):
    u.preamble('common.rs')
    u.preamble('bytes.rs')
    u.preamble('rbytes.rs')
    add_classread(u, [], with_pos=False)
    u.item(CC, 'mod', 'pool')
    u.raw('pub struct VJavaStringDecl;  // (VJavaString is declared with the specs below)')
    u.item(P, 'enum', 'PoolEntry', derives=[], rewrites=[(r'\bJavaString\b', 'VJavaString')])
    u.item(P, 'struct', 'PoolRead')
    u.raw(SPEC)
    u.drop('JavaString -> VJavaString (opaque stand-in that remembers the raw bytes); jstring::from_vec_to_string -> trusted stub')

    d0, p0 = 'old(reader).data()', 'old(reader).pos()'
    start = f'{p0} + 2'
    cnt = f'u2({d0}, {p0})'
    u.fn(P, 'PoolRead::read', ret='res', canary=True,
         requires=[f'0 <= {p0}'],
         rewrites=[(r'jstring::from_vec_to_string\(', 'from_vec_to_string('), (r'\bvec!\[None\]', 'vec![None::<PoolEntry>]')],
         loops={0: dict(
             invariant=[
                 C('C01.pool.read.inv.nonempty', f'pool@.len() >= 1'),
                 C('C01.pool.read.inv.layout', f'pool_ok({d0}, {start}, pool@, pool@.len() as nat)'),
                 C('C01.pool.read.inv.position', f'reader.pos() == pool_end({start}, pool@, pool@.len() as nat)'),
                 C('C01.pool.read.inv.frame', f'reader.data() == {d0} && 0 <= {p0} && {p0} + 2 <= {d0}.len() && constant_pool_count as int == {cnt}'),
                 C('C01.pool.read.inv.count', 'pool@.len() <= constant_pool_count || (pool@.len() == constant_pool_count + 1 && pool@.last() is None) || (constant_pool_count == 0 && pool@.len() == 1)'),
                 C('C01.pool.read.inv.last-not-wide', '!is_wide(pool@.last())'),
             ],
             body_start='let ghost s0 = pool@; proof { reveal_with_fuel(pool_ok, 3); reveal_with_fuel(pool_end, 3); }',
             body_end=(f'proof {{ lemma_pool_prefix({d0}, {start}, s0, pool@, s0.len()); '
                       f'if pool@.len() == s0.len() + 2 {{ lemma_pool_prefix({d0}, {start}, pool@.subrange(0, s0.len() as int + 1), pool@, (s0.len() + 1) as nat); }} }}'),
             decreases='constant_pool_count + 1 - pool@.len()')},
         ensures=[
             C('C01.pool.read.layout-per-jvms', f'res matches Ok(p) ==> p.inner@.len() >= 1 && pool_ok({d0}, {start}, p.inner@, p.inner@.len() as nat)'),
             C('C01.pool.read.consumes-exactly-the-pool', f'res matches Ok(p) ==> final(reader).pos() == pool_end({start}, p.inner@, p.inner@.len() as nat)'),
             C('C01.pool.read.slot-count', f'res matches Ok(p) ==> ({cnt} <= p.inner@.len() <= {cnt} + 1) && (p.inner@.len() == {cnt} + 1 ==> {cnt} == 0 || p.inner@.last() is None)'),
             C('C01.pool.read.frame', f'final(reader).data() == {d0}'),
         ])
    u.fn(P, 'PoolRead::get', ret='res',
         ensures=[C('C01.pool.get.ok-iff-entry-present', 'res.is_ok() <==> ((index as int) < self.inner@.len() && self.inner@[index as int] is Some)'),
                  C('C01.pool.get.exact', 'res matches Ok(e) ==> self.inner@[index as int] == Some(*e)')])
    for name, var, ty in (('as_integer', 'Integer', 'i32'), ('as_long', 'Long', 'i64')):
        u.fn(P, f'PoolEntry::{name}', ret='res',
             ensures=[C(f'C01.pool.{name}.exact', f'res matches Ok(v) ==> *self == (PoolEntry::{var} {{ bytes: v }})'),
                      C(f'C01.pool.{name}.ok-iff-kind', f'res.is_ok() <==> self is {var}')])
    strip = [(r'\.pool_context\(index\)', '')]
    u.fn(P, 'PoolRead::get_integer', ret='res', rewrites=strip,
         ensures=[C('C01.pool.get_integer.exact', 'res matches Ok(v) ==> (index as int) < self.inner@.len() && self.inner@[index as int] == Some(PoolEntry::Integer { bytes: v })')])
    u.fn(P, 'PoolRead::get_long', ret='res', rewrites=strip,
         ensures=[C('C01.pool.get_long.exact', 'res matches Ok(v) ==> (index as int) < self.inner@.len() && self.inner@[index as int] == Some(PoolEntry::Long { bytes: v })')])
