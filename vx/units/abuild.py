"""abuild -- the tree-building visitors for annotations (duke/src/visitor/implementations/tree.rs): `impl NamedElementValueVisitor for
Annotation`, `impl UnnamedElementValueVisitor for Vec<ElementValue>`, `impl AnnotationsVisitor for Vec<Annotation>`, and Annotation::new.

C01 / C17: "nothing is invented, dropped or attached to the wrong member": the builder stores exactly what it is told: seen through the
abstraction `ev_of` / `pairs_of` / `vals_of` (unit aaccept: what a stored value tells a visitor), every visit call appends exactly the told
element at the end and changes nothing else; a nested annotation / array is stored with exactly the elements its own builder collected.  So the
tree builder is a faithful recording visitor: reading into the tree (unit rannot: the reader tells a visitor exactly the encoded values) and
replaying the tree (unit aaccept) compose to the identity on what a visitor is told.

The impls are emitted as inherent methods of Annotation / methods of local traits on Vec<..> with the associated types of the real traits
written out (the real traits cannot be declared in Verus: cyclic bounds); tuple patterns in parameter position are bound by a `let`."""
from vx.unit import C
from vx.units import rannot as RA
from vx.units import aaccept as AA

PROPS = ['C01', 'C17']
A = 'duke/src/tree/annotation.rs'
TB = 'duke/src/visitor/implementations/tree.rs'

ABS = r'''
pub open spec fn alog(a: Annotation) -> Pairs { pairs_of(a.element_value_pairs@, a.element_value_pairs@.len() as int) }
pub open spec fn vlog(v: Vec<ElementValue>) -> Seq<EvV> { vals_of(v@, v@.len() as int) }
pub proof fn lemma_pairs_push(ps: Seq<ElementValuePair>, x: ElementValuePair)
    ensures pairs_of(ps.push(x), ps.len() as int + 1) == pairs_of(ps, ps.len() as int).push((x.name, ev_of(x.value))),
{ lemma_pairs_of_prefix(ps, ps.push(x), ps.len() as int); }
pub proof fn lemma_pairs_of_prefix(a: Seq<ElementValuePair>, b: Seq<ElementValuePair>, k: int)
    requires 0 <= k <= a.len(), k <= b.len(), forall|j: int| 0 <= j < k ==> a[j] == b[j],
    ensures pairs_of(a, k) == pairs_of(b, k),
    decreases k,
{ if k > 0 { lemma_pairs_of_prefix(a, b, k - 1); } }
pub proof fn lemma_vals_push(vs: Seq<ElementValue>, x: ElementValue)
    ensures vals_of(vs.push(x), vs.len() as int + 1) == vals_of(vs, vs.len() as int).push(ev_of(x)),
{ lemma_vals_of_prefix(vs, vs.push(x), vs.len() as int); }
pub proof fn lemma_vals_of_prefix(a: Seq<ElementValue>, b: Seq<ElementValue>, k: int)
    requires 0 <= k <= a.len(), k <= b.len(), forall|j: int| 0 <= j < k ==> a[j] == b[j],
    ensures vals_of(a, k) == vals_of(b, k),
    decreases k,
{ if k > 0 { lemma_vals_of_prefix(a, b, k - 1); } }
// local stand-ins for the trait impls on Vec<..> (an inherent impl on a foreign type is not allowed)
pub trait UnnamedBuilder: Sized {
    fn visit(&mut self, value: Object) -> Result<(), VErr>;
    fn visit_enum(&mut self, type_name: FieldDescriptor, const_name: JavaString) -> Result<(), VErr>;
    fn visit_class(&mut self, class: ReturnDescriptor) -> Result<(), VErr>;
    fn visit_annotation(self, annotation_type: FieldDescriptor) -> Result<(Self, Annotation), VErr>;
    fn finish_annotation(this: Self, annotation_visitor: Annotation) -> Result<Self, VErr>;
    fn visit_array(self) -> Result<(Self, Vec<ElementValue>), VErr>;
    fn finish_array(this: Self, annotation_array_visitor: Vec<ElementValue>) -> Result<Self, VErr>;
}
pub trait AnnotsBuilder: Sized {
    fn visit_annotation(self, annotation_descriptor: FieldDescriptor) -> Result<(Self, Annotation), VErr>;
    fn finish_annotation(this: Self, named_element_values_visitor: Annotation) -> Result<Self, VErr>;
}
pub open spec fn annots_of(v: Seq<Annotation>, k: int) -> Seq<(FieldDescriptor, Pairs)> decreases k {
    if 0 < k <= v.len() { annots_of(v, k - 1).push((v[k - 1].annotation_type, alog(v[k - 1]))) } else { Seq::empty() }
}
pub proof fn lemma_annots_of_prefix(a: Seq<Annotation>, b: Seq<Annotation>, k: int)
    requires 0 <= k <= a.len(), k <= b.len(), forall|j: int| 0 <= j < k ==> a[j] == b[j],
    ensures annots_of(a, k) == annots_of(b, k),
    decreases k,
{ if k > 0 { lemma_annots_of_prefix(a, b, k - 1); } }
'''


def build(u):
    u.preamble('common.rs')
    st = RA.STUBS
    u.raw(st[:st.index('impl PoolRead {')] + st[st.index('impl FieldDescriptor {'):st.index('pub open spec fn u8_at')])
    u.item(A, 'enum', 'Object', derives=[])
    u.item(A, 'struct', 'Annotation', derives=[])
    u.item(A, 'struct', 'ElementValuePair', derives=[])
    u.item(A, 'enum', 'ElementValue', derives=[])
    sp = RA.SPEC
    u.raw(sp[:sp.index('// encoded sizes')])
    u.raw(AA.OF)
    u.raw(ABS)
    u.drop('trait impls of the annotation visitor traits emitted as inherent methods (Annotation) / free functions with `self` spelled `this_` (Vec<ElementValue>, Vec<Annotation>); associated types written out; `(mut this, name): T` parameters bound by a let')
    u.fn(A, 'Annotation::new', ret='r', canary=True,
         ensures=[C('C01.abuild.new.holds-the-type-and-no-pairs', 'r.annotation_type == annotation_type && r.element_value_pairs@ == Seq::<ElementValuePair>::empty() && alog(r) == Seq::<(JavaString, EvV)>::empty()')])
    NI = r'NamedElementValueVisitor\s+for\s+Annotation'
    H = 'impl Annotation'
    keep = 'final(self).annotation_type == old(self).annotation_type'
    push = lambda what: f'proof {{ lemma_pairs_push(old(self).element_value_pairs@, self.element_value_pairs@.last()); assert(self.element_value_pairs@ =~= old(self).element_value_pairs@.push(self.element_value_pairs@.last())); }}'  # noqa: E731
    for m, told in (('visit', 'EvV::Const(value)'), ('visit_enum', 'EvV::Enum(type_name, const_name)'), ('visit_class', 'EvV::Class(class)')):
        u.fn(TB, f'Annotation::{m}', impl=NI, impl_header=H, ret='res',
             proof_before=[(r'^\s*Ok\(\(\)\)\s*$', '        ' + push(m))],
             ensures=[C(f'C01.abuild.named.{m}.appends-exactly-what-it-is-told', f'res is Ok && alog(*final(self)) == alog(*old(self)).push((name, {told})) && {keep}')])
    sigfix = [(r'\(mut this, name\): Self::Annotation(?:Array)?Residual', 'this_: (Annotation, JavaString)'), (r'Self::AnnotationResidual', '(Annotation, JavaString)'),
              (r'Self::AnnotationArrayResidual', '(Annotation, JavaString)'), (r'Self::AnnotationVisitor', 'Annotation'), (r'Self::AnnotationArrayVisitor', 'Vec<ElementValue>')]
    def sf(sig_pats):
        return [p for p in sigfix if True]
    u.fn(TB, 'Annotation::visit_annotation', impl=NI, impl_header=H, ret='res', opt_rewrites=[], sig_rewrites=[sigfix[1], sigfix[3]],
         ensures=[C('C01.abuild.named.visit_annotation.hands-out-an-empty-builder-of-that-type',
                    'res matches Ok(p) && p.0.0 == self && p.0.1 == name && p.1.annotation_type == annotation_type && alog(p.1) == Seq::<(JavaString, EvV)>::empty()')])
    u.fn(TB, 'Annotation::finish_annotation', impl=NI, impl_header=H, ret='res', sig_rewrites=[sigfix[0], sigfix[3]],
         rewrites=[(r'^\{', '{ let (mut this, name) = this_; let ghost t0 = this;')],
         proof_before=[(r'^\s*Ok\(this\)\s*$', '        proof { lemma_pairs_push(t0.element_value_pairs@, this.element_value_pairs@.last()); assert(this.element_value_pairs@ =~= t0.element_value_pairs@.push(this.element_value_pairs@.last())); }')],
         ensures=[C('C01.abuild.named.finish_annotation.stores-the-nested-annotation-with-exactly-its-collected-pairs',
                    'res matches Ok(r) && alog(r) == alog(this_.0).push((this_.1, EvV::Annotation(annotation_visitor.annotation_type, alog(annotation_visitor)))) && r.annotation_type == this_.0.annotation_type')])
    u.fn(TB, 'Annotation::visit_array', impl=NI, impl_header=H, ret='res', sig_rewrites=[sigfix[2], sigfix[4]],
         ensures=[C('C01.abuild.named.visit_array.hands-out-an-empty-builder', 'res matches Ok(p) && p.0.0 == self && p.0.1 == name && vlog(p.1) == Seq::<EvV>::empty()')])
    u.fn(TB, 'Annotation::finish_array', impl=NI, impl_header=H, ret='res', sig_rewrites=[sigfix[0], sigfix[4]],
         rewrites=[(r'^\{', '{ let (mut this, name) = this_; let ghost t0 = this;')],
         proof_before=[(r'^\s*Ok\(this\)\s*$', '        proof { lemma_pairs_push(t0.element_value_pairs@, this.element_value_pairs@.last()); assert(this.element_value_pairs@ =~= t0.element_value_pairs@.push(this.element_value_pairs@.last())); }')],
         ensures=[C('C01.abuild.named.finish_array.stores-the-array-with-exactly-its-collected-values',
                    'res matches Ok(r) && alog(r) == alog(this_.0).push((this_.1, EvV::Array(vlog(annotation_array_visitor)))) && r.annotation_type == this_.0.annotation_type')])
    # ---- Vec<ElementValue>
    UI = r'UnnamedElementValueVisitor\s+for\s+Vec<ElementValue>'
    UH = 'impl UnnamedBuilder for Vec<ElementValue>'
    ufix = [(r'Self::AnnotationResidual', 'Self'), (r'Self::AnnotationArrayResidual', 'Self'), (r'Self::AnnotationVisitor', 'Annotation'), (r'Self::AnnotationArrayVisitor', 'Vec<ElementValue>')]
    vpush = 'proof { lemma_vals_push(old(self)@, self@.last()); assert(self@ =~= old(self)@.push(self@.last())); }'
    u.open_block(UH + ' {')
    for m, told in (('visit', 'EvV::Const(value)'), ('visit_enum', 'EvV::Enum(type_name, const_name)'), ('visit_class', 'EvV::Class(class)')):
        u.fn(TB, f'VecElementValue::{m}', impl=UI, bare=True, trait_impl=True, ret='res', container=None,
             proof_before=[(r'^\s*Ok\(\(\)\)\s*$', '        ' + vpush)],
             ensures=[C(f'C01.abuild.unnamed.{m}.appends-exactly-what-it-is-told', f'res is Ok && vlog(*final(self)) == vlog(*old(self)).push({told})')])
    u.fn(TB, 'VecElementValue::visit_annotation', impl=UI, bare=True, trait_impl=True, ret='res', sig_rewrites=[ufix[0], ufix[2]],
         ensures=[C('C01.abuild.unnamed.visit_annotation.hands-out-an-empty-builder-of-that-type', 'res matches Ok(p) && p.0 == self && p.1.annotation_type == annotation_type && alog(p.1) == Seq::<(JavaString, EvV)>::empty()')])
    u.fn(TB, 'VecElementValue::finish_annotation', impl=UI, bare=True, trait_impl=True, ret='res', sig_rewrites=[(r'mut this: Self::AnnotationResidual', 'this_: Self'), ufix[2]],
         rewrites=[(r'^\{', '{ let mut this = this_;')],
         proof_before=[(r'^\s*Ok\(this\)\s*$', '        proof { lemma_vals_push(this_@, this@.last()); assert(this@ =~= this_@.push(this@.last())); }')],
         ensures=[C('C01.abuild.unnamed.finish_annotation.stores-the-nested-annotation-with-exactly-its-collected-pairs',
                    'res matches Ok(r) && vlog(r) == vlog(this_).push(EvV::Annotation(annotation_visitor.annotation_type, alog(annotation_visitor)))')])
    u.fn(TB, 'VecElementValue::visit_array', impl=UI, bare=True, trait_impl=True, ret='res', sig_rewrites=[ufix[1], ufix[3]],
         ensures=[C('C01.abuild.unnamed.visit_array.hands-out-an-empty-builder', 'res matches Ok(p) && p.0 == self && vlog(p.1) == Seq::<EvV>::empty()')])
    u.fn(TB, 'VecElementValue::finish_array', impl=UI, bare=True, trait_impl=True, ret='res', sig_rewrites=[(r'mut this: Self::AnnotationArrayResidual', 'this_: Self'), ufix[3]],
         rewrites=[(r'^\{', '{ let mut this = this_;')],
         proof_before=[(r'^\s*Ok\(this\)\s*$', '        proof { lemma_vals_push(this_@, this@.last()); assert(this@ =~= this_@.push(this@.last())); }')],
         ensures=[C('C01.abuild.unnamed.finish_array.stores-the-array-with-exactly-its-collected-values', 'res matches Ok(r) && vlog(r) == vlog(this_).push(EvV::Array(vlog(annotation_array_visitor)))')])
    u.close_block()

    # ---- Vec<Annotation>
    VI = r'AnnotationsVisitor\s+for\s+Vec<Annotation>'
    u.open_block('impl AnnotsBuilder for Vec<Annotation> {')
    u.fn(TB, 'VecAnnotation::visit_annotation', impl=VI, bare=True, trait_impl=True, ret='res',
         sig_rewrites=[(r'Self::NamedElementValuesResidual', 'Self'), (r'Self::NamedElementValuesVisitor', 'Annotation')],
         ensures=[C('C01.abuild.annotations.visit_annotation.hands-out-an-empty-builder-of-that-type', 'res matches Ok(p) && p.0 == self && p.1.annotation_type == annotation_descriptor && alog(p.1) == Seq::<(JavaString, EvV)>::empty()')])
    u.fn(TB, 'VecAnnotation::finish_annotation', impl=VI, bare=True, trait_impl=True, ret='res',
         sig_rewrites=[(r'mut this: Self::NamedElementValuesResidual', 'this_: Self'), (r'Self::NamedElementValuesVisitor', 'Annotation')],
         rewrites=[(r'^\{', '{ let mut this = this_;')],
         proof_before=[(r'^\s*Ok\(this\)\s*$', '        proof { lemma_annots_of_prefix(this_@, this@, this_@.len() as int); assert(this@ =~= this_@.push(named_element_values_visitor)); }')],
         ensures=[C('C01.abuild.annotations.finish_annotation.stores-the-annotation-with-exactly-its-collected-pairs',
                    'res matches Ok(r) && annots_of(r@, r@.len() as int) == annots_of(this_@, this_@.len() as int).push((named_element_values_visitor.annotation_type, alog(named_element_values_visitor)))')])
    u.close_block()

    # ---- Vec<TypeAnnotation<T>>
    u.raw('''
#[verifier::external_body] pub struct TypePath { _p: () }
pub trait TAnnotsBuilder<T>: Sized {
    fn visit_type_annotation(self, type_reference: T, type_path: TypePath, annotation_descriptor: FieldDescriptor) -> Result<((Self, T, TypePath), Annotation), VErr>;
    fn finish_type_annotation(this_: (Self, T, TypePath), named_element_values_visitor: Annotation) -> Result<Self, VErr>;
}
''')
    TA = 'duke/src/tree/type_annotation.rs'
    u.item(TA, 'struct', 'TypeAnnotation', derives=[])
    u.fn(TA, 'TypeAnnotation::new', impl=r'TypeAnnotation<T>', impl_header='impl<T> TypeAnnotation<T>', ret='r', props=[],
         ensures=[C('ctx.type_annotation.new', 'r.type_reference == type_reference && r.type_path == type_path && r.annotation == annotation')])
    TI = r'TypeAnnotationsVisitor<T>\s+for\s+Vec<TypeAnnotation<T>>'
    u.open_block('impl<T> TAnnotsBuilder<T> for Vec<TypeAnnotation<T>> {')
    tfix = [(r'Self::NamedElementValuesResidual', '(Self, T, TypePath)'), (r'Self::NamedElementValuesVisitor', 'Annotation')]
    u.fn(TB, 'VecTypeAnnotation::visit_type_annotation', impl=TI, bare=True, trait_impl=True, ret='res', sig_rewrites=tfix,
         ensures=[C('C01.abuild.type-annotations.visit.hands-out-an-empty-builder-and-remembers-target-and-path',
                    'res matches Ok(p) && p.0.0 == self && p.0.1 == type_reference && p.0.2 == type_path && p.1.annotation_type == annotation_descriptor && alog(p.1) == Seq::<(JavaString, EvV)>::empty()')])
    u.fn(TB, 'VecTypeAnnotation::finish_type_annotation', impl=TI, bare=True, trait_impl=True, ret='res',
         sig_rewrites=[(r'\(mut this, type_reference, type_path\): Self::NamedElementValuesResidual', 'this_: (Self, T, TypePath)'), tfix[1]],
         rewrites=[(r'^\{', '{ let (mut this, type_reference, type_path) = this_;')],
         ensures=[C('C01.abuild.type-annotations.finish.stores-target-path-and-the-collected-annotation-at-the-end',
                    'res matches Ok(r) && r@ == this_.0@.push(TypeAnnotation { type_reference: this_.1, type_path: this_.2, annotation: named_element_values_visitor })')])
    u.close_block()
