"""wput -- de-duplication and slot accounting of the writer's constant pool (duke/src/simple_class_writer/pool.rs PoolWrite::put).

C02: "every index in range and of the right kind": `put` hands out, for an entry already known, the index it was given before and changes
nothing; for a new entry the next free slot (the old constant_pool_count), appends the entry, and advances the count by one slot, by two for
long / double (JVMS 4.4.5), failing cleanly (nothing changed) when the count would exceed 65535.  Invariant pw_wf: the k-th entry of `inner`
has the index 1 + the widths of the entries before it, `count` is the next free slot, the map knows exactly the entries of `inner` under those
indices -- the layout PoolWrite::write emits (unit wpool) and the reader's pool layout (unit rpool: two slots for long / double).
The HashMap is behind an abstract view: `self.map.entry(e)` keeps its text, `entry.insert(index)` becomes `self.map.insert_vacant(entry, index)`."""
from vx.unit import C
from vx.units import wpool as WP

PROPS = ['C02']
P = WP.P
RLIMIT = 150

MAP = r"""
// TRUSTED: std::collections::HashMap<PoolEntry, u16> behind an abstract view (VMap): `map.entry(k)` answers Occupied(value) exactly when the key is present, inserting through a vacant entry adds exactly that key (assumed: the std HashMap with the derived Hash / Eq of PoolEntry)
pub struct VMap<'a> { pub m: Ghost<Map<PoolEntry<'a>, u16>> }
pub struct VOccupied { pub v: u16 }
pub struct VVacant<'a> { pub k: PoolEntry<'a> }
pub enum Entry<'a> { Occupied(VOccupied), Vacant(VVacant<'a>) }
impl VOccupied { pub fn get(&self) -> (r: &u16) ensures *r == self.v { &self.v } }
impl<'a> VVacant<'a> { pub fn key(&self) -> (r: &PoolEntry<'a>) ensures *r == self.k { &self.k } }
impl<'a> PoolEntry<'a> { #[verifier::external_body] pub fn clone(&self) -> (r: PoolEntry<'a>) ensures r == *self { unimplemented!() } }
impl<'a> VMap<'a> {
    #[verifier::external_body] pub fn entry(&self, k: PoolEntry<'a>) -> (r: Entry<'a>)
        ensures self.m@.contains_key(k) ==> r == Entry::Occupied(VOccupied { v: self.m@[k] }), !self.m@.contains_key(k) ==> r == Entry::Vacant(VVacant { k }) { unimplemented!() }
    #[verifier::external_body] pub fn insert_vacant(&mut self, e: VVacant<'a>, v: u16)
        requires !old(self).m@.contains_key(e.k)
        ensures final(self).m@ == old(self).m@.insert(e.k, v) { unimplemented!() }
}
pub struct PoolWrite<'a> { pub count: u16, pub inner: Vec<PoolEntry<'a>>, pub map: VMap<'a> }

// ---- the index the pool assigns: slot 0 is unused, a long / double takes two slots (JVMS 4.4.5) ----
pub open spec fn width(e: PoolEntry) -> int { if e is Long || e is Double { 2 } else { 1 } }
pub open spec fn slot_of(s: Seq<PoolEntry>, k: int) -> int decreases k { if k <= 0 { 1 } else { slot_of(s, k - 1) + width(s[k - 1]) } }
pub open spec fn idx_ok(p: PoolWrite, k: int) -> bool { p.map.m@.contains_key(p.inner@[k]) && p.map.m@[p.inner@[k]] as int == slot_of(p.inner@, k) }
pub open spec fn known(p: PoolWrite, e: PoolEntry) -> bool { exists|k: int| 0 <= k < p.inner@.len() && #[trigger] p.inner@[k] == e }
pub open spec fn pw_wf(p: PoolWrite) -> bool {
    &&& p.count as int == slot_of(p.inner@, p.inner@.len() as int)
    &&& forall|k: int| 0 <= k < p.inner@.len() ==> #[trigger] idx_ok(p, k)
    &&& forall|e: PoolEntry| #[trigger] p.map.m@.contains_key(e) ==> known(p, e)
}
pub proof fn lemma_slot_prefix(a: Seq<PoolEntry>, b: Seq<PoolEntry>, k: int)
    requires 0 <= k <= a.len(), k <= b.len(), forall|j: int| 0 <= j < k ==> a[j] == b[j],
    ensures slot_of(a, k) == slot_of(b, k),
    decreases k,
{ if k > 0 { lemma_slot_prefix(a, b, k - 1); } }
pub proof fn lemma_slot_mono(s: Seq<PoolEntry>, j: int, k: int)
    requires 0 <= j <= k,
    ensures 1 <= slot_of(s, j) <= slot_of(s, k), j < k ==> slot_of(s, j) < slot_of(s, k),
    decreases k - j,
{ if j < k { lemma_slot_mono(s, j, k - 1); } else { lemma_slot_pos(s, j); } }
pub proof fn lemma_slot_pos(s: Seq<PoolEntry>, k: int)
    ensures slot_of(s, k) >= 1,
    decreases k,
{ if k > 0 { lemma_slot_pos(s, k - 1); } }
// adding an unknown entry at the next free slot keeps the invariant
pub proof fn lemma_put_new(p0: PoolWrite, p1: PoolWrite, e: PoolEntry)
    requires pw_wf(p0), !p0.map.m@.contains_key(e), p1.inner@ == p0.inner@.push(e), p1.map.m@ == p0.map.m@.insert(e, p0.count),
        p1.count as int == p0.count + width(e),
    ensures pw_wf(p1),
{
    let a = p0.inner@; let b = p1.inner@;
    assert forall|k: int| 0 <= k <= a.len() implies slot_of(b, k) == slot_of(a, k) by { lemma_slot_prefix(a, b, k); }
    assert(slot_of(b, b.len() as int) == slot_of(b, a.len() as int) + width(b[a.len() as int]));
    assert forall|k: int| 0 <= k < b.len() implies #[trigger] idx_ok(p1, k) by {
        if k < a.len() { assert(idx_ok(p0, k)); assert(a[k] == b[k]); assert(a[k] != e); } else { assert(b[k] == e); }
    }
    assert forall|x: PoolEntry| #[trigger] p1.map.m@.contains_key(x) implies known(p1, x) by {
        if x == e { assert(b[a.len() as int] == x); } else { assert(known(p0, x)); let k = choose|k: int| 0 <= k < a.len() && #[trigger] a[k] == x; assert(b[k] == x); }
    }
}
"""


def build(u):
    u.preamble('common.rs')
    u.preamble('bytes.rs')
    u.item(WP.CC, 'mod', 'pool')
    u.raw(WP.SPEC.split('// ---- JVMS 4.4')[0])
    u.item(P, 'enum', 'PoolEntry', derives=[], rewrites=[(r"&'a JavaStr", "&'a VJavaStr")])
    u.raw(MAP)
    u.drop('struct PoolWrite reduced to the fields used by PoolWrite::put (count, inner, map: HashMap -> abstract VMap); `entry.insert(index)` -> `self.map.insert_vacant(entry, index)`; matches!(..) -> match')
    u.fn(P, 'PoolWrite::put', impl=r"PoolWrite<'a>", impl_header="impl<'a> PoolWrite<'a>", ret='res', canary=True,
         sig_rewrites=[(r"fn put<'b: 'a>\(&mut self, entry: PoolEntry<'b>\)", "fn put(&mut self, entry: PoolEntry<'a>)")],
         rewrites=[(r'entry\.insert\(index\);', 'self.map.insert_vacant(entry, index);'),
                   (r'matches!\(entry\.key\(\), PoolEntry::Long \{ \.\. \} \| PoolEntry::Double \{ \.\. \}\)', '(match entry.key() { PoolEntry::Long { .. } => true, PoolEntry::Double { .. } => true, _ => false })')],
         requires=['pw_wf(*old(self))'],
         head_proof='let ghost e0 = entry; proof { if old(self).map.m@.contains_key(e0) { assert(known(*old(self), e0)); let k = choose|k: int| 0 <= k < old(self).inner@.len() && #[trigger] old(self).inner@[k] == e0; assert(idx_ok(*old(self), k)); lemma_slot_mono(old(self).inner@, 0, k); lemma_slot_mono(old(self).inner@, k, old(self).inner@.len() as int); } }',
         proof_before=[(r'^\s*Ok\(index\)\s*$', '                proof { lemma_put_new(*old(self), *self, e0); lemma_slot_mono(old(self).inner@, 0, old(self).inner@.len() as int); }')],
         ensures=[
             C('C02.wput.invariant-kept', 'pw_wf(*final(self))'),
             C('C02.wput.known-entry-gets-its-index-and-nothing-changes', 'old(self).map.m@.contains_key(entry) ==> res == Ok::<u16, VErr>(old(self).map.m@[entry]) && *final(self) == *old(self)'),
             C('C02.wput.new-entry-is-appended-at-the-next-free-slot',
               '!old(self).map.m@.contains_key(entry) && res.is_ok() ==> res == Ok::<u16, VErr>(old(self).count) && final(self).inner@ == old(self).inner@.push(entry) '
               '&& final(self).count as int == old(self).count + width(entry) && final(self).map.m@ == old(self).map.m@.insert(entry, old(self).count)'),
             C('C02.wput.fails-only-on-slot-overflow-and-then-changes-nothing', 'res.is_err() ==> !old(self).map.m@.contains_key(entry) && old(self).count + width(entry) > 65535 && *final(self) == *old(self)'),
             C('C02.wput.index-is-in-range-and-names-the-entry', 'res matches Ok(i) ==> 1 <= i < final(self).count && final(self).map.m@.contains_key(entry) && final(self).map.m@[entry] == i'),
         ])
