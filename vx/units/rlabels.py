"""rlabels -- reader side bytecode-offset -> Label table (duke/src/class_reader/labels.rs)"""
from vx.unit import C

PROPS = ['C01']
F = 'duke/src/class_reader/labels.rs'
CODE = 'duke/src/tree/method/code.rs'

FRAME = [
    ('frame', 'forall|k: u16| #![trigger final(self).labels@.contains_key(k)] #![trigger old(self).labels@.contains_key(k)] old(self).labels@.contains_key(k) ==> final(self).labels@.contains_key(k) && final(self).labels@[k] == old(self).labels@[k]'),
    ('dom', 'forall|k: u16| #[trigger] final(self).labels@.contains_key(k) ==> (k == pc || old(self).labels@.contains_key(k))'),
    ('len', 'final(self).code_length == old(self).code_length'),
]


def build(u):
    u.preamble('common.rs')
    add_reader_labels(u, None, canary=True)


def add_reader_labels(u, props, canary=False):
    """the reader's Labels table with its contracts; props=None: obligations counted for the unit's properties, props=[]: context only"""
    kw = {} if props is None else dict(props=props)
    u.item(CODE, 'struct', 'Label', derives=['Copy', 'Clone', 'PartialEq', 'Eq'])
    u.item(CODE, 'struct', 'LabelRange', derives=[])
    u.item(F, 'struct', 'Labels')
    u.raw('''
// ghost invariant of the reader table: ids are handed out in increasing order, so the
// offset -> label map is injective ("nothing attached to the wrong offset")
pub open spec fn labels_wf(l: Labels) -> bool {
    &&& forall|k: u16| #[trigger] l.labels@.contains_key(k) ==> l.labels@[k].id < l.max_id
    &&& forall|a: u16, b: u16| l.labels@.contains_key(a) && l.labels@.contains_key(b) && a != b
            ==> (#[trigger] l.labels@[a]).id != (#[trigger] l.labels@[b]).id
}
''')
    # HashMap::entry().or_insert_with(closure capturing &mut self.max_id) is outside Verus' subset
    u.fn(F, 'Labels::get_or_add_unchecked', ret='r', external_body=True,
         requires=['labels_wf(*old(self))'],
         ensures=[C('assumed.goau.' + n, t) for n, t in FRAME] + [
             C('assumed.goau.has', 'final(self).labels@.contains_key(pc) && *r == final(self).labels@[pc] && *final(r) == *r'),
             C('assumed.goau.wf', 'labels_wf(*final(self))'),
         ], **kw)
    u.fn(F, 'Labels::new', ret='r', **kw,
         ensures=[C('C01.rlabels.new.empty', 'r.labels@ == Map::<u16, Label>::empty() && r.code_length == code_length && r.max_id == 0 && labels_wf(r)')])

    # the id counter is a u16: that ids stay unique (fewer than 65536 labels) is part of the assumed contract of get_or_add_unchecked
    pre = ['labels_wf(*old(self))']
    u.fn(F, 'Labels::create', ret='res', requires=pre, canary=canary, **kw,
         ensures=[
             C('C01.rlabels.create.ok-iff-in-bounds', 'res.is_ok() <==> pc < old(self).code_length'),
             C('C01.rlabels.create.present', 'res.is_ok() ==> final(self).labels@.contains_key(pc)'),
             C('C01.rlabels.create.err-unchanged', 'res.is_err() ==> *final(self) == *old(self)'),
             C('C01.rlabels.create.wf', 'labels_wf(*final(self))'),
         ] + [C('C01.rlabels.create.' + n, t) for n, t in FRAME])
    u.fn(F, 'Labels::get_or_create', ret='res', requires=pre, **kw,
         ensures=[
             C('C01.rlabels.goc.ok-iff-in-bounds', 'res.is_ok() <==> pc < old(self).code_length'),
             C('C01.rlabels.goc.returns-entry', 'res matches Ok(l) ==> final(self).labels@.contains_key(pc) && l == final(self).labels@[pc]'),
             C('C01.rlabels.goc.err-unchanged', 'res.is_err() ==> *final(self) == *old(self)'),
             C('C01.rlabels.goc.wf', 'labels_wf(*final(self))'),
         ] + [C('C01.rlabels.goc.' + n, t) for n, t in FRAME])
    u.fn(F, 'Labels::get_or_create_check_exclusive', ret='res', requires=pre, **kw,
         ensures=[
             C('C01.rlabels.gocx.ok-iff-in-bounds-inclusive', 'res.is_ok() <==> pc <= old(self).code_length'),
             C('C01.rlabels.gocx.returns-entry', 'res matches Ok(l) ==> final(self).labels@.contains_key(pc) && l == final(self).labels@[pc]'),
             C('C01.rlabels.gocx.err-unchanged', 'res.is_err() ==> *final(self) == *old(self)'),
             C('C01.rlabels.gocx.wf', 'labels_wf(*final(self))'),
         ] + [C('C01.rlabels.gocx.' + n, t) for n, t in FRAME])
    u.fn(F, 'Labels::get_or_create_range', ret='res', **kw,
         requires=['labels_wf(*old(self))'],
         ensures=[
             C('C01.rlabels.range.ok-iff', 'res.is_ok() <==> (start_pc < old(self).code_length && start_pc as int + length as int <= old(self).code_length as int)'),
             C('C01.rlabels.range.resolves-through-table',
               'res matches Ok(r) ==> final(self).labels@.contains_key(start_pc) && final(self).labels@.contains_key((start_pc + length) as u16) '
               '&& r.start == final(self).labels@[start_pc] && r.end == final(self).labels@[(start_pc + length) as u16]'),
             C('C01.rlabels.range.frame', 'forall|k: u16| #![trigger final(self).labels@.contains_key(k)] #![trigger old(self).labels@.contains_key(k)] old(self).labels@.contains_key(k) ==> final(self).labels@.contains_key(k) && final(self).labels@[k] == old(self).labels@[k]'),
             C('C01.rlabels.range.len', 'final(self).code_length == old(self).code_length'),
             C('C01.rlabels.range.wf', 'labels_wf(*final(self))'),
         ])
    u.fn(F, 'Labels::get', ret='r', **kw,
         ensures=[C('C01.rlabels.get.exact', 'r == (if self.labels@.contains_key(pc) { Some(self.labels@[pc]) } else { None::<Label> })')])
    u.fn(F, 'Labels::try_get', ret='res', **kw,
         ensures=[
             C('C01.rlabels.try_get.ok-iff-present', 'res.is_ok() <==> self.labels@.contains_key(pc)'),
             C('C01.rlabels.try_get.nothing-invented', 'res matches Ok(l) ==> l == self.labels@[pc]'),
         ])
