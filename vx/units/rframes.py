"""rframes -- the StackMapTable loop of the code reader (duke/src/class_reader.rs read_code), lifted as a region:

    let mut offset = 0; let number_of_entries = ..; let mut frames = VecDeque::with_capacity(..);
    for i in 0..number_of_entries { let (offset_delta, frame_data) = read_stack_map_frame(..)?; offset += offset_delta + (if i == 0 {0} else {1}); .. }

becomes `fn read_frames(reader, pool, labels) -> Result<Vec<(Label, StackMapData)>>`.  JVMS 4.7.4: the bytecode offset of frame 0 is
offset_delta, of every later frame previous + offset_delta + 1.  Every frame is attached to the label of exactly that offset; an offset
that leaves the code array (or the u16 range) is an error, never a panic.  `read_stack_map_frame` itself (closures capturing `&mut
labels` inside `read_vec`) is outside the Verus subset: it is an external_body stub returning an arbitrary (offset_delta, data)."""
import re

from vx.unit import C
from vx.rustcut import CutError, code_mask, match_close, loop_headers
from vx.units._cread import add_classread
from vx.units.rlabels import add_reader_labels

PROPS = ['C01']
R = 'duke/src/class_reader.rs'

STUBS = r'''
// TRUSTED: StackMapData / PoolRead are opaque here; external_body read_stack_map_frame: the nested fn of read_code that decodes one stack_map_frame (uses closures capturing &mut labels: outside the Verus subset); assumed to return some (offset_delta, data), to keep the label table well-formed and every existing label
#[verifier::external_body] pub struct StackMapData { _p: () }
#[verifier::external_body] pub struct PoolRead { _p: () }
pub open spec fn labels_kept(a: Labels, b: Labels) -> bool {
    b.code_length == a.code_length
    && forall|k: u16| #![trigger b.labels@.contains_key(k)] #![trigger a.labels@.contains_key(k)] a.labels@.contains_key(k) ==> b.labels@.contains_key(k) && b.labels@[k] == a.labels@[k]
}
#[verifier::external_body]
pub fn read_stack_map_frame<Rd: ClassRead>(reader: &mut Rd, pool: &PoolRead, labels: &mut Labels) -> (res: Result<(u16, StackMapData), VErr>)
    requires labels_wf(*old(labels)),
    ensures labels_wf(*final(labels)), labels_kept(*old(labels), *final(labels)), final(reader).data() == old(reader).data(),
{ unimplemented!() }
// JVMS 4.7.4: bytecode offset of the k-th frame, given the offset_delta of frames 0..k
pub proof fn lemma_frame_offset_prefix(a: Seq<u16>, b: Seq<u16>, k: int)
    requires 0 <= k < a.len(), a.len() <= b.len(), forall|j: int| 0 <= j < a.len() ==> a[j] == b[j]
    ensures frame_offset(a, k) == frame_offset(b, k)
    decreases k
{ if k > 0 { lemma_frame_offset_prefix(a, b, k - 1); } }
pub open spec fn frames_attached(fr: Seq<(Label, StackMapData)>, l: Labels, deltas: Seq<u16>) -> bool {
    deltas.len() == fr.len() && forall|k: int| 0 <= k < fr.len() ==> 0 <= #[trigger] frame_offset(deltas, k) < l.code_length
        && l.labels@.contains_key(frame_offset(deltas, k) as u16) && fr[k].0 == l.labels@[frame_offset(deltas, k) as u16]
}
pub open spec fn frame_offset(deltas: Seq<u16>, k: int) -> int decreases k {
    if k < 0 || k >= deltas.len() { -1 } else if k == 0 { deltas[0] as int } else { frame_offset(deltas, k - 1) + deltas[k] as int + 1 }
}
'''


def frames_region(u):
    s = u.src(R)
    f = s.cut_fn('read_code')
    body = f['body']
    mask = code_mask(body)
    m = re.search(r'let\s+mut\s+offset\s*=\s*0\s*;\s*let\s+number_of_entries\s*=\s*reader\.read_u16_as_usize\(\)\?\s*;\s*let\s+mut\s+frames\s*=\s*std::collections::VecDeque::with_capacity\(number_of_entries\)\s*;\s*for\s+i\s+in\s+0\.\.number_of_entries\s*\{', mask)
    if not m:
        raise CutError('read_code: StackMapTable region (let mut offset = 0; .. for i in 0..number_of_entries {) not found')
    ob = m.end() - 1
    cb = match_close(mask, ob)
    region = body[m.start():cb + 1]
    # drop the nested fn (it is declared as a stub above)
    rm = code_mask(region)
    nf = re.search(r'fn\s+read_stack_map_frame\s*\(', rm)
    if not nf:
        raise CutError('read_code: nested fn read_stack_map_frame not found in the StackMapTable loop')
    i = rm.find('{', nf.end())
    # skip parameter list / return type to the body brace
    p = rm.find('(', nf.start())
    pc = match_close(rm, p)
    i = rm.find('{', pc)
    ic = match_close(rm, i)
    region = region[:nf.start()] + '\n' * region[nf.start():ic + 1].count('\n') + region[ic + 1:]
    u.drop('region of read_code lifted into a function: the StackMapTable loop -> fn read_frames(reader, pool, labels); nested fn read_stack_map_frame replaced by its stub; VecDeque -> Vec (push_back -> push)')
    return dict(body='{ ' + region + ' proof { assert(frames_attached(frames@, *labels, deltas)); let ghost r = Ok::<Vec<(Label, StackMapData)>, VErr>(frames); assert(r.unwrap()@ == frames@); assert(frames_attached(r.unwrap()@, *labels, deltas)); } Ok(frames) }', line=s.line_of(f['open'] + m.start()))


def build(u):
    u.preamble('common.rs')
    u.preamble('bytes.rs')
    u.preamble('rbytes.rs')
    add_classread(u, [], with_pos=False)
    add_reader_labels(u, [])
    u.raw(STUBS)
    reg = frames_region(u)
    u.fn(R, 'read_code::read_frames', ret='res', canary=True,
         synth=dict(sig='pub fn read_frames<Rd: ClassRead>(reader: &mut Rd, pool: &PoolRead, labels: &mut Labels) -> Result<Vec<(Label, StackMapData)>>',
                    body=reg['body'], line=reg['line']),
         requires=['labels_wf(*old(labels))'],
         rewrites=[(r'let mut offset = 0;', 'let mut offset: u16 = 0; let ghost mut deltas: Seq<u16> = Seq::empty();'),
                   (r'std::collections::VecDeque::with_capacity\(number_of_entries\)', 'Vec::<(Label, StackMapData)>::with_capacity(number_of_entries)'),
                   (r'frames\.push_back\(', 'frames.push('),
                   (r'&mut labels\b', 'labels'),
                   (r'for i in 0\.\.number_of_entries', 'for i in iter: 0..number_of_entries'),
                   (r'(let \(offset_delta, frame_data\) = read_stack_map_frame\([^;]*;)', r'\1 proof { deltas = deltas.push(offset_delta); }')],
         loops={0: dict(invariant=[
             C('C01.frames.inv.offsets', 'deltas.len() == iter.index@ && frames@.len() == iter.index@ && (iter.index@ > 0 ==> offset as int == frame_offset(deltas, iter.index@ - 1)) && (iter.index@ == 0 ==> offset == 0)'),
             C('C01.frames.inv.attached', 'forall|k: int| 0 <= k < frames@.len() ==> 0 <= #[trigger] frame_offset(deltas, k) < labels.code_length && labels.labels@.contains_key(frame_offset(deltas, k) as u16) '
                                          '&& frames@[k].0 == labels.labels@[frame_offset(deltas, k) as u16]'),
             C('C01.frames.inv.frame', 'labels_wf(*labels) && labels_kept(*old(labels), *labels)'),
         ], body_start='let ghost d0 = deltas; let ghost l0 = *labels; let ghost o0 = offset;',
            body_end='proof { let n = d0.len() as int; assert(i as int == n); assert(deltas.len() == n + 1 && deltas[n] == offset_delta); '
                     'assert forall|k: int| 0 <= k < n implies #[trigger] frame_offset(deltas, k) == frame_offset(d0, k) by { lemma_frame_offset_prefix(d0, deltas, k); } '
                     'if n > 0 { assert(o0 as int == frame_offset(d0, n - 1)); assert(frame_offset(deltas, n - 1) == frame_offset(d0, n - 1)); assert(offset as int == o0 as int + offset_delta as int + 1); } else { assert(o0 == 0); assert(offset == offset_delta); } assert(offset as int == frame_offset(deltas, n)); '
                     'assert(labels_kept(l0, *labels)); }')},
         ensures=[
             C('C01.frames.every-frame-is-attached-to-its-jvms-offset',
               'res.is_ok() ==> exists|dd: Seq<u16>| #[trigger] frames_attached(res.unwrap()@, *final(labels), dd)'),
             C('C01.frames.frame', 'labels_wf(*final(labels)) && labels_kept(*old(labels), *final(labels))'),
         ])
