"""scope -- Maven scope composition table (maven_dependency_resolver/src/lib.rs, nested fn the_scope_table)"""
from vx.unit import C

PROPS = ['C19']
F = 'maven_dependency_resolver/src/lib.rs'


def build(u):
    u.preamble('common.rs')
    u.item(F, 'enum', 'DependencyScope', derives=['Copy', 'Clone', 'PartialEq', 'Eq'],
           rewrites=[(r'#\[serde\([^\]]*\)\]\s*', ''), (r'#\[default\]\s*', '')])
    u.raw('''
// "Introduction to the Dependency Mechanism", table in section Dependency Scope:
// left column = scope of the dependency on X, top row = scope X gives to its own dependency, cell = resulting scope, `-` = omitted.
pub open spec fn maven_table(left: DependencyScope, top: DependencyScope) -> Option<DependencyScope> {
    match top {
        DependencyScope::Compile => Some(left),
        DependencyScope::Runtime => Some(if left == DependencyScope::Compile { DependencyScope::Runtime } else { left }),
        DependencyScope::Provided => None,
        DependencyScope::Test => None,
        DependencyScope::System => None,
    }
}
''')
    u.fn(F, 'the_scope_table', inside_fn='get_dependencies_tree', ret='r', canary=True,
         ensures=[
             C('C19.scope.non-transitive-scopes-cut', '(top_row == DependencyScope::Provided || top_row == DependencyScope::Test || top_row == DependencyScope::System) ==> r is None'),
             C('C19.scope.documented-table', 'left_column != DependencyScope::System ==> r == maven_table(left_column, top_row)'),
             C('C19.scope.compile-row', 'left_column == DependencyScope::Compile && top_row == DependencyScope::Compile ==> r == Some(DependencyScope::Compile)'),
             C('C19.scope.compile-runtime', 'left_column == DependencyScope::Compile && top_row == DependencyScope::Runtime ==> r == Some(DependencyScope::Runtime)'),
             C('C19.scope.test-row', 'left_column == DependencyScope::Test && (top_row == DependencyScope::Compile || top_row == DependencyScope::Runtime) ==> r == Some(DependencyScope::Test)'),
             C('C19.scope.provided-row', 'left_column == DependencyScope::Provided && (top_row == DependencyScope::Compile || top_row == DependencyScope::Runtime) ==> r == Some(DependencyScope::Provided)'),
             C('C19.scope.runtime-row', 'left_column == DependencyScope::Runtime && (top_row == DependencyScope::Compile || top_row == DependencyScope::Runtime) ==> r == Some(DependencyScope::Runtime)'),
         ])
