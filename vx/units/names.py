"""names -- the JVMS 4.2.2 name predicates of duke (duke/src/tree/mod.rs, mod names): is_valid_unqualified_name (field, parameter, local variable
names) and is_valid_method_name; every `TryFrom` / `is_valid` / `check_valid` of FieldName, MethodName, ParameterName, LocalVariableName goes
through them.

C18: "... names are accepted exactly when the JVMS grammar accepts them": for ALL strings, is_valid_unqualified_name(x) is true exactly when x
is non-empty and holds none of `.` `;` `[` `/` (JVMS 4.2.2), and is_valid_method_name(x) exactly when x is `<init>`, `<clinit>`, or non-empty
without any of `.` `;` `[` `/` `<` `>`.

What the extraction changes (each rule is the definition of the std item it removes, stated as an assumption): java_string is the code point
mirror of vx/preamble/desc.rs; `x.chars().all(|c| P)` keeps its text, the closure gets its own body as `ensures` (`|c| P` ->
`|c: char| -> (b: bool) ensures b == (P) { P }`) and `Chars::all` is a verified mirror with the contract of Iterator::all (true: the predicate
accepted every item; false: it refused one); `x == "lit"` -> `x.eq_chars(&[..])` (equality of the code point sequences); the `JavaCodePoint`
constants are read from the source by pattern (`const X: JavaCodePoint = JavaCodePoint::from_char('c');` -> `pub const X: char = 'c';`).
is_valid_class_name / is_valid_obj_class_name (`split('/').all(..)`) stay with the bounded group `names`."""
import re

from vx.unit import C
from vx.rustcut import CutError

PROPS = ['C18']
F = 'duke/src/tree/mod.rs'

MIRROR = r'''
impl Chars {
    // TRUSTED MODEL of Iterator::all over the code points: true iff the predicate accepts every item (verified against that reading: a refusal is witnessed by an item the predicate answered false for)
    pub fn all<F: Fn(char) -> bool>(self, f: F) -> (r: bool)
        requires self.pos == 0, forall|c: char| f.requires((c,)),
        ensures r ==> (forall|i: int| 0 <= i < self.data@.len() ==> f.ensures((#[trigger] self.data@[i],), true)),
                !r ==> (exists|i: int| 0 <= i < self.data@.len() && f.ensures((#[trigger] self.data@[i],), false)),
    {
        let mut i: usize = 0;
        while i < self.data.len()
            invariant i <= self.data.len(), forall|c: char| f.requires((c,)), forall|k: int| 0 <= k < i ==> f.ensures((#[trigger] self.data@[k],), true),
            decreases self.data.len() - i
        {
            let b = f(self.data[i]);
            if !b { assert(f.ensures((self.data@[i as int],), false)); return false; }
            i += 1;
        }
        true
    }
}
impl JavaString {
    pub fn is_empty(&self) -> (b: bool) ensures b == (self@.len() == 0) { self.cp.len() == 0 }
    // `x == "literal"`: equality of the code point sequences
    pub fn eq_chars(&self, lit: &[char]) -> (b: bool) ensures b == (self@ == lit@)
    {
        if self.cp.len() != lit.len() { return false; }
        let mut i: usize = 0;
        while i < lit.len()
            invariant i <= lit.len(), self.cp.len() == lit.len(), forall|k: int| 0 <= k < i ==> self@[k] == lit@[k],
            decreases lit.len() - i
        { if self.cp[i] != lit[i] { return false; } i += 1; }
        assert(self@ =~= lit@);
        true
    }
}
// JVMS 4.2.2 method names (specification)
pub open spec fn sp_valid_method(s: Seq<char>) -> bool {
    s == seq!['<', 'i', 'n', 'i', 't', '>'] || s == seq!['<', 'c', 'l', 'i', 'n', 'i', 't', '>']
    || (s.len() > 0 && (forall|i: int| 0 <= i < s.len() ==> s[i] != '.' && s[i] != ';' && s[i] != '[' && s[i] != '/' && s[i] != '<' && s[i] != '>'))
}
'''


def _lit(m):
    """`x == "literal"` -> x.eq_chars(&[its characters])"""
    return m.group(1) + '.eq_chars(&[' + ', '.join("'" + c + "'" for c in m.group(2)) + '])'


CLOSURE = (r'\.all\(\|c\| (!matches!\(c, [^()]*\))\)', r'.all(|c: char| -> (b: bool) ensures b == (\1) { \1 })')


def build(u):
    u.preamble('common.rs')
    u.preamble('desc.rs')
    u.raw(MIRROR, trusted=['Chars::all models Iterator::all over the code points of a string (body verified against: true iff the predicate accepted every item); `x == "literal"` is equality of code point sequences'])
    text = u.src(F).text
    consts = re.findall(r"const (\w+): JavaCodePoint = JavaCodePoint::from_char\('(.)'\);", text)
    if len(consts) < 6:
        raise CutError(f'{F}: mod names: the JavaCodePoint constants are no longer of the form `const X: JavaCodePoint = JavaCodePoint::from_char(c);`')
    u.raw(''.join(f"pub const {n}: char = '{c}';\n" for n, c in consts))
    u.drop("mod names: `const X: JavaCodePoint = JavaCodePoint::from_char('c');` -> `pub const X: char = 'c';` (read from the source by pattern)", len(consts))
    S = 'x@'
    u.fn(F, 'is_valid_unqualified_name', ret='r', canary=True,
         rewrites=[CLOSURE],
         ensures=[C('C18.names.unqualified-name-iff-non-empty-and-none-of-dot-semicolon-bracket-slash', f'r == sp_valid_unqualified({S})')])
    u.fn(F, 'is_valid_method_name', ret='r',
         rewrites=[CLOSURE, (r'\b(x) == "([^"\\]*)"', _lit)],
         ensures=[C('C18.names.method-name-iff-init-clinit-or-non-empty-without-dot-semicolon-bracket-slash-angle-brackets', f'r == sp_valid_method({S})')])
