"""rbranch -- branch-target arithmetic and switch padding of the code reader (duke/src/class_reader.rs)"""
from vx.unit import C
from vx.units._cread import add_classread

PROPS = ['C01']
R = 'duke/src/class_reader.rs'
TR = ('trait', 'CodeReadHelper')
P0 = 'old(self).pos()'
D0 = 'old(self).data()'


def build(u):
    u.preamble('common.rs')
    u.preamble('bytes.rs')
    u.preamble('rbytes.rs')
    add_classread(u, [], with_pos=False)  # the trait is verified (and counted) in unit rskip
    add_branch_helpers(u, None, canary=True)


def add_branch_helpers(u, props, canary=False):
    kw = {} if props is None else dict(props=props)
    u.item('duke/src/tree/method/code.rs', 'struct', 'LvIndex', derives=['Copy', 'Clone', 'PartialEq', 'Eq'])
    u.open_block('pub trait CodeReadHelper: ClassRead {')
    u.fn(R, 'CodeReadHelper::read_u8_as_local_variable', container=TR, ret='res', **kw,
         ensures=[C('C01.lv.u8', f'res matches Ok(l) ==> l.index as int == {D0}[{P0}] as int && final(self).pos() == {P0} + 1'),
                  C('C01.lv.u8.ok-iff', f'res.is_ok() <==> (0 <= {P0} && {P0} + 1 <= {D0}.len())'),
                  C('C01.lv.u8.frame', f'final(self).data() == {D0}')])
    u.fn(R, 'CodeReadHelper::read_u16_as_local_variable', container=TR, ret='res', **kw,
         ensures=[C('C01.lv.u16', f'res matches Ok(l) ==> l.index as int == val16({D0}.subrange({P0}, {P0} + 2)) && final(self).pos() == {P0} + 2'),
                  C('C01.lv.u16.ok-iff', f'res.is_ok() <==> (0 <= {P0} && {P0} + 2 <= {D0}.len())'),
                  C('C01.lv.u16.frame', f'final(self).data() == {D0}')])
    br16 = f'sval16({D0}.subrange({P0}, {P0} + 2))'
    br32 = f'sval32({D0}.subrange({P0}, {P0} + 4))'
    u.fn(R, 'CodeReadHelper::read_i16_as_branch_target_label', container=TR, ret='res', **kw,
         ensures=[C('C01.branch16.target-exact', f'res matches Ok(t) ==> t as int == opcode_pos as int + {br16}'),
                  C('C01.branch16.ok-iff-in-u16', f'res.is_ok() <==> (0 <= {P0} && {P0} + 2 <= {D0}.len() && 0 <= opcode_pos as int + {br16} <= 65535)'),
                  C('C01.branch16.advances-2', f'res.is_ok() ==> final(self).pos() == {P0} + 2'),
                  C('C01.branch16.frame', f'final(self).data() == {D0}')])
    u.fn(R, 'CodeReadHelper::read_i32_as_branch_target_label', container=TR, ret='res', **kw,
         opt_rewrites=[(r'\b(\w+)\.try_into\(\)\?', r'u16::try_from(\1).ok().ok_or(VErr)?')],
         ensures=[C('C01.branch32.target-exact', f'res matches Ok(t) ==> t as int == opcode_pos as int + {br32}'),
                  C('C01.branch32.ok-iff-in-u16', f'res.is_ok() <==> (0 <= {P0} && {P0} + 4 <= {D0}.len() && 0 <= opcode_pos as int + {br32} <= 65535)'),
                  C('C01.branch32.advances-4', f'res.is_ok() ==> final(self).pos() == {P0} + 4'),
                  C('C01.branch32.frame', f'final(self).data() == {D0}')])
    u.close_block()
    p0, d0 = 'old(reader).pos()', 'old(reader).data()'
    u.fn(R, 'align_to_4_byte_boundary', ret='res', canary=canary, **kw,
         requires=[f'0 <= {p0} <= u64::MAX'],
         proof_before=[(r'match reader\.marker\(\)\? & 0b11', f'    proof {{ let n: u64 = {p0} as u64; assert(n & 0b11 == n % 4) by (bit_vector); }}')],
         ensures=[C('C01.ralign.aligned', 'res.is_ok() ==> final(reader).pos() % 4 == 0'),
                  C('C01.ralign.less-than-4', f'res.is_ok() ==> {p0} <= final(reader).pos() < {p0} + 4'),
                  C('C01.ralign.ok-iff-padding-available', f'res.is_ok() <==> ({p0} % 4 == 0 || {p0} + (4 - {p0} % 4) <= {d0}.len())'),
                  C('C01.ralign.frame', f'final(reader).data() == {d0}')])
