"""rtypes -- the small content parsers of the class reader (duke/src/class_reader.rs): read_verification_type_info (JVMS 4.7.4),
read_type_path (JVMS 4.7.20.2), the target_info readers `TargetInfoRead::read_type_reference` for class / field / method level and
read_type_reference_code (JVMS 4.7.20.1, table 4.7.20-A/B).

C01: "... stack-map frames, annotations ... Nothing is invented, dropped or attached to the wrong member": each parser returns exactly the
value the JVMS assigns to the bytes at the reader position (tags from the JVMS tables written below, operands with their JVMS width, code
offsets resolved through the offset -> label table, class indices through the pool), consumes exactly the bytes of the structure, and
answers "unknown tag" exactly for the tags the JVMS does not define at that level."""
from vx.unit import C
from vx.units._cread import add_classread
from vx.units.rlabels import add_reader_labels
from vx.units.rbranch import add_branch_helpers

PROPS = ['C01']
RLIMIT = 60
R = 'duke/src/class_reader.rs'
CC = 'duke/src/class_constants.rs'
TA = 'duke/src/tree/type_annotation.rs'

STUBS = r'''
// TRUSTED: ClassName / PoolRead are opaque here; pool.get_class is assumed to be a function of (pool, index) (unit rpool verifies the pool layout)
#[verifier::external_body] pub struct ClassName { _p: () }
#[verifier::external_body] pub struct PoolRead { _p: () }
pub uninterp spec fn sp_class(pool: PoolRead, index: u16) -> Option<ClassName>;   // None: does not resolve
impl PoolRead {
    #[verifier::external_body] pub fn get_class(&self, index: u16) -> (res: Result<ClassName, VErr>)
        ensures res.is_ok() <==> sp_class(*self, index) is Some, res matches Ok(v) ==> Some(v) == sp_class(*self, index) { unimplemented!() }
}
pub open spec fn u8_at(d: Seq<u8>, p: int) -> int { d[p] as int }
pub open spec fn u16_at(d: Seq<u8>, p: int) -> int { val16(d.subrange(p, p + 2)) }
pub open spec fn has_label(l: Labels, t: int) -> bool { 0 <= t <= 65535 && l.labels@.contains_key(t as u16) }
pub open spec fn label_at(l: Labels, t: int) -> Label { l.labels@[t as u16] }
pub open spec fn labels_kept(a: Labels, b: Labels) -> bool {
    b.code_length == a.code_length
    && forall|k: u16| #![trigger b.labels@.contains_key(k)] #![trigger a.labels@.contains_key(k)] a.labels@.contains_key(k) ==> b.labels@.contains_key(k) && b.labels@[k] == a.labels@[k]
}

// ---- JVMS 4.7.4 verification_type_info: tag -> size in bytes (0: not a tag)
pub open spec fn vti_size(tag: int) -> int { if 0 <= tag <= 6 { 1 } else if tag == 7 || tag == 8 { 3 } else { 0 } }
pub open spec fn vti_is(d: Seq<u8>, p: int, pool: PoolRead, l: Labels, v: VerificationTypeInfo) -> bool {
    match v {
        VerificationTypeInfo::Top => u8_at(d, p) == 0,
        VerificationTypeInfo::Integer => u8_at(d, p) == 1,
        VerificationTypeInfo::Float => u8_at(d, p) == 2,
        VerificationTypeInfo::Double => u8_at(d, p) == 3,
        VerificationTypeInfo::Long => u8_at(d, p) == 4,
        VerificationTypeInfo::Null => u8_at(d, p) == 5,
        VerificationTypeInfo::UninitializedThis => u8_at(d, p) == 6,
        VerificationTypeInfo::Object(c) => u8_at(d, p) == 7 && Some(c) == sp_class(pool, u16_at(d, p + 1) as u16),
        VerificationTypeInfo::Uninitialized(x) => u8_at(d, p) == 8 && has_label(l, u16_at(d, p + 1)) && x == label_at(l, u16_at(d, p + 1)),
    }
}

// ---- JVMS 4.7.20.2 type_path: u1 path_length, then path_length x { u1 type_path_kind, u1 type_argument_index }
pub open spec fn tp_entry_ok(kind: int, idx: int) -> bool { (0 <= kind <= 2 && idx == 0) || kind == 3 }
pub open spec fn tp_entry_is(kind: int, idx: int, k: TypePathKind) -> bool {
    match k {
        TypePathKind::ArrayDeeper => kind == 0,
        TypePathKind::NestedDeeper => kind == 1,
        TypePathKind::WildcardBound => kind == 2,
        TypePathKind::TypeArgument { index } => kind == 3 && index as int == idx,
    }
}
pub open spec fn tp_all_ok(d: Seq<u8>, p: int, n: int) -> bool { forall|k: int| 0 <= k < n ==> tp_entry_ok(#[trigger] u8_at(d, p + 1 + 2 * k), u8_at(d, p + 2 + 2 * k)) }

// ---- JVMS 4.7.20.1 target_info, tables 4.7.20-A / 4.7.20-B: target_type -> size of target_type + target_info (0: not allowed at this level)
pub open spec fn tt_class_size(t: int) -> int { if t == 0x00 { 2 } else if t == 0x10 { 3 } else if t == 0x11 { 3 } else { 0 } }
pub open spec fn tt_field_size(t: int) -> int { if t == 0x13 { 1 } else { 0 } }
pub open spec fn tt_method_size(t: int) -> int {
    if t == 0x01 { 2 } else if t == 0x12 { 3 } else if t == 0x14 || t == 0x15 { 1 } else if t == 0x16 { 2 } else if t == 0x17 { 3 } else { 0 }
}
pub open spec fn tt_class_is(d: Seq<u8>, p: int, v: TargetInfoClass) -> bool {
    match v {
        TargetInfoClass::ClassTypeParameter { index } => u8_at(d, p) == 0x00 && index as int == u8_at(d, p + 1),
        TargetInfoClass::Extends => u8_at(d, p) == 0x10 && u16_at(d, p + 1) == 65535,
        TargetInfoClass::Implements { index } => u8_at(d, p) == 0x10 && u16_at(d, p + 1) != 65535 && index as int == u16_at(d, p + 1),
        TargetInfoClass::ClassTypeParameterBound { type_parameter_index, bound_index } =>
            u8_at(d, p) == 0x11 && type_parameter_index as int == u8_at(d, p + 1) && bound_index as int == u8_at(d, p + 2),
    }
}
pub open spec fn tt_method_is(d: Seq<u8>, p: int, v: TargetInfoMethod) -> bool {
    match v {
        TargetInfoMethod::MethodTypeParameter { index } => u8_at(d, p) == 0x01 && index as int == u8_at(d, p + 1),
        TargetInfoMethod::MethodTypeParameterBound { type_parameter_index, bound_index } =>
            u8_at(d, p) == 0x12 && type_parameter_index as int == u8_at(d, p + 1) && bound_index as int == u8_at(d, p + 2),
        TargetInfoMethod::Return => u8_at(d, p) == 0x14,
        TargetInfoMethod::Receiver => u8_at(d, p) == 0x15,
        TargetInfoMethod::FormalParameter { index } => u8_at(d, p) == 0x16 && index as int == u8_at(d, p + 1),
        TargetInfoMethod::Throws { index } => u8_at(d, p) == 0x17 && index as int == u16_at(d, p + 1),
    }
}
// inside Code: localvar_target (0x40, 0x41): u2 table_length, then { u2 start_pc, u2 length, u2 index }; catch_target (0x42): u2;
// offset_target (0x43..0x46): u2 offset; type_argument_target (0x47..0x4B): u2 offset, u1 type_argument_index
pub open spec fn tt_code_size(d: Seq<u8>, p: int) -> int {
    let t = u8_at(d, p);
    if t == 0x40 || t == 0x41 { 3 + 6 * u16_at(d, p + 1) } else if 0x42 <= t <= 0x46 { 3 } else if 0x47 <= t <= 0x4B { 4 } else { 0 }
}
pub open spec fn lvt_entry_ok(d: Seq<u8>, p: int, k: int, l: Labels, e: (LabelRange, LvIndex)) -> bool {
    let q = p + 3 + 6 * k;
    let s = u16_at(d, q);
    let n = u16_at(d, q + 2);
    &&& s + n <= l.code_length && has_label(l, s) && has_label(l, s + n)
    &&& e.0.start == label_at(l, s) && e.0.end == label_at(l, s + n)
    &&& e.1.index as int == u16_at(d, q + 4)
}
pub open spec fn lvt_is(d: Seq<u8>, p: int, l: Labels, table: Seq<(LabelRange, LvIndex)>) -> bool {
    table.len() == u16_at(d, p + 1) && forall|k: int| 0 <= k < table.len() ==> #[trigger] lvt_entry_ok(d, p, k, l, table[k])
}
pub open spec fn off_is(d: Seq<u8>, p: int, l: Labels, x: Label) -> bool { has_label(l, u16_at(d, p + 1)) && x == label_at(l, u16_at(d, p + 1)) }
pub open spec fn tt_code_is(d: Seq<u8>, p: int, l: Labels, v: TargetInfoCode) -> bool {
    let t = u8_at(d, p);
    match v {
        TargetInfoCode::LocalVariable { table } => t == 0x40 && lvt_is(d, p, l, table@),
        TargetInfoCode::ResourceVariable { table } => t == 0x41 && lvt_is(d, p, l, table@),
        TargetInfoCode::ExceptionParameter { index } => t == 0x42 && index as int == u16_at(d, p + 1),
        TargetInfoCode::InstanceOf(x) => t == 0x43 && off_is(d, p, l, x),
        TargetInfoCode::New(x) => t == 0x44 && off_is(d, p, l, x),
        TargetInfoCode::ConstructorReference(x) => t == 0x45 && off_is(d, p, l, x),
        TargetInfoCode::MethodReference(x) => t == 0x46 && off_is(d, p, l, x),
        TargetInfoCode::Cast { label, index } => t == 0x47 && off_is(d, p, l, label) && index as int == u8_at(d, p + 3),
        TargetInfoCode::ConstructorInvocationTypeArgument { label, index } => t == 0x48 && off_is(d, p, l, label) && index as int == u8_at(d, p + 3),
        TargetInfoCode::MethodInvocationTypeArgument { label, index } => t == 0x49 && off_is(d, p, l, label) && index as int == u8_at(d, p + 3),
        TargetInfoCode::ConstructorReferenceTypeArgument { label, index } => t == 0x4A && off_is(d, p, l, label) && index as int == u8_at(d, p + 3),
        TargetInfoCode::MethodReferenceTypeArgument { label, index } => t == 0x4B && off_is(d, p, l, label) && index as int == u8_at(d, p + 3),
    }
}
'''

D0, P0, L0 = 'old(reader).data()', 'old(reader).pos()', '*old(labels)'
KEEP = f'final(reader).data() == {D0}'
LKEEP = f'labels_wf(*final(labels)) && labels_kept({L0}, *final(labels))'


def build(u):
    u.preamble('common.rs')
    u.preamble('bytes.rs')
    u.preamble('rbytes.rs')
    add_classread(u, [], with_pos=False)
    add_reader_labels(u, [])
    add_branch_helpers(u, [])
    u.item(CC, 'mod', 'type_annotation')
    u.raw(STUBS.split('pub open spec fn u8_at')[0])
    u.item('duke/src/visitor/method/code.rs', 'enum', 'VerificationTypeInfo', derives=[])
    for e in ('TargetInfoClass', 'TargetInfoField', 'TargetInfoMethod', 'TargetInfoCode', 'TypePathKind'):
        u.item(TA, 'enum', e, derives=[])
    u.item(TA, 'struct', 'TypePath', derives=[])
    u.raw('pub open spec fn u8_at' + STUBS.split('pub open spec fn u8_at')[1])

    gen = [(r'reader: &mut impl ClassRead', 'reader: &mut Rd')]
    # ---------------------------------------------------------------- verification_type_info
    u.fn(R, 'read_verification_type_info', ret='res', canary=True,
         sig_rewrites=gen + [(r'fn read_verification_type_info\(', 'fn read_verification_type_info<Rd: ClassRead>(')],
         requires=[f'0 <= {P0}', 'labels_wf(*old(labels))'],
         ensures=[
             C('C01.vti.is-the-item-the-jvms-tag-names', f'res matches Ok(v) ==> vti_is({D0}, {P0}, *pool, *final(labels), v)'),
             C('C01.vti.consumes-the-jvms-size-of-its-tag', f'res.is_ok() ==> final(reader).pos() == {P0} + vti_size(u8_at({D0}, {P0})) && vti_size(u8_at({D0}, {P0})) > 0'),
             C('C01.vti.refuses-only-unknown-tags-truncation-and-unresolvable-operands',
               f'res is Err ==> ({P0} + 1 > {D0}.len() || vti_size(u8_at({D0}, {P0})) == 0 || {P0} + vti_size(u8_at({D0}, {P0})) > {D0}.len() '
               f'|| (u8_at({D0}, {P0}) == 7 && sp_class(*pool, u16_at({D0}, {P0} + 1) as u16) is None) || (u8_at({D0}, {P0}) == 8 && u16_at({D0}, {P0} + 1) >= old(labels).code_length))'),
             C('C01.vti.frame', f'{KEEP} && {LKEEP}'),
         ])
    # ---------------------------------------------------------------- type_path
    u.fn(R, 'read_type_path', ret='res',
         sig_rewrites=gen + [(r'fn read_type_path\(', 'fn read_type_path<Rd: ClassRead>(')],
         requires=[f'0 <= {P0}'],
         rewrites=[(r'for _ in 0\.\.reader\.read_u8\(\)\?', 'let path_length_ = reader.read_u8()?; for _i in iter: 0..path_length_'),
                   (r'kind @ 0\.\.=2 => \{\s*let x = match kind \{', 'kind @ 0..=2 => { let x = match kind {')],
         loops={0: dict(invariant=[
             C('C01.type_path.inv', f'reader.data() == {D0} && 0 <= {P0} && reader.pos() == {P0} + 1 + 2 * iter.index@ && path_length_ as int == u8_at({D0}, {P0}) '
                                    f'&& vec@.len() == iter.index@ && tp_all_ok({D0}, {P0}, iter.index@ as int) '
                                    f'&& (forall|k: int| 0 <= k < iter.index@ ==> tp_entry_is(#[trigger] u8_at({D0}, {P0} + 1 + 2 * k), u8_at({D0}, {P0} + 2 + 2 * k), vec@[k]))')],
                        body_start=f'proof {{ let k = iter.index@ as int; assert(u8_at({D0}, {P0} + 1 + 2 * k) == {D0}[{P0} + 1 + 2 * k] as int); }}')},
         ensures=[
             C('C01.type_path.every-step-is-the-kind-the-jvms-names',
               f'res matches Ok(t) ==> t.path@.len() == u8_at({D0}, {P0}) && (forall|k: int| 0 <= k < t.path@.len() ==> tp_entry_is(#[trigger] u8_at({D0}, {P0} + 1 + 2 * k), u8_at({D0}, {P0} + 2 + 2 * k), t.path@[k]))'),
             C('C01.type_path.consumes-exactly-the-path', f'res.is_ok() ==> final(reader).pos() == {P0} + 1 + 2 * u8_at({D0}, {P0})'),
             C('C01.type_path.accepts-every-well-formed-path',
               f'({P0} + 1 <= {D0}.len() && {P0} + 1 + 2 * u8_at({D0}, {P0}) <= {D0}.len() && tp_all_ok({D0}, {P0}, u8_at({D0}, {P0}))) ==> res.is_ok()'),
             C('C01.type_path.refuses-unknown-kinds', f'res.is_ok() ==> tp_all_ok({D0}, {P0}, u8_at({D0}, {P0}))'),
             C('C01.type_path.frame', KEEP),
         ])
    # ---------------------------------------------------------------- target_info at class / field / method level
    for ty, lv, isfn in (('TargetInfoClass', 'class', 'tt_class_is({d}, {p}, v)'), ('TargetInfoField', 'field', 'v is Field'), ('TargetInfoMethod', 'method', 'tt_method_is({d}, {p}, v)')):
        size = f'tt_{lv}_size(u8_at({D0}, {P0}))'
        u.fn(R, f'{ty}::read_type_reference', impl=rf'TargetInfoRead\s+for\s+{ty}', impl_header=f'impl {ty}', ret='res',
             sig_rewrites=gen + [(r'fn read_type_reference\(', 'fn read_type_reference<Rd: ClassRead>(')],
             requires=[f'0 <= {P0}'],
             ensures=[
                 C(f'C01.target.{lv}.is-the-target-the-jvms-table-assigns', f'res matches Ok(v) ==> ' + isfn.format(d=D0, p=P0)),
                 C(f'C01.target.{lv}.consumes-target-type-and-target-info', f'res.is_ok() ==> {size} > 0 && final(reader).pos() == {P0} + {size}'),
                 C(f'C01.target.{lv}.accepts-every-target-type-of-its-level', f'({P0} + 1 <= {D0}.len() && {size} > 0 && {P0} + {size} <= {D0}.len()) ==> res.is_ok()'),
                 C(f'C01.target.{lv}.frame', KEEP),
             ])
    # ---------------------------------------------------------------- target_info inside Code
    size = f'tt_code_size({D0}, {P0})'
    tbl_inv = lambda k: [  # noqa: E731
        C(f'C01.target.code.table{k}.inv', f'reader.data() == {D0} && 0 <= {P0} && labels_wf(*labels) && labels_kept({L0}, *labels) && reader.pos() == {P0} + 3 + 6 * iter.index@ '
                                          f'&& table@.len() == iter.index@ && (forall|j: int| 0 <= j < iter.index@ ==> #[trigger] lvt_entry_ok({D0}, {P0}, j, *labels, table@[j]))')]
    tbl_end = (f'proof {{ assert(labels_kept(lb, *labels)); assert forall|j: int| 0 <= j < iter.index@ implies #[trigger] lvt_entry_ok({D0}, {P0}, j, *labels, table@[j]) by '
               f'{{ assert(lvt_entry_ok({D0}, {P0}, j, lb, table@[j])); }} }}')
    u.fn(R, 'read_type_reference_code', ret='res',
         sig_rewrites=gen + [(r'fn read_type_reference_code\(', 'fn read_type_reference_code<Rd: CodeReadHelper>(')],
         requires=[f'0 <= {P0}', 'labels_wf(*old(labels))'],
         rewrites=[(r'for _ in 0\.\.length \{', 'for _i in iter: 0..length {'),
                   (r'for _ in 0\.\.reader\.read_u16\(\)\? \{', 'let length_ = reader.read_u16()?; for _i in iter: 0..length_ {')],
         loops={0: dict(invariant=tbl_inv(0) + [C('C01.target.code.table0.count', f'length as int == u16_at({D0}, {P0} + 1)')], body_start='let ghost lb = *labels;', body_end=tbl_end),
                1: dict(invariant=tbl_inv(1) + [C('C01.target.code.table1.count', f'length_ as int == u16_at({D0}, {P0} + 1)')], body_start='let ghost lb = *labels;', body_end=tbl_end)},
         ensures=[
             C('C01.target.code.is-the-target-the-jvms-table-assigns-with-offsets-resolved-through-the-label-table', f'res matches Ok(v) ==> tt_code_is({D0}, {P0}, *final(labels), v)'),
             C('C01.target.code.consumes-target-type-and-target-info', f'res.is_ok() ==> {size} > 0 && final(reader).pos() == {P0} + {size}'),
             C('C01.target.code.frame', f'{KEEP} && {LKEEP}'),
         ])
