"""remapapi -- the closure-free default methods of quill's remapper traits (quill/src/remapper.rs `trait BRemapper`): map_field_ref,
map_method_name_and_desc, map_method_ref, map_method_ref_obj.

C06 / C07: "every class, field and method reference ... is what the remapper maps the original reference to".  A reference is remapped by
these default methods from the primitive answers (map_class, map_class_any, map_field, map_method), which are opaque functions of their
arguments here: a field reference gets the class `map_class` answers and the name / descriptor `map_field` answers for the *original* owner;
a method reference on an object class likewise with `map_method`; a method reference on an array class (e.g. `[LFoo;.clone()`) keeps name and
descriptor and gets the class `map_class_any` answers (the element class is renamed).  The other default methods (map_class, map_class_any,
map_field, map_method, map_*_desc) use closures / iterator adapters and stay outside (bounded: E3 groups mapdesc, maps)."""
from vx.unit import C
from vx.units._visit import opaque

PROPS = ['C06', 'C07']
Q = 'quill/src/remapper.rs'
T = 'duke/src/tree/'
TR = ('trait', 'BRemapper')

STUBS = r'''
// (for an object class, map_class_any is map_class followed by the ClassName conversion: both spellings are accepted for the class of a method reference)
// TRUSTED: name / descriptor types are opaque; the primitive answers of a remapper (map_class, map_class_any, map_field, map_method) are functions of (remapper, arguments); ClassName::as_obj and From<ObjClassName> for ClassName are opaque conversions with cn_of(as_obj(c)) == c
pub type ObjClassNameSlice = ObjClassName;
pub type ClassNameSlice = ClassName;
pub type FieldNameSlice = FieldName;
pub type MethodNameSlice = MethodName;
pub type FieldDescriptorSlice = FieldDescriptor;
pub type MethodDescriptorSlice = MethodDescriptor;
pub uninterp spec fn sp_as_obj(c: ClassName) -> Option<ObjClassName>;
impl ClassName {
    #[verifier::external_body] pub fn as_obj(&self) -> (r: Option<&ObjClassName>)
        ensures (r matches Some(o) ==> sp_as_obj(*self) == Some(*o)), (r is None ==> sp_as_obj(*self) is None) { unimplemented!() }
}
pub uninterp spec fn cn_of(c: ObjClassName) -> ClassName;
impl vstd::std_specs::convert::FromSpecImpl<ObjClassName> for ClassName {
    open spec fn obeys_from_spec() -> bool { true }
    open spec fn from_spec(c: ObjClassName) -> ClassName { cn_of(c) }
}
impl From<ObjClassName> for ClassName { #[verifier::external_body] fn from(c: ObjClassName) -> (r: ClassName) { unimplemented!() } }
impl Clone for MethodRef { #[verifier::external_body] fn clone(&self) -> (r: Self) ensures r == *self { unimplemented!() } }
impl Clone for FieldRef { #[verifier::external_body] fn clone(&self) -> (r: Self) ensures r == *self { unimplemented!() } }
impl Clone for MethodRefObj { #[verifier::external_body] fn clone(&self) -> (r: Self) ensures r == *self { unimplemented!() } }
impl Clone for ClassName { #[verifier::external_body] fn clone(&self) -> (r: Self) ensures r == *self { unimplemented!() } }
impl Clone for ObjClassName { #[verifier::external_body] fn clone(&self) -> (r: Self) ensures r == *self { unimplemented!() } }
impl Clone for MethodName { #[verifier::external_body] fn clone(&self) -> (r: Self) ensures r == *self { unimplemented!() } }
impl Clone for MethodDescriptor { #[verifier::external_body] fn clone(&self) -> (r: Self) ensures r == *self { unimplemented!() } }
pub trait ARemapper: Sized {
    spec fn sp_map_class(&self, c: ObjClassName) -> ObjClassName;
    spec fn sp_map_class_any(&self, c: ClassName) -> ClassName;
    fn map_class(&self, class: &ObjClassNameSlice) -> (res: Result<ObjClassName, VErr>) ensures res matches Ok(o) ==> o == self.sp_map_class(*class);
    fn map_class_any(&self, class: &ClassNameSlice) -> (res: Result<ClassName, VErr>) ensures res matches Ok(o) ==> o == self.sp_map_class_any(*class);
}
'''
GHOST = '''    spec fn sp_map_field(&self, class: ObjClassName, name: FieldName, desc: FieldDescriptor) -> FieldNameAndDesc;
    spec fn sp_map_method(&self, class: ObjClassName, name: MethodName, desc: MethodDescriptor) -> MethodNameAndDesc;
'''


def build(u):
    u.preamble('common.rs')
    opaque(u, ['ClassName', 'ObjClassName', 'FieldName', 'MethodName', 'FieldDescriptor', 'MethodDescriptor'])
    for f, n in ((T + 'field.rs', 'FieldRef'), (T + 'field.rs', 'FieldNameAndDesc'), (T + 'method.rs', 'MethodRef'), (T + 'method.rs', 'MethodRefObj'), (T + 'method.rs', 'MethodNameAndDesc')):
        u.item(f, 'struct', n, derives=[])
    u.raw(STUBS)
    u.fn(T + 'field.rs', 'FieldNameAndDesc::with_class', ret='r', props=[], ensures=[C('ctx.field.with_class', 'r.class == class && r.name == self.name && r.desc == self.desc')])
    u.fn(T + 'method.rs', 'MethodNameAndDesc::with_class', ret='r', props=[], ensures=[C('ctx.method.with_class', 'r.class == class && r.name == self.name && r.desc == self.desc')])
    u.fn(T + 'method.rs', 'MethodNameAndDesc::with_class_obj', ret='r', props=[], ensures=[C('ctx.method.with_class_obj', 'r.class == class && r.name == self.name && r.desc == self.desc')])
    u.open_block('pub trait BRemapper: ARemapper {\n' + GHOST)
    u.fn(Q, 'BRemapper::map_field', container=TR, ret='res', drop_body=True, props=[],
         ensures=[C('assumed.map_field', 'res matches Ok(o) ==> o == self.sp_map_field(*class, *field_name, *field_desc)')])
    u.fn(Q, 'BRemapper::map_method', container=TR, ret='res', drop_body=True, props=[],
         ensures=[C('assumed.map_method', 'res matches Ok(o) ==> o == self.sp_map_method(*class, *method_name, *method_desc)')])
    u.fn(Q, 'BRemapper::map_field_ref', container=TR, ret='res', canary=False,
         ensures=[C('C07.api.field-ref.class-is-what-map_class-answers', 'res matches Ok(o) ==> o.class == self.sp_map_class(field_ref.class)'),
                  C('C07.api.field-ref.name-and-descriptor-are-what-map_field-answers-for-the-original-owner',
                    'res matches Ok(o) ==> ({ let k = self.sp_map_field(field_ref.class, field_ref.name, field_ref.desc); o.name == k.name && o.desc == k.desc })')])
    u.fn(Q, 'BRemapper::map_method_name_and_desc', container=TR, ret='res',
         ensures=[C('C07.api.method-name-and-desc.is-what-map_method-answers', 'res matches Ok(o) ==> o == self.sp_map_method(*class, method_name_and_desc.name, method_name_and_desc.desc)')])
    u.fn(Q, 'BRemapper::map_method_ref', container=TR, ret='res',
         ensures=[C('C07.api.method-ref.class-is-what-map_class_any-answers-also-for-array-owners', 'res matches Ok(o) ==> (o.class == self.sp_map_class_any(method_ref.class) || (sp_as_obj(method_ref.class) matches Some(c) && o.class == cn_of(self.sp_map_class(c))))'),
                  C('C07.api.method-ref.object-owner.name-and-descriptor-are-what-map_method-answers-for-the-original-owner',
                    'res matches Ok(o) ==> (sp_as_obj(method_ref.class) matches Some(c) ==> ({ let k = self.sp_map_method(c, method_ref.name, method_ref.desc); o.name == k.name && o.desc == k.desc }))'),
                  C('C07.api.method-ref.array-owner.name-and-descriptor-unchanged',
                    'res matches Ok(o) ==> (sp_as_obj(method_ref.class) is None ==> o.name == method_ref.name && o.desc == method_ref.desc)')])
    u.fn(Q, 'BRemapper::map_method_ref_obj', container=TR, ret='res',
         ensures=[C('C07.api.method-ref-obj.class-is-what-map_class-answers', 'res matches Ok(o) ==> o.class == self.sp_map_class(method_ref.class)'),
                  C('C07.api.method-ref-obj.name-and-descriptor-are-what-map_method-answers-for-the-original-owner',
                    'res matches Ok(o) ==> ({ let k = self.sp_map_method(method_ref.class, method_ref.name, method_ref.desc); o.name == k.name && o.desc == k.desc })')])
    u.close_block()
    u.canary_raw('remapapi', 'pub fn remapapi_canary_must_fail<R: BRemapper>(r: &R, f: &FieldRef) -> (res: Result<FieldRef, VErr>)\n    ensures false,   // [canary]\n{ r.map_field_ref(f) }')
