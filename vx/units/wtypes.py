"""wtypes -- the type-annotation target writers of the class writer (duke/src/simple_class_writer.rs): write_type_path and
`TargetInfoWrite::write_type_reference` for TargetInfoClass / TargetInfoField / TargetInfoMethod.

C02: "a successful output is a structurally valid class file ... that an independent reader recovers the same class from": each function
appends exactly the JVMS 4.7.20.1 / 4.7.20.2 encoding of the value (specification functions `enc_*`, written from the JVMS tables), nothing
else; lemmas: the reader's specification of the same structures (the relational tables of unit rtypes, imported verbatim) accepts exactly that
encoding as the same value and consumes exactly its length -- read(write(x)) == x at the level of these structures.
write_type_reference_code passes closures to write_slice for its two table forms and stays outside."""
from vx.unit import C
from vx.units._cwrite import add_classwrite
from vx.units import rtypes as RT

PROPS = ['C02']
RLIMIT = 60
W = 'duke/src/simple_class_writer.rs'
CC = 'duke/src/class_constants.rs'
TA = 'duke/src/tree/type_annotation.rs'

ENC = r'''
// ---- JVMS 4.7.20.1 / 4.7.20.2 encodings (specification) ----
pub open spec fn enc_class(v: TargetInfoClass) -> Seq<u8> {
    match v {
        TargetInfoClass::ClassTypeParameter { index } => seq![0x00u8, index],
        TargetInfoClass::Extends => seq![0x10u8] + be16(65535u16),
        TargetInfoClass::Implements { index } => seq![0x10u8] + be16(index),
        TargetInfoClass::ClassTypeParameterBound { type_parameter_index, bound_index } => seq![0x11u8, type_parameter_index, bound_index],
    }
}
pub open spec fn enc_field(v: TargetInfoField) -> Seq<u8> { seq![0x13u8] }
pub open spec fn enc_method(v: TargetInfoMethod) -> Seq<u8> {
    match v {
        TargetInfoMethod::MethodTypeParameter { index } => seq![0x01u8, index],
        TargetInfoMethod::MethodTypeParameterBound { type_parameter_index, bound_index } => seq![0x12u8, type_parameter_index, bound_index],
        TargetInfoMethod::Return => seq![0x14u8],
        TargetInfoMethod::Receiver => seq![0x15u8],
        TargetInfoMethod::FormalParameter { index } => seq![0x16u8, index],
        TargetInfoMethod::Throws { index } => seq![0x17u8] + be16(index),
    }
}
pub open spec fn enc_step(k: TypePathKind) -> Seq<u8> {
    match k {
        TypePathKind::ArrayDeeper => seq![0u8, 0u8], TypePathKind::NestedDeeper => seq![1u8, 0u8], TypePathKind::WildcardBound => seq![2u8, 0u8],
        TypePathKind::TypeArgument { index } => seq![3u8, index],
    }
}
pub open spec fn enc_steps(p: Seq<TypePathKind>, k: int) -> Seq<u8> decreases k {
    if 0 < k <= p.len() { enc_steps(p, k - 1) + enc_step(p[k - 1]) } else { Seq::<u8>::empty() }
}
pub proof fn lemma_enc_steps_len(p: Seq<TypePathKind>, k: int)
    requires 0 <= k <= p.len(),
    ensures enc_steps(p, k).len() == 2 * k,
    decreases k,
{ if k > 0 { lemma_enc_steps_len(p, k - 1); } }
pub proof fn lemma_enc_steps_at(p: Seq<TypePathKind>, k: int, j: int)
    requires 0 <= j < k <= p.len(),
    ensures enc_steps(p, k).len() == 2 * k, enc_steps(p, k)[2 * j] == enc_step(p[j])[0], enc_steps(p, k)[2 * j + 1] == enc_step(p[j])[1],
    decreases k,
{
    lemma_enc_steps_len(p, k); lemma_enc_steps_len(p, k - 1);
    if j < k - 1 { lemma_enc_steps_at(p, k - 1, j); }
}
'''

# Verus: "ref patterns not yet supported": `match r { &P => e }` -> `match *r { P => e }` (desugaring; the bound fields are Copy)
DEREF = [(r'(\n\s*)&(TargetInfo\w+::|TypePathKind::)', r'\1\2')]

LEMMAS = [
    ('C02.lemma.the-reader-table-reads-an-encoded-class-target-back-as-the-same-value', r'''
pub proof fn lemma_read_back_class(pre: Seq<u8>, v: TargetInfoClass, post: Seq<u8>)
    requires !(v matches TargetInfoClass::Implements { index } && index == 65535),
    ensures tt_class_is(pre + enc_class(v) + post, pre.len() as int, v), tt_class_size(u8_at(pre + enc_class(v) + post, pre.len() as int)) == enc_class(v).len(),
{
    let d = pre + enc_class(v) + post; let p = pre.len() as int;
    assert(d[p] == enc_class(v)[0]);
    match v {
        TargetInfoClass::ClassTypeParameter { index } => { assert(d[p + 1] == enc_class(v)[1]); },
        TargetInfoClass::Extends => { lemma_be16_val(65535u16); assert(d.subrange(p + 1, p + 3) =~= be16(65535u16)); },
        TargetInfoClass::Implements { index } => { lemma_be16_val(index); assert(d.subrange(p + 1, p + 3) =~= be16(index)); },
        TargetInfoClass::ClassTypeParameterBound { type_parameter_index, bound_index } => { assert(d[p + 1] == enc_class(v)[1]); assert(d[p + 2] == enc_class(v)[2]); },
    }
}'''),
    ('C02.lemma.the-reader-table-reads-an-encoded-method-target-back-as-the-same-value', r'''
pub proof fn lemma_read_back_method(pre: Seq<u8>, v: TargetInfoMethod, post: Seq<u8>)
    ensures tt_method_is(pre + enc_method(v) + post, pre.len() as int, v), tt_method_size(u8_at(pre + enc_method(v) + post, pre.len() as int)) == enc_method(v).len(),
{
    let d = pre + enc_method(v) + post; let p = pre.len() as int;
    assert(d[p] == enc_method(v)[0]);
    match v {
        TargetInfoMethod::MethodTypeParameter { index } => { assert(d[p + 1] == enc_method(v)[1]); },
        TargetInfoMethod::MethodTypeParameterBound { type_parameter_index, bound_index } => { assert(d[p + 1] == enc_method(v)[1]); assert(d[p + 2] == enc_method(v)[2]); },
        TargetInfoMethod::FormalParameter { index } => { assert(d[p + 1] == enc_method(v)[1]); },
        TargetInfoMethod::Throws { index } => { lemma_be16_val(index); assert(d.subrange(p + 1, p + 3) =~= be16(index)); },
        _ => {},
    }
}'''),
    ('C02.lemma.the-reader-table-reads-an-encoded-type-path-back-as-the-same-steps', r'''
pub proof fn lemma_read_back_path(pre: Seq<u8>, path: Seq<TypePathKind>, post: Seq<u8>)
    requires path.len() <= 255,
    ensures ({ let d = pre + seq![path.len() as u8] + enc_steps(path, path.len() as int) + post; let p = pre.len() as int;
               u8_at(d, p) == path.len() && tp_all_ok(d, p, path.len() as int)
               && (forall|k: int| 0 <= k < path.len() ==> tp_entry_is(#[trigger] u8_at(d, p + 1 + 2 * k), u8_at(d, p + 2 + 2 * k), path[k])) }),
{
    let n = path.len() as int;
    let d = pre + seq![path.len() as u8] + enc_steps(path, n) + post; let p = pre.len() as int;
    lemma_enc_steps_len(path, n);
    assert forall|k: int| 0 <= k < n implies tp_entry_ok(#[trigger] u8_at(d, p + 1 + 2 * k), u8_at(d, p + 2 + 2 * k)) && tp_entry_is(u8_at(d, p + 1 + 2 * k), u8_at(d, p + 2 + 2 * k), path[k]) by {
        lemma_enc_steps_at(path, n, k);
        assert(d[p + 1 + 2 * k] == enc_steps(path, n)[2 * k]);
        assert(d[p + 2 + 2 * k] == enc_steps(path, n)[2 * k + 1]);
    }
}'''),
]


def build(u):
    u.preamble('common.rs')
    u.preamble('bytes.rs')
    add_classwrite(u, [])
    u.item(CC, 'mod', 'type_annotation')
    for e in ('TargetInfoClass', 'TargetInfoField', 'TargetInfoMethod', 'TypePathKind'):
        u.item(TA, 'enum', e, derives=[])
    u.item(TA, 'struct', 'TypePath', derives=[])
    # the reader's tables (unit rtypes), verbatim, for the read-back lemmas
    rt = RT.STUBS
    a = rt.index('pub open spec fn u8_at')
    b = rt.index('// inside Code')
    seg = rt[a:b]
    seg = seg[:seg.index('pub open spec fn has_label')] + seg[seg.index('// ---- JVMS 4.7.20.2 type_path'):]
    u.raw(seg)
    u.raw(ENC)
    W0 = 'old(writer).bytes()'
    gen = (r'writer: &mut impl ClassWrite', 'writer: &mut Wr')
    ok = 'res.is_ok() ==> final(writer).bytes() == ' + W0 + ' + {enc}'
    frame = [C('{n}.err-only-if-the-sink-fails', 'res.is_err() ==> !old(writer).infallible()')]
    for ty, lv in (('TargetInfoClass', 'class'), ('TargetInfoField', 'field'), ('TargetInfoMethod', 'method')):
        u.fn(W, f'{ty}::write_type_reference', impl=rf'TargetInfoWrite\s+for\s+{ty}', impl_header=f'impl {ty}', ret='res', canary=(lv == 'class'),
             sig_rewrites=[gen, (r'fn write_type_reference\(', 'fn write_type_reference<Wr: ClassWrite>(')],
             opt_rewrites=DEREF + [(r'match type_reference \{', 'match *type_reference {')],
             ensures=[C(f'C02.target.{lv}.appends-exactly-the-jvms-encoding', ok.format(enc=f'enc_{lv}(*type_reference)')),
                      C(f'C02.target.{lv}.err-only-if-the-sink-fails', 'res.is_err() ==> !old(writer).infallible()')])
    P = 'type_path.path@'
    u.fn(W, 'write_type_path', ret='res',
         sig_rewrites=[gen, (r'fn write_type_path\(', 'fn write_type_path<Wr: ClassWrite>(')],
         rewrites=[(r'for i in &type_path\.path', 'for i in iter: &type_path.path'), (r'match i \{', 'match *i {')] + DEREF,
         loops={0: dict(invariant=[C('C02.type_path.inv', f'{P}.len() <= 255 && writer.bytes() == {W0} + seq![{P}.len() as u8] + enc_steps({P}, iter.index@ as int) && writer.infallible() == old(writer).infallible()')],
                        body_end=f'proof {{ let k = iter.index@ as int; assert(writer.bytes() =~= {W0} + seq![{P}.len() as u8] + enc_steps({P}, k + 1)); }}')},
         ensures=[C('C02.type_path.appends-exactly-the-jvms-encoding', f'res.is_ok() ==> {P}.len() <= 255 && final(writer).bytes() == {W0} + seq![{P}.len() as u8] + enc_steps({P}, {P}.len() as int)'),
                  C('C02.type_path.err-only-if-too-long-or-the-sink-fails', f'res.is_err() ==> {P}.len() > 255 || !old(writer).infallible()')])
    for lab, text in LEMMAS:
        u.lemma(lab, text)
