"""wpool -- the writer's constant pool (duke/src/simple_class_writer/pool.rs): PoolWrite::write emits `constant_pool_count` and every
entry in the JVMS 4.4 layout (tag, operand order and widths; a Utf8 entry carries the length of its modified-UTF-8 bytes).
`&JavaStr` is replaced by an opaque stand-in; jstring::from_string_to_vec (modified UTF-8 encoding) is a trusted stub.
PoolWrite::put (HashMap::entry API) is outside Verus and stays unverified."""
from vx.unit import C
from vx.units._cwrite import add_classwrite

PROPS = ['C02']
RLIMIT = 80
P = 'duke/src/simple_class_writer/pool.rs'
CC = 'duke/src/class_constants.rs'

SPEC = r'''
// TRUSTED: VJavaStr stands in for java_string::JavaStr; mutf8(s) is its modified-UTF-8 encoding (uninterpreted); from_string_to_vec is assumed to return it
#[verifier::external_body] pub struct VJavaStr { _p: () }
pub uninterp spec fn mutf8(s: &VJavaStr) -> Seq<u8>;
pub uninterp spec fn jstr_len(s: &VJavaStr) -> usize;   // JavaStr::len: length of the in-memory representation (not of the modified-UTF-8 form)
impl VJavaStr {
    #[verifier::external_body] pub fn len(&self) -> (n: usize) ensures n == jstr_len(self) { unimplemented!() }
    #[verifier::external_body] pub fn is_empty(&self) -> (b: bool) ensures b == (jstr_len(self) == 0) { unimplemented!() }
}
#[verifier::external_body]
pub fn from_string_to_vec(s: &VJavaStr) -> (v: Vec<u8>)
    ensures v@ == mutf8(s),
{ unimplemented!() }

// ---- JVMS 4.4: the cp_info encoding of an entry ----
pub open spec fn entry_ser(e: PoolEntry) -> Seq<u8> {
    match e {
        PoolEntry::Utf8 { string } => seq![1u8] + be16(mutf8(string).len() as u16) + mutf8(string),
        PoolEntry::Integer { bytes } => seq![3u8] + be_i32(bytes),
        PoolEntry::Float { bytes } => seq![4u8] + be32(bytes),
        PoolEntry::Long { bytes } => seq![5u8] + be_i64(bytes),
        PoolEntry::Double { bytes } => seq![6u8] + be64(bytes),
        PoolEntry::Class { name_index } => seq![7u8] + be16(name_index),
        PoolEntry::String { string_index } => seq![8u8] + be16(string_index),
        PoolEntry::FieldRef { class_index, name_and_type_index } => seq![9u8] + be16(class_index) + be16(name_and_type_index),
        PoolEntry::MethodRef { class_index, name_and_type_index } => seq![10u8] + be16(class_index) + be16(name_and_type_index),
        PoolEntry::InterfaceMethodRef { class_index, name_and_type_index } => seq![11u8] + be16(class_index) + be16(name_and_type_index),
        PoolEntry::NameAndType { name_index, descriptor_index } => seq![12u8] + be16(name_index) + be16(descriptor_index),
        PoolEntry::MethodHandle { reference_kind, reference_index } => seq![15u8] + seq![reference_kind] + be16(reference_index),
        PoolEntry::MethodType { descriptor_index } => seq![16u8] + be16(descriptor_index),
        PoolEntry::Dynamic { bootstrap_method_attribute_index, name_and_type_index } => seq![17u8] + be16(bootstrap_method_attribute_index) + be16(name_and_type_index),
        PoolEntry::InvokeDynamic { bootstrap_method_attribute_index, name_and_type_index } => seq![18u8] + be16(bootstrap_method_attribute_index) + be16(name_and_type_index),
        PoolEntry::Module { name_index } => seq![19u8] + be16(name_index),
        PoolEntry::Package { name_index } => seq![20u8] + be16(name_index),
    }
}
pub open spec fn entries_ser(s: Seq<PoolEntry>, k: nat) -> Seq<u8> decreases k {
    if k == 0 || k > s.len() { Seq::<u8>::empty() } else { entries_ser(s, (k - 1) as nat) + entry_ser(s[k - 1]) }
}
'''


def build(u):
    u.preamble('common.rs')
    u.preamble('bytes.rs')
    add_classwrite(u, [])
    u.item(CC, 'mod', 'pool')
    u.raw(SPEC.split('// ---- JVMS 4.4')[0])
    u.item(P, 'enum', 'PoolEntry', derives=[], rewrites=[(r"&'a JavaStr", "&'a VJavaStr")])
    u.raw('// ---- JVMS 4.4' + SPEC.split('// ---- JVMS 4.4')[1])
    u.raw('''
// the fields of PoolWrite that `write` uses (map / bootstrap_methods are HashMaps keyed by tree types: not part of this unit)
pub struct PoolWrite<'a> { pub count: u16, pub inner: Vec<PoolEntry<'a>> }
''')
    u.drop('struct PoolWrite reduced to the two fields used by PoolWrite::write (count, inner); &JavaStr -> &VJavaStr; jstring::from_string_to_vec -> trusted stub')
    b0 = 'old(writer).bytes()'
    u.fn(P, 'PoolWrite::write', impl=r"PoolWrite<'_>", impl_header="impl PoolWrite<'_>", ret='res', canary=True,
         requires=['old(writer).infallible()'],
         rewrites=[(r'jstring::from_string_to_vec\(', 'from_string_to_vec('), (r'for entry in self\.inner\b', 'for entry in iter: self.inner')],
         loops={0: dict(invariant=[
             C('C02.wpool.inv.bytes', f'writer.bytes() == {b0} + be16(self.count) + entries_ser(self.inner@, iter.index@ as nat)'),
             C('C02.wpool.inv.sink', 'writer.infallible()'),
         ])},
         ensures=[
             C('C02.wpool.count-then-entries-per-jvms', f'res.is_ok() ==> final(writer).bytes() == {b0} + be16(self.count) + entries_ser(self.inner@, self.inner@.len())'),
             C('C02.wpool.fails-only-on-oversized-utf8', 'res.is_err() ==> exists|i: int| 0 <= i < self.inner@.len() && ((#[trigger] self.inner@[i]) matches PoolEntry::Utf8 { string } && mutf8(string).len() > 0xffff)'),
         ])
