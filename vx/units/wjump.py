"""wjump -- branch emission helpers of the class writer (duke/src/simple_class_writer.rs + labels.rs)"""
from vx.unit import C
from vx.units._cwrite import add_classwrite

PROPS = ['C02']
RLIMIT = 50
W = 'duke/src/simple_class_writer.rs'
L = 'duke/src/simple_class_writer/labels.rs'
CODE = 'duke/src/tree/method/code.rs'
CC = 'duke/src/class_constants.rs'

KM = 'vstd::std_specs::hash::obeys_key_model::<Label>()'
UNCHANGED = 'final(unwritten)@ == old(unwritten)@'
RESOLVED = 'labels.labels@.contains_key(*label)'
TGT = 'labels.labels@[*label]'
BR = f'({TGT} as int - opcode_pos as int)'
FITS = f'(-32768 <= {BR} <= 32767)'
TRAMP_PLACEHOLDER = 'seq![opposite_opcode] + be_i16(8) + seq![0xc8u8] + be_i32(i32::MAX)'


def pushed(op, pos, wide):
    return (f'final(unwritten)@.len() == old(unwritten)@.len() + 1 && final(unwritten)@.subrange(0, old(unwritten)@.len() as int) == old(unwritten)@ '
            f'&& ({{ let u = final(unwritten)@.last(); u.opcode_pos as int == {op} && u.label_write_pos as int == {pos} && u.wide == {wide} '
            f'&& u.instruction_index == instruction_index && *u.label == *label }})')


def build(u):
    u.preamble('common.rs')
    u.preamble('bytes.rs')
    add_classwrite(u, PROPS, with_usize=False)
    u.item(CC, 'mod', 'opcode')
    u.item(CODE, 'struct', 'Label', derives=['Copy', 'Clone', 'PartialEq', 'Eq', 'Hash'])
    u.item(CODE, 'struct', 'LabelRange', derives=[])
    u.item(L, 'struct', 'Labels')
    u.item(W, 'struct', 'UnwrittenLabel')
    u.trusted.append('precondition vstd::std_specs::hash::obeys_key_model::<Label>() on every function touching HashMap<Label,u16>: the derived Hash/Eq of `Label { id: u16 }` are consistent (assumed at the unit boundary, not proved)')
    # ---- writer Labels
    u.fn(L, 'Labels::new', ret='r',
         ensures=[C('C02.wlabels.new.empty', 'r.labels@ == Map::<Label, u16>::empty() && r.index_to_offset@ == Map::<usize, u16>::empty()')])
    u.fn(L, 'Labels::add_instruction',
         ensures=[C('C02.wlabels.add_instruction.exact', 'final(self).index_to_offset@ == old(self).index_to_offset@.insert(instruction_index, opcode_pos) && final(self).labels@ == old(self).labels@')])
    u.fn(L, 'Labels::add_opcode_pos_label', requires=[KM],
         ensures=[C('C02.wlabels.add_label.exact', 'final(self).labels@ == old(self).labels@.insert(label, opcode_pos) && final(self).index_to_offset@ == old(self).index_to_offset@')])
    u.fn(L, 'Labels::get', requires=[KM], ret='r', canary=True,
         ensures=[C('C02.wlabels.get.exact', 'r == (if self.labels@.contains_key(*target) { Some(self.labels@[*target]) } else { None::<u16> })')])
    u.fn(L, 'Labels::try_get', requires=[KM], ret='res',
         ensures=[C('C02.wlabels.try_get.ok-iff-known', 'res.is_ok() <==> self.labels@.contains_key(*target)'),
                  C('C02.wlabels.try_get.exact', 'res matches Ok(o) ==> o == self.labels@[*target]')])
    # LabelRange has crate-private fields and is only built by the reader (start_pc, start_pc + length): start <= end.
    # That ordering is an assumption at the unit boundary (listed as trusted), not a defect of try_get_range.
    u.trusted.append('precondition of writer Labels::try_get_range: offset(range.start) <= offset(range.end) whenever both are known (ranges come from the reader as start_pc, start_pc+length and instruction order is kept)')
    u.fn(L, 'Labels::try_get_range', requires=[KM, 'self.labels@.contains_key(range.start) && self.labels@.contains_key(range.end) ==> self.labels@[range.start] <= self.labels@[range.end]'], ret='res',
         ensures=[C('C02.wlabels.range.ok-only-if-known', 'res.is_ok() ==> self.labels@.contains_key(range.start) && self.labels@.contains_key(range.end)'),
                  C('C02.wlabels.range.exact', 'res matches Ok(p) ==> p.0 == self.labels@[range.start] && p.0 as int + p.1 as int == self.labels@[range.end] as int'),
                  C('C02.wlabels.range.ok-if-known', 'self.labels@.contains_key(range.start) && self.labels@.contains_key(range.end) ==> res.is_ok()')])
    u.fn(L, 'Labels::next_attempt',
         ensures=[C('C02.wlabels.next_attempt.cleared', 'final(self).labels@ == Map::<Label, u16>::empty() && final(self).index_to_offset@ == Map::<usize, u16>::empty()')])

    # ---- offsets and helpers
    u.fn(W, 'compute_signed_offset', ret='r',
         ensures=[C('C02.offset.exact', 'r as int == target as int - opcode_pos as int')])
    u.fn(W, 'align_to_4_byte_boundary', ret='res', canary=True,
         proof_before=[(r'match writer\.len\(\) & 0b11', '    proof { let n: usize = writer@.len() as usize; assert(n & 0b11 == n % 4) by (bit_vector); }')],
         ensures=[C('C02.align.ok', 'res.is_ok()'),
                  C('C02.align.aligned', 'final(writer)@.len() % 4 == 0'),
                  C('C02.align.less-than-4', 'final(writer)@.len() - old(writer)@.len() < 4 && final(writer)@.len() >= old(writer)@.len()'),
                  C('C02.align.prefix-kept', 'final(writer)@.subrange(0, old(writer)@.len() as int) == old(writer)@'),
                  C('C02.align.zero-padding', 'forall|i: int| old(writer)@.len() <= i < final(writer)@.len() ==> final(writer)@[i] == 0u8')])
    pre = [KM, 'old(w)@.len() == opcode_pos as int']
    u.fn(W, 'if_helper', ret='res', requires=pre, canary=True,
         ensures=[
             C('C02.if.resolved-narrow-bytes', f'{RESOLVED} && {FITS} ==> res.is_ok() && final(w)@ == old(w)@ + seq![opcode] + be_i16({BR} as i16) && {UNCHANGED}'),
             C('C02.if.resolved-trampoline-bytes', f'{RESOLVED} && !{FITS} && res.is_ok() ==> final(w)@ == old(w)@ + seq![opposite_opcode] + be_i16(8) + seq![0xc8u8] + be_i32(({BR} - 3) as i32) && {UNCHANGED}'),
             C('C02.if.narrow-iff-fits', f'{RESOLVED} && res.is_ok() ==> (final(w)@.len() == old(w)@.len() + 3 <==> {FITS})'),
             C('C02.if.unresolved-wide-slot', f'!{RESOLVED} && wide@.contains(instruction_index) && res.is_ok() ==> final(w)@ == old(w)@ + {TRAMP_PLACEHOLDER} && ' + pushed('opcode_pos as int + 3', 'opcode_pos as int + 4', 'true')),
             C('C02.if.unresolved-narrow-slot', f'!{RESOLVED} && !wide@.contains(instruction_index) ==> res.is_ok() && final(w)@ == old(w)@ + seq![opcode] + be_i16(i16::MAX) && ' + pushed('opcode_pos as int', 'opcode_pos as int + 1', 'false')),
             C('C02.if.err-only-when-too-large', 'res.is_err() ==> opcode_pos as int + 3 > 65535'),
         ])
    u.fn(W, 'goto_helper', ret='res', requires=pre,
         ensures=[
             C('C02.goto.resolved-narrow-bytes', f'{RESOLVED} && {FITS} ==> res.is_ok() && final(w)@ == old(w)@ + seq![opcode] + be_i16({BR} as i16) && {UNCHANGED}'),
             C('C02.goto.resolved-wide-bytes', f'{RESOLVED} && !{FITS} ==> res.is_ok() && final(w)@ == old(w)@ + seq![wide_opcode] + be_i32({BR} as i32) && {UNCHANGED}'),
             C('C02.goto.unresolved-wide-slot', f'!{RESOLVED} && wide@.contains(instruction_index) ==> res.is_ok() && final(w)@ == old(w)@ + seq![wide_opcode] + be_i32(i32::MAX) && ' + pushed('opcode_pos as int', 'opcode_pos as int + 1', 'true')),
             C('C02.goto.unresolved-narrow-slot', f'!{RESOLVED} && !wide@.contains(instruction_index) ==> res.is_ok() && final(w)@ == old(w)@ + seq![opcode] + be_i16(i16::MAX) && ' + pushed('opcode_pos as int', 'opcode_pos as int + 1', 'false')),
         ])
    u.fn(W, 'switch_helper', ret='res', requires=[KM],
         ensures=[
             C('C02.switch.resolved-bytes', f'{RESOLVED} ==> res.is_ok() && final(w)@ == old(w)@ + be_i32({BR} as i32) && {UNCHANGED}'),
             C('C02.switch.unresolved-slot', f'!{RESOLVED} ==> res.is_ok() && final(w)@ == old(w)@ + be_i32(i32::MAX) && ' + pushed('opcode_pos as int', 'old(w)@.len()', 'true')),
         ])
    # nested fns of write_code
    for name, k, spec in [('put_i16_at', 2, 'be_i16(value)'), ('put_i32_at', 4, 'be_i32(value)')]:
        u.fn(W, name, inside_fn='write_code', requires=[f'pos + {k} <= old(writer)@.len()'],
             rewrites=[(r'value\.to_be_bytes\(\)', f'to_be_bytes_{"i16" if k == 2 else "i32"}(value)')],
             ensures=[C(f'C02.{name}.len-kept', 'final(writer)@.len() == old(writer)@.len()'),
                      C(f'C02.{name}.patched-big-endian', f'final(writer)@.subrange(pos as int, pos as int + {k}) == {spec}'),
                      C(f'C02.{name}.frame', f'forall|i: int| 0 <= i < old(writer)@.len() && !(pos as int <= i < pos as int + {k}) ==> final(writer)@[i] == old(writer)@[i]')])
