"""rtree -- the tree-building visitor (duke/src/visitor/implementations/tree.rs): `impl {Class,Field,Method,Code,RecordComponent}Visitor for
{ClassFile,Field,Method,Code,RecordComponent}` and the constructors `X::new`.

C01: "nothing is invented, dropped or attached to the wrong member"; C17: "replaying into the tree builder reproduces the class".  Every
visit method of the builder gets the contract "exactly the slot that ClassFile/Field/Method/Code/RecordComponent::accept replays this event
from receives the value (visible / invisible lists by the `visible` flag), every other field of the item is unchanged".  The slot of each
event is taken from the REPLAY tables of unit raccept (vx/units/raccept.py LEVELS / CODE_BLOCKS), so builder and replay are specified
against one table: build(replay(x)) = x is then a consequence of the two units' contracts, event by event.

Extraction: each `impl <Trait> for <Struct>` method is cut from tree.rs and emitted in an inherent `impl <Struct>` block (the associated
types `Self::XResidual` / `Self::XVisitor` are replaced by their definitions from the same impl block, tuple patterns in parameter
position become a `let`); `Vec::extend(v)` -> vec_extend(&mut _, v) (assumed: appends v), `Option::insert_if_empty` is the verified
OptionExpansion of duke/src/lib.rs."""
import re

from vx.unit import C
from vx.rustcut import CutError, code_mask, match_close
from vx.units._visit import opaque
from vx.units.raccept import LEVELS, OPAQUE as ACCEPT_OPAQUE

PROPS = ['C01', 'C17']
TREE = 'duke/src/visitor/implementations/tree.rs'
T = 'duke/src/tree/'
LIB = 'duke/src/lib.rs'

STUBS = r'''
// TRUSTED: opaque stand-ins for duke's tree payload types; vec_extend stands for Vec::extend(Vec) (appends the elements in order); Code::default() is the derived Default (every Option None, every Vec empty)
pub enum ControlFlow<B, C> { Continue(C), Break(B) }
#[verifier::external_body] #[verifier::accept_recursive_types(T)] pub struct TypeAnnotation<T> { _p: core::marker::PhantomData<T> }
#[verifier::external_body] pub fn vec_extend<T>(v: &mut Vec<T>, more: Vec<T>) ensures final(v)@ == old(v)@ + more@ { unimplemented!() }
pub open spec fn code_is_default(c: Code) -> bool {
    c.max_stack is None && c.max_locals is None && c.instructions@.len() == 0 && c.exception_table@.len() == 0 && c.last_label is None && c.line_numbers is None && c.local_variables is None
    && c.runtime_visible_type_annotations@.len() == 0 && c.runtime_invisible_type_annotations@.len() == 0 && c.attributes@.len() == 0
}
impl Code { #[verifier::external_body] pub fn default() -> (c: Code) ensures code_is_default(c) { unimplemented!() } }
'''


def struct_fields(u, relpath, name):
    s = u.src(relpath)
    it = s.cut_item('struct', name)
    body = it['text'][it['text'].index('{') + 1:it['text'].rindex('}')]
    body = re.sub(r'//[^\n]*', '', body)
    fields = []
    for m in re.finditer(r'(?:pub(?:\([a-z]+\))?\s+)?([a-z_][a-z0-9_]*)\s*:\s*([^,\n]+(?:<[^\n]*>)?)\s*,', body):
        fields.append((m.group(1), m.group(2).strip()))
    if not fields:
        raise CutError(f'{relpath}: struct {name}: no fields found')
    return fields


def frame(fields, a, b, changed):
    """every field not in `changed` is the same in a and b"""
    return ' && '.join(f'{a}.{f} == {b}.{f}' for f, _ in fields if f not in changed) or 'true'


def assoc_types(u, trait, struct):
    s = u.src(TREE)
    it = s.cut_item('impl', rf'{trait}\s+for\s+{struct}')
    return dict(re.findall(r'type\s+(\w+)\s*=\s*([^;]+);', it['text']))


def builder_fn(u, trait, struct, meth, fields, ensures, requires=(), ret='res', external_body=False, extra_rewrites=(), canary=False):
    at = assoc_types(u, trait, struct)
    subst = [(rf'\bSelf::{k}\b', v.replace('Self', struct)) for k, v in at.items()]
    # tuple pattern in parameter position:  `(mut this, visible): T`  ->  `arg0: T` + `let (mut this, visible) = arg0;`
    sig_rw, body_rw = [], []
    s = u.src(TREE)
    it = s.cut_item('impl', rf'{trait}\s+for\s+{struct}')
    f = s.cut_fn(meth, within=(it['open'] + 1, it['close']))
    m = re.search(r'\(\s*(\((?:mut\s+)?\w+(?:\s*,\s*(?:mut\s+)?\w+)*\))\s*:', f['sig'])
    if m:
        pat = m.group(1)
        sig_rw.append((re.escape(pat) + r'\s*:', 'arg0:'))
        body_rw.append((r'^\{', '{ let ' + pat + ' = arg0;'))
        u.drop('tuple pattern in parameter position -> `arg0: T` + `let (..) = arg0;`')
    sig_rw += [(p, r) for p, r in subst if re.search(p, f['sig'])]
    body_rw += [(p, r) for p, r in subst if re.search(p, f['body'])]
    ext = [(r'(\w+(?:\.\w+)+)\.extend\((\w+)\)', r'vec_extend(&mut \1, \2)')] if re.search(r'\.extend\(', f['body']) else []
    u.fn(TREE, f'{struct}::{meth}', impl=rf'{trait}\s+for\s+{struct}', impl_header=f'impl {struct}', ret=ret, external_body=external_body, canary=canary,
         sig_rewrites=sig_rw, rewrites=body_rw + ext + list(extra_rewrites), requires=list(requires),
         ensures=[C(f'C01.tree.{struct}.{meth}.{k}', t) for k, t in ensures])


def slot_of(L, event_name):
    """the field an event is replayed from (raccept REPLAY table)"""
    for b in L['blocks']:
        if b[0] == 'opt' and b[3].split('(')[0] == event_name:
            return b[2]
    return None


def build_level(u, name, L, trait):
    struct = L['struct']
    fields = struct_fields(u, L['file'], struct)
    fr = lambda a, b, ch: frame(fields, a, b, ch)
    S, O = 'final(self)', 'old(self)'
    # deprecated / synthetic
    if 'visit_deprecated_and_synthetic_attribute' in L['specs']:
        builder_fn(u, trait, struct, 'visit_deprecated_and_synthetic_attribute', fields, [
            ('stores-the-two-flags', f'res.is_ok() && {S}.has_deprecated_attribute == deprecated && {S}.has_synthetic_attribute == synthetic'),
            ('frame', fr(S, O, ['has_deprecated_attribute', 'has_synthetic_attribute']))])
    # single-value attributes: stored in the slot the replay reads them from; a second one is refused and changes nothing
    for meth, ev in L['specs'].items():
        if meth == 'visit_deprecated_and_synthetic_attribute':
            continue
        evname, arg = ev.split('(')[0], ev.split('(')[1].rstrip(')').rstrip('@')
        slot = slot_of(L, evname)
        if slot is None:
            raise CutError(f'raccept REPLAY table of {struct}: no slot for event {evname}')
        builder_fn(u, trait, struct, meth, fields, [
            ('ok-iff-first', f'res.is_ok() <==> {O}.{slot} is None'),
            ('stored-in-its-slot', f'res.is_ok() ==> {S}.{slot} == Some({arg})'),
            ('refused-second-changes-nothing', f'res.is_err() ==> {S}.{slot} == {O}.{slot}'),
            ('frame', fr(S, O, [slot]))], canary=(struct == 'Field' and meth == 'visit_constant_value'))
    # annotations / type annotations through a (self, visible) residual
    for kind, vis, inv, sub in (('annotations', 'runtime_visible_annotations', 'runtime_invisible_annotations', 'annotations_visitor'),
                                ('type_annotations', 'runtime_visible_type_annotations', 'runtime_invisible_type_annotations', 'type_annotations_visitor')):
        builder_fn(u, trait, struct, f'visit_{kind}', fields, [
            ('hands-itself-and-the-flag-on', 'res matches Ok((r, sub)) && r.0 == self && r.1 == visible && sub@.len() == 0')])
        builder_fn(u, trait, struct, f'finish_{kind}', fields, [
            ('visible-list-iff-visible', f'res matches Ok(s) && (arg0.1 ==> s.{vis}@ == arg0.0.{vis}@ + {sub}@ && s.{inv} == arg0.0.{inv}) '
                                         f'&& (!arg0.1 ==> s.{inv}@ == arg0.0.{inv}@ + {sub}@ && s.{vis} == arg0.0.{vis})'),
            ('frame', 'res matches Ok(s) && ' + fr('s', 'arg0.0', [vis, inv]))])
    builder_fn(u, trait, struct, 'visit_unknown_attribute', fields, [
        ('appended-in-order', f'res.is_ok() && {S}.attributes@ == {O}.attributes@.push(unknown_attribute)'),
        ('frame', fr(S, O, ['attributes']))])
    return fields


def build(u):
    u.preamble('common.rs')
    opaque(u, [t for t in ACCEPT_OPAQUE if t not in ('Attribute',)] + ['TypePath'])
    u.raw(STUBS.split('pub open spec fn code_is_default')[0])
    u.item(T + 'method/code.rs', 'struct', 'Label', derives=['Copy', 'Clone', 'PartialEq', 'Eq'])
    u.item(T + 'attribute.rs', 'struct', 'Attribute', derives=[])
    u.item(T + 'method/code.rs', 'struct', 'Lv', derives=[])
    u.item(T + 'method/code.rs', 'struct', 'InstructionListEntry', derives=[])
    u.item(T + 'method/code.rs', 'struct', 'Code', derives=[])
    u.item(T + 'method.rs', 'struct', 'Method', derives=[])
    u.item(T + 'field.rs', 'struct', 'Field', derives=[])
    u.item(T + 'record.rs', 'struct', 'RecordComponent', derives=[])
    u.item(T + 'class.rs', 'struct', 'ClassFile', derives=[])
    u.raw('pub open spec fn code_is_default' + STUBS.split('pub open spec fn code_is_default')[1])
    # ---- Option::insert_if_empty (duke/src/lib.rs)
    u.open_block('pub trait OptionExpansion<T> {')
    u.fn(LIB, 'OptionExpansion::insert_if_empty', container=('trait', 'OptionExpansion'), no_body=True, props=[])
    u.close_block()
    u.fn(LIB, 'Option::insert_if_empty', impl=r'OptionExpansion<T>\s+for\s+Option<T>', impl_header='impl<T> OptionExpansion<T> for Option<T>', ret='res', canary=False, trait_impl=True,
         ensures=[C('C01.tree.insert_if_empty.ok-iff-empty', 'res.is_ok() <==> *old(self) is None'),
                  C('C01.tree.insert_if_empty.stores', 'res.is_ok() ==> *final(self) == Some(value)'),
                  C('C01.tree.insert_if_empty.refuses-second', 'res.is_err() ==> *final(self) == *old(self)')])
    fl = {}
    for lv, trait in (('field', 'FieldVisitor'), ('component', 'RecordComponentVisitor'), ('method', 'MethodVisitor'), ('klass', 'ClassVisitor')):
        fl[lv] = build_level(u, lv, LEVELS[lv], trait)
    build_method_extras(u, fl['method'])
    build_class_members(u, fl)
    build_code(u)


def ctor(u, relpath, struct, fields, given):
    """X::new: the given arguments land in their fields, everything else is empty"""
    cl = []
    for f, ty in fields:
        if f in given:
            cl.append(f'r.{f} == {f}')
        elif ty == 'bool':
            cl.append(f'!r.{f}')
        elif ty.startswith('Option<'):
            cl.append(f'r.{f} is None')
        elif ty.startswith('Vec<'):
            cl.append(f'r.{f}@.len() == 0')
        else:
            raise CutError(f'{relpath}: {struct}::new: do not know the empty value of field {f}: {ty}')
    u.fn(relpath, f'{struct}::new', ret='r', ensures=[C(f'C01.tree.{struct}.new.only-the-given-facts', ' && '.join(cl))])


def build_method_extras(u, fields):
    S, O = 'final(self)', 'old(self)'
    builder_fn(u, 'MethodVisitor', 'Method', 'visit_code', fields, [
        ('fresh-code-and-unchanged', f'res matches Ok(Some(c)) && code_is_default(c) && *{S} == *{O}')])
    builder_fn(u, 'MethodVisitor', 'Method', 'finish_code', fields, [
        ('ok-iff-first', f'res.is_ok() <==> {O}.code is None'), ('stored-in-its-slot', f'res.is_ok() ==> {S}.code == Some(code_visitor)'),
        ('frame', frame(fields, S, O, ['code']))])
    builder_fn(u, 'MethodVisitor', 'Method', 'visit_annotation_default', fields, [
        ('hands-itself-on', 'res matches Ok((r, sub)) && r == self && sub@.len() == 0')])


def build_class_members(u, fl):
    cf = fl['klass']
    for kind, struct, vec, args, lv in (('record_component', 'RecordComponent', 'record_components', ['name', 'descriptor'], 'component'),
                                        ('field', 'Field', 'fields', ['access', 'name', 'descriptor'], 'field'),
                                        ('method', 'Method', 'methods', ['access', 'name', 'descriptor'], 'method')):
        ctor(u, LEVELS[lv]['file'], struct, fl[lv], args)
        builder_fn(u, 'ClassVisitor', 'ClassFile', f'visit_{kind}', cf, [
            ('fresh-member-with-the-given-header', 'res matches Ok(ControlFlow::Continue((r, m))) && r == self && ' + ' && '.join(f'm.{a} == {a}' for a in args))])
        var = f'{kind}_visitor'
        builder_fn(u, 'ClassVisitor', 'ClassFile', f'finish_{kind}', cf, [
            ('appended-in-order', f'res matches Ok(s) && s.{vec}@ == this.{vec}@.push({var})'),
            ('frame', 'res matches Ok(s) && ' + frame(cf, 's', 'this', [vec]))])


def build_code(u):
    fields = struct_fields(u, T + 'method/code.rs', 'Code')
    S, O = 'final(self)', 'old(self)'
    fr = lambda ch: frame(fields, S, O, ch)
    B = lambda m, e, **kw: builder_fn(u, 'CodeVisitor', 'Code', m, fields, e, **kw)
    B('visit_max_stack_and_max_locals', [('stored', f'res.is_ok() && {S}.max_stack == Some(max_stack) && {S}.max_locals == Some(max_locals)'), ('frame', fr(['max_stack', 'max_locals']))])
    B('visit_exception_table', [('stored', f'res.is_ok() && {S}.exception_table == exception_table'), ('frame', fr(['exception_table']))])
    B('visit_instruction', [('appended-in-order-with-its-label-and-frame',
                             f'res.is_ok() && {S}.instructions@.len() == {O}.instructions@.len() + 1 && {S}.instructions@.subrange(0, {O}.instructions@.len() as int) == {O}.instructions@ '
                             f'&& {S}.instructions@.last().label == label && {S}.instructions@.last().frame == frame && {S}.instructions@.last().instruction == instruction'),
                            ('frame', fr(['instructions']))])
    for meth, slot, arg in (('visit_last_label', 'last_label', 'last_label'), ('visit_line_numbers', 'line_numbers', 'line_number_table'), ('visit_local_variables', 'local_variables', 'local_variables')):
        B(meth, [('ok-iff-first', f'res.is_ok() <==> {O}.{slot} is None'), ('stored-in-its-slot', f'res.is_ok() ==> {S}.{slot} == Some({arg})'),
                 ('refused-second-changes-nothing', f'res.is_err() ==> {S}.{slot} == {O}.{slot}'), ('frame', fr([slot]))])
    B('visit_type_annotations', [('hands-itself-and-the-flag-on', 'res matches Ok((r, sub)) && r.0 == self && r.1 == visible && sub@.len() == 0')])
    vis, inv, sub = 'runtime_visible_type_annotations', 'runtime_invisible_type_annotations', 'type_annotations_visitor'
    B('finish_type_annotations', [
        ('visible-list-iff-visible', f'res matches Ok(s) && (arg0.1 ==> s.{vis}@ == arg0.0.{vis}@ + {sub}@ && s.{inv} == arg0.0.{inv}) && (!arg0.1 ==> s.{inv}@ == arg0.0.{inv}@ + {sub}@ && s.{vis} == arg0.0.{vis})'),
        ('frame', 'res matches Ok(s) && ' + frame(fields, 's', 'arg0.0', [vis, inv]))])
    B('visit_unknown_attribute', [('appended-in-order', f'res.is_ok() && {S}.attributes@ == {O}.attributes@.push(unknown_attribute)'), ('frame', fr(['attributes']))])
