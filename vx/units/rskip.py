"""rskip -- primitive readers of trait ClassRead and skip_attributes (duke/src/lib.rs, duke/src/class_reader.rs)"""
from vx.unit import C
from vx.units._cread import add_classread

PROPS = ['C17']
R = 'duke/src/class_reader.rs'


def build(u):
    u.preamble('common.rs')
    u.preamble('bytes.rs')
    u.preamble('rbytes.rs')
    add_classread(u, ['C17', 'C01'])
    add_skip_attributes(u, PROPS, canary=True)


def add_skip_attributes(u, props, canary=False):
    u.raw('''
// position after k attribute_info structures that start at p: each is u2 name index, u4 length, `length` bytes
pub open spec fn attrs_end_k(data: Seq<u8>, p: int, k: nat) -> int
    decreases k
{
    if k == 0 { p } else {
        let q = attrs_end_k(data, p, (k - 1) as nat);
        q + 6 + val32(data.subrange(q + 2, q + 6))
    }
}
// all k attribute headers (6 bytes each) lie within the data
pub open spec fn attrs_headers_ok(data: Seq<u8>, p: int, k: nat) -> bool {
    forall|j: nat| j < k ==> #[trigger] attrs_end_k(data, p, j) + 6 <= data.len()
}
pub proof fn lemma_attrs_end_nonneg(data: Seq<u8>, p: int, k: nat)
    requires p >= 0
    ensures attrs_end_k(data, p, k) >= p
    decreases k
{
    if k > 0 { lemma_attrs_end_nonneg(data, p, (k - 1) as nat); }
}
''')
    p0 = 'old(reader).pos()'
    d0 = 'old(reader).data()'
    cnt = f'val16({d0}.subrange({p0}, {p0} + 2))'
    u.fn(R, 'skip_attributes', ret='res', canary=canary, props=props,
         requires=[f'0 <= {p0}', f'{d0}.len() <= i64::MAX'],
         rewrites=[(r'for _ in 0\.\.attributes_count', 'for _i in iter: 0..attributes_count')],
         loops={0: dict(invariant=[
             C('C17.skip_attributes.inv.position', f'reader.pos() == attrs_end_k({d0}, {p0} + 2, iter.index@ as nat)'),
             C('C17.skip_attributes.inv.data', f'reader.data() == {d0}'),
             C('C17.skip_attributes.inv.headers', f'attrs_headers_ok({d0}, {p0} + 2, iter.index@ as nat)'),
             C('C17.skip_attributes.inv.misc', f'0 <= {p0} && {p0} + 2 <= {d0}.len() && attributes_count as int == {cnt} && {d0}.len() <= i64::MAX'),
         ])},
         proof_before=[(r'^\s*Ok\(\(\)\)', f'    proof {{ lemma_attrs_end_nonneg({d0}, {p0} + 2, {cnt} as nat); }}'), (r'let _attribute_name_index', f'        proof {{ lemma_attrs_end_nonneg({d0}, {p0} + 2, iter.index@ as nat); }}')],
         ensures=[
             C('C17.skip_attributes.consumes-exactly-the-table', f'res.is_ok() ==> final(reader).pos() == attrs_end_k({d0}, {p0} + 2, {cnt} as nat)'),
             C('C17.skip_attributes.moves-forward', f'res.is_ok() ==> final(reader).pos() >= {p0} + 2'),
             C('C17.skip_attributes.data-untouched', f'final(reader).data() == {d0}'),
             C('C17.skip_attributes.ok-iff-headers-present', f'res.is_ok() <==> ({p0} + 2 <= {d0}.len() && attrs_headers_ok({d0}, {p0} + 2, {cnt} as nat))'),
         ])
