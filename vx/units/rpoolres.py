"""rpoolres -- resolution of constant-pool entries by the reader (duke/src/class_reader/pool.rs `impl PoolEntry` as_* converters and the
`PoolRead::get_*` accessors built on them).

C01: "every instruction with its resolved operands ... constant handles ..." / JVMS 4.4: an index names an entry of the kind the JVMS
prescribes, and the value delivered is built from exactly the entries that entry points to: CONSTANT_Class -> the Utf8 at name_index;
CONSTANT_String -> the Utf8 at string_index; CONSTANT_Fieldref / Methodref / InterfaceMethodref -> the Class at class_index and the
NameAndType at name_and_type_index (whose name_index and descriptor_index are Utf8 entries); CONSTANT_MethodHandle -> per reference_kind
(JVMS 4.4.8: 1-4 a Fieldref, 5 and 8 a Methodref, 6 and 7 a Methodref or InterfaceMethodref, 9 an InterfaceMethodref); CONSTANT_MethodType,
Package, Module -> the Utf8 at their index; loadable entries and ConstantValue entries by kind.  A converter answers Ok exactly when the entry
has the prescribed kind and everything it points to resolves; otherwise Err (never a panic).

The string newtypes are opaque; `X::try_from(JavaString)` is an opaque partial function sp_X of the string.  as_dynamic / as_invoke_dynamic
(recursion through bootstrap arguments without a measure) are outside: assumed contracts, listed as trusted.  The closures
`.and_then(|(name, desc)| ..)` of get_field_name_and_type / get_method_name_and_type are desugared to a match (the meaning of Result::and_then)."""
from vx.unit import C
from vx.units._cread import add_classread
from vx.units import rpool as RP

PROPS = ['C01']
P = 'duke/src/class_reader/pool.rs'
CC = 'duke/src/class_constants.rs'
T = 'duke/src/tree/'
RLIMIT = 60

NEWTYPES = ['ClassName', 'ObjClassName', 'PackageName', 'ModuleName', 'FieldName', 'FieldDescriptor', 'MethodName', 'MethodDescriptor']

STUBS = r'''
// TRUSTED: string newtypes are opaque; X::try_from(JavaString) is an opaque partial function sp_X of the string (validity predicates: unit desc / E3 names); f32::from_bits / f64::from_bits are opaque total functions of the bits
impl Clone for VJavaString { #[verifier::external_body] fn clone(&self) -> (r: Self) ensures r == *self { VJavaString { raw: self.raw.clone() } } }
// `Result<&JavaString>::cloned()` (no vstd specification): restated as a function, verified
pub fn res_cloned(r: Result<&VJavaString, VErr>) -> (o: Result<VJavaString, VErr>)
    ensures r is Ok <==> o is Ok, r matches Ok(v) ==> o == Ok::<VJavaString, VErr>(*v),
{ match r { Ok(v) => Ok(v.clone()), Err(e) => Err(e) } }
pub uninterp spec fn sp_f32(bits: u32) -> f32;
pub uninterp spec fn sp_f64(bits: u64) -> f64;
#[verifier::external_body] pub fn f32_from_bits(bits: u32) -> (r: f32) ensures r == sp_f32(bits) { f32::from_bits(bits) }
#[verifier::external_body] pub fn f64_from_bits(bits: u64) -> (r: f64) ensures r == sp_f64(bits) { f64::from_bits(bits) }
pub struct BootstrapMethodRead { pub handle: Handle, pub arguments: Vec<u16> }
#[verifier::external_body] pub struct ConstantDynamic { _p: () }
#[verifier::external_body] pub struct InvokeDynamic { _p: () }

// ---- the entries an index resolves to (specification; JVMS 4.4.x) ----
pub open spec fn ent(p: PoolRead, i: u16) -> Option<PoolEntry> { if (i as int) < p.inner@.len() { p.inner@[i as int] } else { None } }
pub open spec fn r_utf8(p: PoolRead, i: u16) -> Option<VJavaString> { match ent(p, i) { Some(PoolEntry::Utf8 { string }) => Some(string), _ => None } }
pub open spec fn r_class(p: PoolRead, i: u16) -> Option<ClassName> {
    match ent(p, i) { Some(PoolEntry::Class { name_index }) => (match r_utf8(p, name_index) { Some(s) => sp_ClassName(s), None => None }), _ => None }
}
pub open spec fn r_obj_class(p: PoolRead, i: u16) -> Option<ObjClassName> {
    match ent(p, i) { Some(PoolEntry::Class { name_index }) => (match r_utf8(p, name_index) { Some(s) => sp_ObjClassName(s), None => None }), _ => None }
}
pub open spec fn r_nat(p: PoolRead, i: u16) -> Option<(VJavaString, VJavaString)> {
    match ent(p, i) {
        Some(PoolEntry::NameAndType { name_index, descriptor_index }) => (match (r_utf8(p, name_index), r_utf8(p, descriptor_index)) { (Some(n), Some(d)) => Some((n, d)), _ => None }),
        _ => None,
    }
}
pub open spec fn r_field_nat(p: PoolRead, i: u16) -> Option<FieldNameAndDesc> {
    match r_nat(p, i) { Some((n, d)) => (match (sp_FieldName(n), sp_FieldDescriptor(d)) { (Some(name), Some(desc)) => Some(FieldNameAndDesc { name, desc }), _ => None }), None => None }
}
pub open spec fn r_method_nat(p: PoolRead, i: u16) -> Option<MethodNameAndDesc> {
    match r_nat(p, i) { Some((n, d)) => (match (sp_MethodName(n), sp_MethodDescriptor(d)) { (Some(name), Some(desc)) => Some(MethodNameAndDesc { name, desc }), _ => None }), None => None }
}
pub open spec fn mk_field_ref(c: Option<ObjClassName>, k: Option<FieldNameAndDesc>) -> Option<FieldRef> {
    match (c, k) { (Some(class), Some(k)) => Some(FieldRef { class, name: k.name, desc: k.desc }), _ => None }
}
pub open spec fn mk_method_ref(c: Option<ClassName>, k: Option<MethodNameAndDesc>) -> Option<MethodRef> {
    match (c, k) { (Some(class), Some(k)) => Some(MethodRef { class, name: k.name, desc: k.desc }), _ => None }
}
pub open spec fn r_field_ref(p: PoolRead, i: u16) -> Option<FieldRef> {
    match ent(p, i) { Some(PoolEntry::FieldRef { class_index, name_and_type_index }) => mk_field_ref(r_obj_class(p, class_index), r_field_nat(p, name_and_type_index)), _ => None }
}
pub open spec fn r_method_ref(p: PoolRead, i: u16) -> Option<MethodRef> {
    match ent(p, i) { Some(PoolEntry::MethodRef { class_index, name_and_type_index }) => mk_method_ref(r_class(p, class_index), r_method_nat(p, name_and_type_index)), _ => None }
}
pub open spec fn r_imethod_ref(p: PoolRead, i: u16) -> Option<MethodRef> {
    match ent(p, i) { Some(PoolEntry::InterfaceMethodRef { class_index, name_and_type_index }) => mk_method_ref(r_class(p, class_index), r_method_nat(p, name_and_type_index)), _ => None }
}
pub open spec fn r_either_ref(p: PoolRead, i: u16) -> Option<(MethodRef, bool)> {
    match ent(p, i) {
        Some(PoolEntry::MethodRef { .. }) => (match r_method_ref(p, i) { Some(m) => Some((m, false)), None => None }),
        Some(PoolEntry::InterfaceMethodRef { .. }) => (match r_imethod_ref(p, i) { Some(m) => Some((m, true)), None => None }),
        _ => None,
    }
}
// JVMS 4.4.8, table 5.4.3.5-A
pub open spec fn r_handle(p: PoolRead, i: u16) -> Option<Handle> {
    match ent(p, i) {
        Some(PoolEntry::MethodHandle { reference_kind, reference_index }) => {
            let k = reference_kind; let x = reference_index;
            if k == 1 { match r_field_ref(p, x) { Some(f) => Some(Handle::GetField(f)), None => None } }
            else if k == 2 { match r_field_ref(p, x) { Some(f) => Some(Handle::GetStatic(f)), None => None } }
            else if k == 3 { match r_field_ref(p, x) { Some(f) => Some(Handle::PutField(f)), None => None } }
            else if k == 4 { match r_field_ref(p, x) { Some(f) => Some(Handle::PutStatic(f)), None => None } }
            else if k == 5 { match r_method_ref(p, x) { Some(m) => Some(Handle::InvokeVirtual(m)), None => None } }
            else if k == 6 { match r_either_ref(p, x) { Some(m) => Some(Handle::InvokeStatic(m.0, m.1)), None => None } }
            else if k == 7 { match r_either_ref(p, x) { Some(m) => Some(Handle::InvokeSpecial(m.0, m.1)), None => None } }
            else if k == 8 { match r_method_ref(p, x) { Some(m) => Some(Handle::NewInvokeSpecial(m)), None => None } }
            else if k == 9 { match r_imethod_ref(p, x) { Some(m) => Some(Handle::InvokeInterface(m)), None => None } }
            else { None }
        },
        _ => None,
    }
}
pub open spec fn r_string(p: PoolRead, i: u16) -> Option<VJavaString> { match ent(p, i) { Some(PoolEntry::String { string_index }) => r_utf8(p, string_index), _ => None } }
pub open spec fn r_method_type(p: PoolRead, i: u16) -> Option<MethodDescriptor> {
    match ent(p, i) { Some(PoolEntry::MethodType { descriptor_index }) => (match r_utf8(p, descriptor_index) { Some(s) => sp_MethodDescriptor(s), None => None }), _ => None }
}
pub open spec fn r_package(p: PoolRead, i: u16) -> Option<PackageName> {
    match ent(p, i) { Some(PoolEntry::Package { name_index }) => (match r_utf8(p, name_index) { Some(s) => sp_PackageName(s), None => None }), _ => None }
}
pub open spec fn r_module(p: PoolRead, i: u16) -> Option<ModuleName> {
    match ent(p, i) { Some(PoolEntry::Module { name_index }) => (match r_utf8(p, name_index) { Some(s) => sp_ModuleName(s), None => None }), _ => None }
}
pub open spec fn r_constant_value(p: PoolRead, i: u16) -> Option<ConstantValue> {
    match ent(p, i) {
        Some(PoolEntry::Integer { bytes }) => Some(ConstantValue::Integer(bytes)),
        Some(PoolEntry::Float { bytes }) => Some(ConstantValue::Float(sp_f32(bytes))),
        Some(PoolEntry::Long { bytes }) => Some(ConstantValue::Long(bytes)),
        Some(PoolEntry::Double { bytes }) => Some(ConstantValue::Double(sp_f64(bytes))),
        Some(PoolEntry::String { .. }) => (match r_string(p, i) { Some(s) => Some(ConstantValue::String(s)), None => None }),
        _ => None,
    }
}
pub uninterp spec fn sp_dynamic(p: PoolRead, e: PoolEntry, b: Option<Vec<BootstrapMethodRead>>) -> Option<ConstantDynamic>;
pub open spec fn r_loadable(p: PoolRead, i: u16, b: Option<Vec<BootstrapMethodRead>>) -> Option<Loadable> {
    match ent(p, i) {
        Some(PoolEntry::Integer { bytes }) => Some(Loadable::Integer(bytes)),
        Some(PoolEntry::Float { bytes }) => Some(Loadable::Float(sp_f32(bytes))),
        Some(PoolEntry::Long { bytes }) => Some(Loadable::Long(bytes)),
        Some(PoolEntry::Double { bytes }) => Some(Loadable::Double(sp_f64(bytes))),
        Some(PoolEntry::Class { .. }) => (match r_class(p, i) { Some(c) => Some(Loadable::Class(c)), None => None }),
        Some(PoolEntry::String { .. }) => (match r_string(p, i) { Some(s) => Some(Loadable::String(s)), None => None }),
        Some(PoolEntry::MethodHandle { .. }) => (match r_handle(p, i) { Some(h) => Some(Loadable::MethodHandle(h)), None => None }),
        Some(PoolEntry::MethodType { .. }) => (match r_method_type(p, i) { Some(d) => Some(Loadable::MethodType(d)), None => None }),
        Some(e) => (if e is Dynamic { match sp_dynamic(p, e, b) { Some(d) => Some(Loadable::Dynamic(d)), None => None } } else { None }),
        None => None,
    }
}
'''


def newtype(n):
    return (f'#[verifier::external_body] pub struct {n} {{ _p: () }}\n'
            f'pub uninterp spec fn sp_{n}(s: VJavaString) -> Option<{n}>;\n'
            f'impl {n} {{ #[verifier::external_body] pub fn try_from(s: VJavaString) -> (res: Result<Self, VErr>) ensures res.is_ok() <==> sp_{n}(s) is Some, res matches Ok(v) ==> Some(v) == sp_{n}(s) {{ unimplemented!() }} }}\n')


def iff(spec):
    """Ok exactly when the specification resolves, and then to that value"""
    return [f'res.is_ok() <==> {spec} is Some', f'res matches Ok(v) ==> Some(v) == {spec}']


def build(u):
    u.preamble('common.rs')
    u.preamble('bytes.rs')
    u.item(CC, 'mod', 'pool')
    u.raw('use crate::pool::method_handle_reference;\n')
    u.raw('pub struct VJavaString { pub raw: Vec<u8> }\npub type JavaString = VJavaString;\n')
    u.item(P, 'enum', 'PoolEntry', derives=[], rewrites=[(r'\bJavaString\b', 'VJavaString')])
    u.item(P, 'struct', 'PoolRead')
    u.raw(''.join(newtype(n) for n in NEWTYPES))
    jv = [(r'\bJavaString\b', 'VJavaString')]
    for f, kind, n in ((T + 'field.rs', 'struct', 'FieldRef'), (T + 'field.rs', 'struct', 'FieldNameAndDesc'), (T + 'method.rs', 'struct', 'MethodRef'), (T + 'method.rs', 'struct', 'MethodNameAndDesc'),
                       (T + 'method/code.rs', 'enum', 'Handle')):
        u.item(f, kind, n, derives=[])
    u.item(T + 'field.rs', 'enum', 'ConstantValue', derives=[], rewrites=jv)
    u.item(T + 'method/code.rs', 'enum', 'Loadable', derives=[], rewrites=jv)
    u.raw(STUBS)
    u.drop('JavaString -> VJavaString (opaque stand-in that remembers the raw bytes); string newtypes opaque with try_from as an opaque partial function')
    u.fn(T + 'field.rs', 'FieldNameAndDesc::with_class', ret='r', props=[], ensures=[C('ctx.field.with_class', 'r.class == class && r.name == self.name && r.desc == self.desc')])
    u.fn(T + 'method.rs', 'MethodNameAndDesc::with_class', ret='r', props=[], ensures=[C('ctx.method.with_class', 'r.class == class && r.name == self.name && r.desc == self.desc')])

    strip = [(r'\.pool_context\(index\)', '')]
    tryinto = [(r'\bs\.try_into\(\)', '{T}::try_from(s)')]

    def cl(name, clauses):
        return [C(f'C01.resolve.{name}.{k}', t) for k, t in zip(('ok-iff-the-chain-of-entries-has-the-jvms-kinds', 'value-is-built-from-exactly-those-entries'), clauses)]

    # ---- PoolRead accessors first (callees of the converters): get / get_utf8 / get_utf8_ref
    u.fn(P, 'PoolRead::get', ret='res', props=[],
         ensures=[C('ctx.pool.get.ok-iff', 'res.is_ok() <==> ent(*self, index) is Some'), C('ctx.pool.get.exact', 'res matches Ok(e) ==> ent(*self, index) == Some(*e)')])
    u.fn(P, 'PoolEntry::as_utf8', ret='res', canary=True,
         ensures=[C('C01.resolve.as_utf8.ok-iff-kind', 'res.is_ok() <==> self is Utf8'), C('C01.resolve.as_utf8.value', 'res matches Ok(s) ==> *self == (PoolEntry::Utf8 { string: *s })')])
    u.fn(P, 'PoolRead::get_utf8_ref', ret='res', rewrites=strip,
         ensures=[C('C01.resolve.get_utf8_ref.ok-iff', 'res.is_ok() <==> r_utf8(*self, index) is Some'), C('C01.resolve.get_utf8_ref.value', 'res matches Ok(s) ==> Some(*s) == r_utf8(*self, index)')])
    u.fn(P, 'PoolRead::get_utf8', ret='res', rewrites=strip + [(r'(self\.get\(index\)\?\.as_utf8\(\))\.cloned\(\)', r'res_cloned(\1)')], ensures=cl('get_utf8', iff('r_utf8(*self, index)')))
    # the two name-and-type accessors use closures (`.and_then(|(name, desc)| ..)`): assumed

    # ---- converters + their accessors, in dependency order
    def conv(name, spec_of_self, getter=None, gspec=None, ty=None, extra=()):
        rw = [(a, b.replace('{T}', ty)) for a, b in tryinto] if ty else []
        nat = [C('C01.resolve.as_name_and_type.ok-iff-kind-and-both-utf8', 'res.is_ok() <==> (*self matches PoolEntry::NameAndType { name_index, descriptor_index } && r_utf8(*pool, name_index) is Some && r_utf8(*pool, descriptor_index) is Some)'),
               C('C01.resolve.as_name_and_type.value', 'res matches Ok(v) ==> (*self matches PoolEntry::NameAndType { name_index, descriptor_index } && Some(*v.0) == r_utf8(*pool, name_index) && Some(*v.1) == r_utf8(*pool, descriptor_index))')]
        u.fn(P, f'PoolEntry::{name}', ret='res', opt_rewrites=rw + list(extra), requires=['ent(*pool, ix_) == Some(*self)'] if spec_of_self else [],
             sig_rewrites=[(r'\(&self, pool: &PoolRead\)', '(&self, pool: &PoolRead, Ghost(ix_): Ghost<u16>)')] if spec_of_self else [],
             ensures=cl(name, iff(spec_of_self.format(p='*pool', i='ix_'))) if spec_of_self else (nat if name == 'as_name_and_type' else []))
        if getter:
            u.fn(P, f'PoolRead::{getter}', ret='res', rewrites=strip + [(rf'\.{name}\(self\)', f'.{name}(self, Ghost(index))')], ensures=cl(getter, iff(gspec)))

    for name, var, fb in (('as_integer', 'Integer', None), ('as_long', 'Long', None), ('as_float', 'Float', 'f32'), ('as_double', 'Double', 'f64')):
        val = 'v' if not fb else f'sp_{fb}(bytes_)'
        u.fn(P, f'PoolEntry::{name}', ret='res', opt_rewrites=[(rf'\b{fb}::from_bits\(', f'{fb}_from_bits(')] if fb else [],
             ensures=[C(f'C01.resolve.{name}.ok-iff-kind', f'res.is_ok() <==> self is {var}'),
                      C(f'C01.resolve.{name}.value', (f'res matches Ok(v) ==> *self == (PoolEntry::{var} {{ bytes: v }})' if not fb else
                                                      f'res matches Ok(v) ==> (*self matches PoolEntry::{var} {{ bytes }} && v == sp_{fb}(bytes))'))])
    conv('as_string', 'r_string({p}, {i})')
    conv('as_class', 'r_class({p}, {i})', 'get_class', 'r_class(*self, index)', ty='ClassName')
    conv('as_obj_class', 'r_obj_class({p}, {i})', 'get_obj_class', 'r_obj_class(*self, index)', ty='ObjClassName')
    conv('as_package', 'r_package({p}, {i})', 'get_package', 'r_package(*self, index)', ty='PackageName')
    conv('as_module', 'r_module({p}, {i})', 'get_module', 'r_module(*self, index)', ty='ModuleName')
    conv('as_name_and_type', None)
    # `X.and_then(|(name, desc)| BODY)` -> `match X { Ok((name, desc)) => BODY, Err(e_) => Err(e_) }` (the meaning of Result::and_then; a `?` inside BODY ends the function with the same Err)
    and_then = [(r'(?s)\{\s*(.*?)\s*\.and_then\(\|\(name, desc\)\| (.*)\)\s*\}\s*$', r'{ match \1 { Ok((name, desc)) => \2, Err(e_) => Err(e_) } }')]
    u.drop('`X.and_then(|(name, desc)| BODY)` -> `match X { Ok((name, desc)) => BODY, Err(e_) => Err(e_) }` (desugaring of Result::and_then)')
    u.fn(P, 'PoolEntry::as_name_and_type_', ret='res') if False else None
    for g, spec in (('get_field_name_and_type', 'r_field_nat(*self, index)'), ('get_method_name_and_type', 'r_method_nat(*self, index)')):
        u.fn(P, f'PoolRead::{g}', ret='res', rewrites=strip + and_then, ensures=cl(g, iff(spec)))
    conv('as_field_ref', 'r_field_ref({p}, {i})', 'get_field_ref', 'r_field_ref(*self, index)')
    conv('as_method_ref', 'r_method_ref({p}, {i})', 'get_method_ref', 'r_method_ref(*self, index)')
    conv('as_interface_method_ref', 'r_imethod_ref({p}, {i})', 'get_interface_method_ref', 'r_imethod_ref(*self, index)')
    conv('as_method_ref_or_interface_method_ref', 'r_either_ref({p}, {i})', 'get_method_ref_or_interface_method_ref', 'r_either_ref(*self, index)')
    conv('as_method_handle', 'r_handle({p}, {i})', 'get_method_handle', 'r_handle(*self, index)')
    conv('as_method_type', 'r_method_type({p}, {i})', extra=[(r'MethodDescriptor::try_from\(pool\.get_utf8\(descriptor_index\)\)', 'MethodDescriptor::try_from(pool.get_utf8(descriptor_index)?)')])
    gh = [(r'self\.(as_\w+)\(pool\)', r'self.\1(pool, Ghost(ix_))')]
    conv('as_constant_value', 'r_constant_value({p}, {i})', 'get_constant_value', 'r_constant_value(*self, index)', extra=gh)
    # as_dynamic recurses through get_loadable without a measure (a bootstrap argument may name its own Dynamic entry): assumed
    u.fn(P, 'PoolEntry::as_dynamic', ret='res', drop_body=True, props=[],
         ensures=[C('assumed.as_dynamic.0', 'res.is_ok() <==> sp_dynamic(*pool, *self, *bootstrap_methods) is Some'), C('assumed.as_dynamic.1', 'res matches Ok(v) ==> Some(v) == sp_dynamic(*pool, *self, *bootstrap_methods)')])
    u.fn(P, 'PoolEntry::as_loadable', ret='res', opt_rewrites=gh, requires=['ent(*pool, ix_) == Some(*self)'],
         sig_rewrites=[(r'\(&self, pool: &PoolRead, ', '(&self, pool: &PoolRead, Ghost(ix_): Ghost<u16>, ')],
         ensures=cl('as_loadable', iff('r_loadable(*pool, ix_, *bootstrap_methods)')))
    u.fn(P, 'PoolRead::get_loadable', ret='res', rewrites=strip + [(r'\.as_loadable\(self, ', '.as_loadable(self, Ghost(index), ')], ensures=cl('get_loadable', iff('r_loadable(*self, index, *bootstrap_methods)')))
    for g, cast in (('get_integer', None), ('get_long', None), ('get_float', None), ('get_double', None)):
        pass
