"""aaccept -- replay of annotations from the tree to a visitor (duke/src/tree/annotation.rs): Annotation::accept,
accept_element_values_named, accept_element_values_unnamed, ElementValue::accept (mutually recursive).

C17: "... replaying visitors observe the same facts as a full read": the visitor is told exactly the element values the tree holds, in order
and nested as stored -- `ev_of(value)`, the abstraction of the tree value to what a visitor is told (the same EvV values unit rannot proves
the reader delivers).  Termination by structural recursion on the tree.  The generic visitor parameter is instantiated at the recording
visitors of unit rannot (Verus rejects the cyclic associated-type bounds of the real traits; parametricity is the stated assumption)."""
from vx.unit import C
from vx.units import rannot as RA

PROPS = ['C17']
A = 'duke/src/tree/annotation.rs'

OF = r'''
// what a visitor is told about a stored value
pub open spec fn ev_of(v: ElementValue) -> EvV decreases v, 0int {
    match v {
        ElementValue::Object(o) => EvV::Const(o),
        ElementValue::Enum { type_name, const_name } => EvV::Enum(type_name, const_name),
        ElementValue::Class(c) => EvV::Class(c),
        ElementValue::AnnotationInterface(a) => EvV::Annotation(a.annotation_type, pairs_of(a.element_value_pairs@, a.element_value_pairs@.len() as int)),
        ElementValue::ArrayType(vs) => EvV::Array(vals_of(vs@, vs@.len() as int)),
    }
}
pub open spec fn pairs_of(ps: Seq<ElementValuePair>, k: int) -> Pairs decreases ps, k {
    if 0 < k <= ps.len() { pairs_of(ps, k - 1).push((ps[k - 1].name, ev_of(ps[k - 1].value))) } else { Seq::empty() }
}
pub open spec fn vals_of(vs: Seq<ElementValue>, k: int) -> Seq<EvV> decreases vs, k {
    if 0 < k <= vs.len() { vals_of(vs, k - 1).push(ev_of(vs[k - 1])) } else { Seq::empty() }
}
'''


def build(u):
    u.preamble('common.rs')
    st = RA.STUBS
    u.raw(st[:st.index('impl PoolRead {')] + st[st.index('impl FieldDescriptor {'):st.index('pub open spec fn u8_at')])
    u.item('duke/src/tree/annotation.rs', 'enum', 'Object', derives=[])
    u.item(A, 'struct', 'Annotation', derives=[])
    u.item(A, 'struct', 'ElementValuePair', derives=[])
    u.item(A, 'enum', 'ElementValue', derives=[])
    sp = RA.SPEC
    # the value type, the recording visitors and the annotation-level visitor; not the byte-level relations
    keep = sp[:sp.index('// encoded sizes')] + sp[sp.index('// ---- recording visitors'):sp.index('// JVMS 4.7.16 annotation')] \
        + 'pub type Annots = Seq<(FieldDescriptor, Pairs)>;\n' + sp[sp.index('pub struct AV {'):sp.index('// ---- JVMS 4.7.20 type_annotation')]
    u.raw(keep)
    u.raw(OF)
    u.drop('generic visitor parameter instantiated at the recording visitors NV / UV / AV (signature and `A::` / `AnnotationsVisitor::` paths rewritten; bodies unchanged)')
    u.fn(A, 'accept_element_values_named', ret='res', canary=True,
         sig_rewrites=[(r'fn accept_element_values_named<A: NamedElementValuesVisitor>\(mut outer: A,', 'fn accept_element_values_named(mut outer: NV,'), (r'-> Result<A', '-> Result<NV')],
         rewrites=[(r'for pair in pairs', 'for pair in iter: pairs'), (r'\bA::finish_', 'NV::finish_')],
         decreases='pairs', head_proof='let ghost l0 = outer.log@;',
         loops={0: dict(invariant=[C('C17.annot.replay.named.inv', 'outer.log@ == l0 + pairs_of(pairs@, iter.index@ as int)')],
                        body_start='let ghost pr = pair; let ghost lg = outer.log@; proof { assert(pr == pairs@[iter.index@ as int]); }',
                        body_end='proof { let k = iter.index@ as int; match pairs@[k].value { '
                                 'ElementValue::AnnotationInterface(a) => { let ps = pairs_of(a.element_value_pairs@, a.element_value_pairs@.len() as int); assert(Seq::<(JavaString, EvV)>::empty() + ps =~= ps); }, '
                                 'ElementValue::ArrayType(vs) => { let xs = vals_of(vs@, vs@.len() as int); assert(Seq::<EvV>::empty() + xs =~= xs); }, _ => {} } '
                                 'assert(pairs_of(pairs@, k + 1) == pairs_of(pairs@, k).push((pairs@[k].name, ev_of(pairs@[k].value)))); assert(outer.log@ == lg.push((pr.name, ev_of(pr.value)))); '
                                 'assert(outer.log@ =~= l0 + pairs_of(pairs@, k + 1)); }')},
         ensures=[C('C17.annot.replay.named.visitor-is-told-exactly-the-stored-pairs-in-order', 'res matches Ok(o) ==> o.log@ == outer.log@ + pairs_of(pairs@, pairs@.len() as int)')])
    u.fn(A, 'accept_element_values_unnamed', ret='res',
         sig_rewrites=[(r'fn accept_element_values_unnamed<A: UnnamedElementValuesVisitor>\(mut outer: A,', 'fn accept_element_values_unnamed(mut outer: UV,'), (r'-> Result<A', '-> Result<UV')],
         rewrites=[(r'for value in element_values', 'for value in iter: element_values')],
         decreases='element_values', head_proof='let ghost l0 = outer.log@;',
         loops={0: dict(invariant=[C('C17.annot.replay.unnamed.inv', 'outer.log@ == l0 + vals_of(element_values@, iter.index@ as int)')],
                        body_end='proof { let k = iter.index@ as int; assert(outer.log@ =~= l0 + vals_of(element_values@, k + 1)); }')},
         ensures=[C('C17.annot.replay.unnamed.visitor-is-told-exactly-the-stored-values-in-order', 'res matches Ok(o) ==> o.log@ == outer.log@ + vals_of(element_values@, element_values@.len() as int)')])
    u.fn(A, 'ElementValue::accept', ret='res',
         sig_rewrites=[(r'fn accept<A: UnnamedElementValueVisitor>\(self, mut outer: A\)', 'fn accept(self, mut outer: UV)'), (r'-> Result<A', '-> Result<UV')],
         rewrites=[(r'\bA::finish_', 'UV::finish_')], decreases='self', head_proof='let ghost me = self;',
         proof_before=[(r'^\s*Ok\(outer\)\s*$', '        proof { match me { ElementValue::AnnotationInterface(a) => { assert(Seq::<(JavaString, EvV)>::empty() + pairs_of(a.element_value_pairs@, a.element_value_pairs@.len() as int) =~= pairs_of(a.element_value_pairs@, a.element_value_pairs@.len() as int)); }, '
                        'ElementValue::ArrayType(vs) => { assert(Seq::<EvV>::empty() + vals_of(vs@, vs@.len() as int) =~= vals_of(vs@, vs@.len() as int)); }, _ => {} } }')],
         ensures=[C('C17.annot.replay.value.visitor-is-told-exactly-the-stored-value', 'res matches Ok(o) ==> o.log@ == outer.log@.push(ev_of(self))')])
    u.fn(A, 'Annotation::accept', ret='res',
         sig_rewrites=[(r'fn accept<A: AnnotationsVisitor>\(self, visitor: A\)', 'fn accept(self, visitor: AV)'), (r'-> Result<A', '-> Result<AV')],
         rewrites=[(r'\bAnnotationsVisitor::finish_annotation', 'AV::finish_annotation')], head_proof='let ghost me = self;',
         proof_before=[(r'AV::finish_annotation', '        proof { let ps = pairs_of(me.element_value_pairs@, me.element_value_pairs@.len() as int); assert(Seq::<(JavaString, EvV)>::empty() + ps =~= ps); }')],
         ensures=[C('C17.annot.replay.annotation.visitor-is-told-the-type-and-exactly-the-stored-pairs',
                    'res matches Ok(o) ==> o.log@ == visitor.log@.push((self.annotation_type, pairs_of(self.element_value_pairs@, self.element_value_pairs@.len() as int)))')])

    # ---- TypeAnnotation::accept (duke/src/tree/type_annotation.rs)
    u.raw('''
#[verifier::external_body] pub struct TypePath { _p: () }
pub type TAnnots<T> = Seq<(T, TypePath, FieldDescriptor, Pairs)>;
pub struct TV<T> { pub log: Ghost<TAnnots<T>> }
pub struct TVRes<T> { pub log: Ghost<TAnnots<T>>, pub target: Ghost<T>, pub path: Ghost<TypePath>, pub ty: Ghost<FieldDescriptor> }
impl<T> TV<T> {
    #[verifier::external_body] pub fn visit_type_annotation(self, type_reference: T, type_path: TypePath, annotation_descriptor: FieldDescriptor) -> (res: Result<(TVRes<T>, NV), VErr>)
        ensures res matches Ok(p) ==> p.0.log@ == self.log@ && p.0.target@ == type_reference && p.0.path@ == type_path && p.0.ty@ == annotation_descriptor && p.1.log@ == Seq::<(JavaString, EvV)>::empty() { unimplemented!() }
    #[verifier::external_body] pub fn finish_type_annotation(this: TVRes<T>, named_element_values_visitor: NV) -> (res: Result<TV<T>, VErr>)
        ensures res matches Ok(r) ==> r.log@ == this.log@.push((this.target@, this.path@, this.ty@, named_element_values_visitor.log@)) { unimplemented!() }
}
''')
    TA = 'duke/src/tree/type_annotation.rs'
    u.item(TA, 'struct', 'TypeAnnotation', derives=[])
    u.fn(TA, 'TypeAnnotation::accept', impl=r'TypeAnnotation<T>', impl_header='impl<T> TypeAnnotation<T>', ret='res',
         sig_rewrites=[(r'fn accept<A: TypeAnnotationsVisitor<T>>\(self, visitor: A\)', 'fn accept(self, visitor: TV<T>)'), (r'-> Result<A', '-> Result<TV<T>')],
         rewrites=[(r'\bTypeAnnotationsVisitor::finish_type_annotation', 'TV::finish_type_annotation'), (r'super::annotation::accept_element_values_named', 'accept_element_values_named')],
         head_proof='let ghost me = self;',
         proof_before=[(r'TV::finish_type_annotation', '        proof { let ps = pairs_of(me.annotation.element_value_pairs@, me.annotation.element_value_pairs@.len() as int); assert(Seq::<(JavaString, EvV)>::empty() + ps =~= ps); }')],
         ensures=[C('C17.annot.replay.type-annotation.visitor-is-told-target-path-type-and-exactly-the-stored-pairs',
                    'res matches Ok(o) ==> o.log@ == visitor.log@.push((self.type_reference, self.type_path, self.annotation.annotation_type, pairs_of(self.annotation.element_value_pairs@, self.annotation.element_value_pairs@.len() as int)))')])
