"""aaccept -- replay of annotations from the tree to a visitor (duke/src/tree/annotation.rs): Annotation::accept,
accept_element_values_named, accept_element_values_unnamed, ElementValue::accept (mutually recursive).

C17: "... replaying visitors observe the same facts as a full read": the visitor is told exactly the element values the tree holds, in order
and nested as stored -- `ev_of(value)`, the abstraction of the tree value to what a visitor is told (the same EvV values unit rannot proves
the reader delivers).  Termination by structural recursion on the tree.  The generic visitor parameter is instantiated at the recording
visitors of unit rannot (Verus rejects the cyclic associated-type bounds of the real traits; parametricity is the stated assumption)."""
from vx.unit import C
from vx.units import rannot as RA

PROPS = ['C17']
A = 'duke/src/tree/annotation.rs'

OF = r'''
// what a visitor is told about a stored value
pub open spec fn ev_of(v: ElementValue) -> EvV decreases v, 0int {
    match v {
        ElementValue::Object(o) => EvV::Const(o),
        ElementValue::Enum { type_name, const_name } => EvV::Enum(type_name, const_name),
        ElementValue::Class(c) => EvV::Class(c),
        ElementValue::AnnotationInterface(a) => EvV::Annotation(a.annotation_type, pairs_of(a.element_value_pairs@, a.element_value_pairs@.len() as int)),
        ElementValue::ArrayType(vs) => EvV::Array(vals_of(vs@, vs@.len() as int)),
    }
}
pub open spec fn pairs_of(ps: Seq<ElementValuePair>, k: int) -> Pairs decreases ps, k {
    if 0 < k <= ps.len() { pairs_of(ps, k - 1).push((ps[k - 1].name, ev_of(ps[k - 1].value))) } else { Seq::empty() }
}
pub open spec fn vals_of(vs: Seq<ElementValue>, k: int) -> Seq<EvV> decreases vs, k {
    if 0 < k <= vs.len() { vals_of(vs, k - 1).push(ev_of(vs[k - 1])) } else { Seq::empty() }
}
'''


def build(u):
    u.preamble('common.rs')
    st = RA.STUBS
    u.raw(st[:st.index('impl PoolRead {')] + st[st.index('impl FieldDescriptor {'):st.index('pub open spec fn u8_at')])
    u.item('duke/src/tree/annotation.rs', 'enum', 'Object', derives=[])
    u.item(A, 'struct', 'Annotation', derives=[])
    u.item(A, 'struct', 'ElementValuePair', derives=[])
    u.item(A, 'enum', 'ElementValue', derives=[])
    sp = RA.SPEC
    # the value type, the recording visitors and the annotation-level visitor; not the byte-level relations
    keep = sp[:sp.index('// encoded sizes')] + sp[sp.index('// ---- recording visitors'):sp.index('// JVMS 4.7.16 annotation')] \
        + 'pub type Annots = Seq<(FieldDescriptor, Pairs)>;\n' + sp[sp.index('pub struct AV {'):sp.index('// the suffix a visitor received')]
    u.raw(keep)
    u.raw(OF)
    u.drop('generic visitor parameter instantiated at the recording visitors NV / UV / AV (signature and `A::` / `AnnotationsVisitor::` paths rewritten; bodies unchanged)')
    u.fn(A, 'accept_element_values_named', ret='res', canary=True,
         sig_rewrites=[(r'fn accept_element_values_named<A: NamedElementValuesVisitor>\(mut outer: A,', 'fn accept_element_values_named(mut outer: NV,'), (r'-> Result<A', '-> Result<NV')],
         rewrites=[(r'for pair in pairs', 'for pair in iter: pairs'), (r'\bA::finish_', 'NV::finish_')],
         decreases='pairs', head_proof='let ghost l0 = outer.log@;',
         loops={0: dict(invariant=[C('C17.annot.replay.named.inv', 'outer.log@ == l0 + pairs_of(pairs@, iter.index@ as int)')],
                        body_start='let ghost pr = pair; let ghost lg = outer.log@; proof { assert(pr == pairs@[iter.index@ as int]); }',
                        body_end='proof { let k = iter.index@ as int; match pairs@[k].value { '
                                 'ElementValue::AnnotationInterface(a) => { let ps = pairs_of(a.element_value_pairs@, a.element_value_pairs@.len() as int); assert(Seq::<(JavaString, EvV)>::empty() + ps =~= ps); }, '
                                 'ElementValue::ArrayType(vs) => { let xs = vals_of(vs@, vs@.len() as int); assert(Seq::<EvV>::empty() + xs =~= xs); }, _ => {} } '
                                 'assert(pairs_of(pairs@, k + 1) == pairs_of(pairs@, k).push((pairs@[k].name, ev_of(pairs@[k].value)))); assert(outer.log@ == lg.push((pr.name, ev_of(pr.value)))); '
                                 'assert(outer.log@ =~= l0 + pairs_of(pairs@, k + 1)); }')},
         ensures=[C('C17.annot.replay.named.visitor-is-told-exactly-the-stored-pairs-in-order', 'res matches Ok(o) ==> o.log@ == outer.log@ + pairs_of(pairs@, pairs@.len() as int)')])
    u.fn(A, 'accept_element_values_unnamed', ret='res',
         sig_rewrites=[(r'fn accept_element_values_unnamed<A: UnnamedElementValuesVisitor>\(mut outer: A,', 'fn accept_element_values_unnamed(mut outer: UV,'), (r'-> Result<A', '-> Result<UV')],
         rewrites=[(r'for value in element_values', 'for value in iter: element_values')],
         decreases='element_values', head_proof='let ghost l0 = outer.log@;',
         loops={0: dict(invariant=[C('C17.annot.replay.unnamed.inv', 'outer.log@ == l0 + vals_of(element_values@, iter.index@ as int)')],
                        body_end='proof { let k = iter.index@ as int; assert(outer.log@ =~= l0 + vals_of(element_values@, k + 1)); }')},
         ensures=[C('C17.annot.replay.unnamed.visitor-is-told-exactly-the-stored-values-in-order', 'res matches Ok(o) ==> o.log@ == outer.log@ + vals_of(element_values@, element_values@.len() as int)')])
    u.fn(A, 'ElementValue::accept', ret='res',
         sig_rewrites=[(r'fn accept<A: UnnamedElementValueVisitor>\(self, mut outer: A\)', 'fn accept(self, mut outer: UV)'), (r'-> Result<A', '-> Result<UV')],
         rewrites=[(r'\bA::finish_', 'UV::finish_')], decreases='self', head_proof='let ghost me = self;',
         proof_before=[(r'^\s*Ok\(outer\)\s*$', '        proof { match me { ElementValue::AnnotationInterface(a) => { assert(Seq::<(JavaString, EvV)>::empty() + pairs_of(a.element_value_pairs@, a.element_value_pairs@.len() as int) =~= pairs_of(a.element_value_pairs@, a.element_value_pairs@.len() as int)); }, '
                        'ElementValue::ArrayType(vs) => { assert(Seq::<EvV>::empty() + vals_of(vs@, vs@.len() as int) =~= vals_of(vs@, vs@.len() as int)); }, _ => {} } }')],
         ensures=[C('C17.annot.replay.value.visitor-is-told-exactly-the-stored-value', 'res matches Ok(o) ==> o.log@ == outer.log@.push(ev_of(self))')])
    u.fn(A, 'Annotation::accept', ret='res',
         sig_rewrites=[(r'fn accept<A: AnnotationsVisitor>\(self, visitor: A\)', 'fn accept(self, visitor: AV)'), (r'-> Result<A', '-> Result<AV')],
         rewrites=[(r'\bAnnotationsVisitor::finish_annotation', 'AV::finish_annotation')], head_proof='let ghost me = self;',
         proof_before=[(r'AV::finish_annotation', '        proof { let ps = pairs_of(me.element_value_pairs@, me.element_value_pairs@.len() as int); assert(Seq::<(JavaString, EvV)>::empty() + ps =~= ps); }')],
         ensures=[C('C17.annot.replay.annotation.visitor-is-told-the-type-and-exactly-the-stored-pairs',
                    'res matches Ok(o) ==> o.log@ == visitor.log@.push((self.annotation_type, pairs_of(self.element_value_pairs@, self.element_value_pairs@.len() as int)))')])
