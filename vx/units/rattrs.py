"""rattrs -- the attribute loops of the class reader (duke/src/class_reader.rs read_field, read_method, read_record_component, and the
class-level loops of read): what the reader consumes when the visitor is *not* interested.

C17: "whichever classes, fields or methods it declines ... declining an item never disturbs the items after it; a read consumes exactly
the bytes of one class file whatever the visitor skips".  The code-dependent half of that statement is: every path on which the visitor
declined something (interest flag off, ControlFlow::Break, visit_code() == None) consumes exactly the bytes of the declined structure:
`attribute_length` bytes after the 6-byte header for an attribute, the whole `field_info`/`method_info`/`record_component_info`
(header + attribute table) for a member.  That is what is proved here, as labelled ghost assertions inside the real functions:

  * at the end of every iteration of an attribute loop:  declined(name, interests) ==> pos == pos_at_start + 6 + length
    where `declined` is a table written from the *Interests structs and the JVMS attribute names (not from the match);
  * on the Break path: pos == member_end(data, pos_at_entry).

The functions are cut whole.  One mechanical abstraction is applied and stated in the evidence: a match arm whose body reads from
`reader` without calling `reader.skip(..)` (the arm that parses the attribute for an interested visitor) is replaced by a call to
`havoc_reader(reader)?` (position arbitrary afterwards, data kept): what an interested arm consumes is decided by the attribute's
content, not by the reader's skipping logic, and is the subject of C01.  Everything else (guards, skip arms, the Code arm with its
decline path, Break paths, headers) is the text of /repo.  Visitor traits are cut from duke/src/visitor/*.rs (declarations only,
so every visitor call returns an arbitrary result); tree types are opaque."""
import re

from vx.unit import C
from vx.rustcut import CutError, code_mask, match_close
from vx.units._cread import add_classread
from vx.units.rskip import add_skip_attributes

PROPS = ['C17']
RLIMIT = 50
R = 'duke/src/class_reader.rs'
CC = 'duke/src/class_constants.rs'
V = 'duke/src/visitor/'

OPAQUE = ['InnerClass', 'EnclosingMethod', 'ClassSignature', 'Module', 'PackageName', 'ClassName', 'RecordName', 'FieldDescriptor', 'FieldAccess', 'FieldName',
          'MethodAccess', 'MethodName', 'MethodDescriptor', 'ConstantValue', 'FieldSignature', 'MethodSignature', 'MethodParameter',
          'TargetInfoClass', 'TargetInfoField', 'TargetInfoMethod', 'Attribute', 'PoolRead', 'BootstrapMethodRead', 'ObjClassName', 'ClassAccess']

STUBS = r'''
// TRUSTED: opaque stand-ins for duke's tree types (only passed through to the visitor), for java_string::{JavaStr, JavaString} and for std::ops::ControlFlow (same two variants)
pub enum ControlFlow<B, C> { Continue(C), Break(B) }
#[verifier::external_body] pub struct VJavaStr { _p: () }
#[verifier::external_body] pub struct JavaString { _p: () }
// which of the attribute names of class_constants::attribute a string equals (0: none of them); the names are pairwise distinct literals
pub uninterp spec fn attr_of_str(s: &VJavaStr) -> int;
pub uninterp spec fn attr_of(s: &JavaString) -> int;
impl JavaString {
    #[verifier::external_body] pub fn as_java_str(&self) -> (r: &VJavaStr) ensures attr_of_str(r) == attr_of(self) { unimplemented!() }
}
impl Clone for JavaString { #[verifier::external_body] fn clone(&self) -> Self { unimplemented!() } }
// TRUSTED: jstr_is(name, id) stands for `name == attribute::X` (PartialEq of JavaStr): true iff the string is that attribute name
#[verifier::external_body] pub fn jstr_is(s: &VJavaStr, id: u8) -> (b: bool) ensures b == (attr_of_str(s) == id as int) { unimplemented!() }
// TRUSTED: havoc_reader stands for the body of an arm that parses an attribute for an interested visitor: arbitrary non-negative position afterwards, data kept
#[verifier::external_body] pub fn havoc_reader<Rd: ClassRead>(reader: &mut Rd) -> (res: Result<(), VErr>) ensures final(reader).data() == old(reader).data(), final(reader).pos() >= 0 { unimplemented!() }
pub trait AnnotationsVisitor {}
pub trait TypeAnnotationsVisitor<T> {}
pub trait UnnamedElementValueVisitor {}
pub trait CodeVisitor {}
impl PoolRead {
    #[verifier::external_body] pub fn get_utf8(&self, index: u16) -> Result<JavaString, VErr> { unimplemented!() }
    #[verifier::external_body] pub fn get_utf8_ref(&self, index: u16) -> Result<&JavaString, VErr> { unimplemented!() }
}
impl FieldAccess { #[verifier::external_body] pub fn from(v: u16) -> Self { unimplemented!() } }
impl MethodAccess { #[verifier::external_body] pub fn from(v: u16) -> Self { unimplemented!() } }
impl FieldName { #[verifier::external_body] pub fn try_from(s: JavaString) -> Result<Self, VErr> { unimplemented!() } }
impl FieldDescriptor { #[verifier::external_body] pub fn try_from(s: JavaString) -> Result<Self, VErr> { unimplemented!() } }
impl MethodName { #[verifier::external_body] pub fn try_from(s: JavaString) -> Result<Self, VErr> { unimplemented!() } }
impl MethodDescriptor { #[verifier::external_body] pub fn try_from(s: JavaString) -> Result<Self, VErr> { unimplemented!() } }
impl RecordName { #[verifier::external_body] pub fn try_from(s: JavaString) -> Result<Self, VErr> { unimplemented!() } }
impl Clone for MethodName { #[verifier::external_body] fn clone(&self) -> Self { unimplemented!() } }
impl Clone for MethodDescriptor { #[verifier::external_body] fn clone(&self) -> Self { unimplemented!() } }
// TRUSTED: read_code is opaque here (arbitrary position afterwards, data kept); units rscan/rdecode/rframes verify its parts
#[verifier::external_body] pub fn read_code<C: CodeVisitor, Rd: ClassRead>(reader: &mut Rd, code_visitor: C, pool: &PoolRead, bootstrap_methods: &Option<Vec<BootstrapMethodRead>>) -> (res: Result<C, VErr>)
    ensures final(reader).data() == old(reader).data(), final(reader).pos() >= 0 { unimplemented!() }

// ---- the structures a declined item occupies (JVMS 4.5 / 4.6 / 4.7.30): u2 u2 u2 (u2 u2 for a record component) then an attribute table ----
pub open spec fn attrs_end(d: Seq<u8>, p: int) -> int { attrs_end_k(d, p + 2, val16(d.subrange(p, p + 2)) as nat) }
pub open spec fn member_end(d: Seq<u8>, p: int) -> int { attrs_end(d, p + 6) }
pub open spec fn component_end(d: Seq<u8>, p: int) -> int { attrs_end(d, p + 4) }
'''

# the interest flag that governs an attribute name, per visitor level: written from duke/src/visitor/{class,field,method,record}.rs
# (*Interests field docs) and JVMS 4.7 (which attribute may appear where); names not listed are "unknown attributes" at that level.
LEVELS = {
    'class': ('ClassInterests', dict(
        INNER_CLASSES='inner_classes', ENCLOSING_METHOD='enclosing_method', SIGNATURE='signature', SOURCE_FILE='source_file',
        SOURCE_DEBUG_EXTENSION='source_debug_extension', RUNTIME_VISIBLE_ANNOTATIONS='runtime_visible_annotations',
        RUNTIME_INVISIBLE_ANNOTATIONS='runtime_invisible_annotations', RUNTIME_VISIBLE_TYPE_ANNOTATIONS='runtime_visible_type_annotations',
        RUNTIME_INVISIBLE_TYPE_ANNOTATIONS='runtime_invisible_type_annotations', MODULE='module', MODULE_PACKAGES='module_packages',
        MODULE_MAIN_CLASS='module_main_class', NEST_HOST='nest_host', NEST_MEMBERS='nest_members', PERMITTED_SUBCLASSES='permitted_subclasses',
        RECORD='record'), ['DEPRECATED', 'SYNTHETIC', 'BOOTSTRAP_METHODS']),
    'field': ('FieldInterests', dict(
        CONSTANT_VALUE='constant_value', SIGNATURE='signature', RUNTIME_VISIBLE_ANNOTATIONS='runtime_visible_annotations',
        RUNTIME_INVISIBLE_ANNOTATIONS='runtime_invisible_annotations', RUNTIME_VISIBLE_TYPE_ANNOTATIONS='runtime_visible_type_annotations',
        RUNTIME_INVISIBLE_TYPE_ANNOTATIONS='runtime_invisible_type_annotations'), ['DEPRECATED', 'SYNTHETIC']),
    'method': ('MethodInterests', dict(
        CODE='code', EXCEPTIONS='exceptions', SIGNATURE='signature', RUNTIME_VISIBLE_ANNOTATIONS='runtime_visible_annotations',
        RUNTIME_INVISIBLE_ANNOTATIONS='runtime_invisible_annotations', RUNTIME_VISIBLE_TYPE_ANNOTATIONS='runtime_visible_type_annotations',
        RUNTIME_INVISIBLE_TYPE_ANNOTATIONS='runtime_invisible_type_annotations',
        RUNTIME_VISIBLE_PARAMETER_ANNOTATIONS='runtime_visible_parameter_annotations', RUNTIME_INVISIBLE_PARAMETER_ANNOTATIONS='runtime_invisible_parameter_annotations',
        ANNOTATION_DEFAULT='annotation_default', METHOD_PARAMETERS='method_parameters'), ['DEPRECATED', 'SYNTHETIC']),
    'component': ('RecordComponentInterests', dict(
        SIGNATURE='signature', RUNTIME_VISIBLE_ANNOTATIONS='runtime_visible_annotations', RUNTIME_INVISIBLE_ANNOTATIONS='runtime_invisible_annotations',
        RUNTIME_VISIBLE_TYPE_ANNOTATIONS='runtime_visible_type_annotations', RUNTIME_INVISIBLE_TYPE_ANNOTATIONS='runtime_invisible_type_annotations'), []),
}


def attr_ids(u):
    """`pub mod attr_id`: one u8 constant per constant of class_constants::attribute (numbered in source order from 1); the literals must be pairwise distinct"""
    s = u.src(CC)
    it = s.cut_item('mod', 'attribute')
    names = re.findall(r'const\s+([A-Z_0-9]+)\s*:\s*&JavaStr\s*=\s*JavaStr::from_str\("([^"]*)"\)', it['text'])
    if not names:
        raise CutError('class_constants::attribute: no `const X: &JavaStr = JavaStr::from_str("..")` found')
    lits = [l for _, l in names]
    if len(set(lits)) != len(lits):
        raise CutError('class_constants::attribute: attribute name literals are not pairwise distinct')
    u.drop('mod class_constants::attribute -> mod attr_id (one u8 per constant, numbered in source order); `name == attribute::X` -> jstr_is(name, attr_id::X)')
    u.raw('pub mod attr_id {\n' + ''.join(f'    pub const {n}: u8 = {k + 1};   // "{l}"\n' for k, (n, l) in enumerate(names)) + '}\n')
    return [n for n, _ in names]


def declined_spec(level, all_names):
    st, table, always = LEVELS[level]
    for n in list(table) + always:
        if n not in all_names:
            raise CutError(f'class_constants::attribute::{n} not found')
    known = ' || '.join(f'id == attr_id::{n}' for n in list(table) + always)
    rows = ' || '.join(f'(id == attr_id::{n} && !i.{f})' for n, f in table.items())
    return (f'pub open spec fn {level}_attr_known(id: int) -> bool {{ {known} }}\n'
            f'// the visitor at this level declined the attribute: its interest flag is off (names unknown at this level: unknown_attributes off)\n'
            f'pub open spec fn {level}_attr_declined(id: int, i: {st}) -> bool {{ {rows} || (!{level}_attr_known(id) && !i.unknown_attributes) }}\n')


def havoc_interested_arms(u, fname):
    """transform for the body of `fname`: in every `match attribute_name.as_java_str() { .. }` replace the body of each arm that mentions
    `reader` but never calls `reader.skip(` by `{ havoc_reader(reader)?; }` (newlines kept)."""
    def tr(body):
        out = body
        pos = 0
        n_arms = n_hav = 0
        while True:
            mask = code_mask(out)
            m = re.compile(r'match\s+attribute_name\.as_java_str\(\)\s*\{').search(mask, pos)
            if not m:
                break
            ob = m.end() - 1
            cb = match_close(mask, ob)
            # walk the arms
            i = ob + 1
            pieces = []   # (start, end) of arm bodies to replace
            while True:
                a = mask.find('=>', i, cb)
                if a < 0:
                    break
                j = a + 2
                while mask[j] in ' \t\n':
                    j += 1
                if mask[j] == '{':
                    e = match_close(mask, j)
                    bs, be = j, e + 1
                    k = e + 1
                else:
                    # expression arm: up to the top-level comma
                    k = j
                    while k < cb:
                        if mask[k] in '([{':
                            k = match_close(mask, k)
                        elif mask[k] == ',':
                            break
                        k += 1
                    bs, be = j, k
                n_arms += 1
                txt = mask[bs:be]
                if re.search(r'\breader\b', txt) and not re.search(r'\breader\s*\.\s*skip\s*\(', txt):
                    pieces.append((bs, be))
                i = k + 1
            for bs, be in reversed(pieces):
                nl = '\n' * out[bs:be].count('\n')
                out = out[:bs] + '{ havoc_reader(reader)?; }' + nl + out[be:]
                n_hav += 1
            mask = code_mask(out)
            pos = match_close(mask, ob)
        if n_arms == 0:
            raise CutError(f'{fname}: no `match attribute_name.as_java_str()` found')
        if n_hav == 0 or n_hav == n_arms:
            raise CutError(f'{fname}: arm abstraction replaced {n_hav} of {n_arms} arms (expected some, not all)')
        u.drop(f'fn {fname}: body of {n_hav} of {n_arms} attribute arms (the arms that parse an attribute for an interested visitor: they use `reader` and never call reader.skip) -> havoc_reader(reader)?')
        return out
    return tr


NAME_EQ = (r'\bname\s*==\s*attribute::([A-Z_0-9]+)', r'jstr_is(name, attr_id::\1)')
LOOP = (r'for _ in 0\.\.attributes_count', 'for _i in iter: 0..attributes_count')


def member_fn(u, name, level, vis_var, entry_bytes, end_spec, extra_rewrites=(), extra_asserts=(), ghost_start=''):
    d0, p0 = 'old(reader).data()', 'old(reader).pos()'
    declined = f'{level}_attr_declined(attr_of(attribute_name), interests)'
    u.fn(R, name, ret='res', canary=(name == 'read_method'),
         requires=[f'0 <= {p0}', f'{d0}.len() <= i64::MAX'],
         transform=havoc_interested_arms(u, name),
         rewrites=[NAME_EQ, LOOP] + list(extra_rewrites),
         loops={0: dict(invariant=[C(f'C17.{name}.inv.data', f'reader.data() == {d0} && reader.pos() >= 0')],
                        body_start='let ghost p_attr = reader.pos(); ' + ghost_start)},
         asserts=[
             (('loop_end', 0), C(f'C17.{name}.declined-attribute-is-skipped-exactly',
                                 f'({declined}' + (' || (attr_of(attribute_name) == attr_id::CODE && !code_read)' if level == 'method' else '') +
                                 f') ==> reader.pos() == p_attr + 6 + length')),
             (('before', r'Ok\(visitor\)'), C(f'C17.{name}.declined-{level}-is-skipped-exactly', f'reader.pos() == {end_spec}({d0}, {p0})')),
         ] + list(extra_asserts),
         ensures=[C(f'C17.{name}.data-untouched', f'final(reader).data() == {d0} && (res.is_ok() ==> final(reader).pos() >= 0)')])


def region(u, fn_name, start_re, end_re, what, end_block=False, include_end=False):
    """text of `fn_name`'s body from the match of start_re up to (not including) the match of end_re;
    end_block: end_re matches a block header and the region extends to that block's closing brace"""
    s = u.src(R)
    f = s.cut_fn(fn_name)
    body, mask = f['body'], code_mask(f['body'])
    m = re.search(start_re, mask)
    if not m:
        raise CutError(f'{fn_name}: region start /{start_re}/ not found')
    e = re.compile(end_re).search(mask, m.end())
    if not e:
        raise CutError(f'{fn_name}: region end /{end_re}/ not found')
    if include_end:
        end = e.end()
    elif end_block:
        end = match_close(mask, mask.find('{', e.start())) + 1
    else:
        end = body.rfind('\n', 0, e.start()) + 1
    u.drop(f'region of {fn_name} lifted into a function: {what}')
    return dict(text=body[m.start():end], line=s.line_of(f['open'] + m.start()))


MEMBERS_SPEC = r'''
// k field_info / method_info structures starting at p; a table = u2 count + that many members; fields table then methods table
pub open spec fn members_end_k(d: Seq<u8>, p: int, k: nat) -> int decreases k { if k == 0 { p } else { member_end(d, members_end_k(d, p, (k - 1) as nat)) } }
pub open spec fn table_end(d: Seq<u8>, p: int) -> int { members_end_k(d, p + 2, val16(d.subrange(p, p + 2)) as nat) }
pub open spec fn members_end(d: Seq<u8>, p: int) -> int { table_end(d, table_end(d, p)) }
'''


def build(u):
    u.preamble('common.rs')
    u.preamble('bytes.rs')
    u.preamble('rbytes.rs')
    add_classread(u, [], with_pos=False)
    add_skip_attributes(u, [])
    names = attr_ids(u)
    u.raw(''.join(f'#[verifier::external_body] pub struct {t} {{ _p: () }}\n' for t in OPAQUE))
    u.raw(STUBS)
    for f, st in (('class.rs', 'ClassInterests'), ('field.rs', 'FieldInterests'), ('method.rs', 'MethodInterests'), ('record.rs', 'RecordComponentInterests')):
        u.item(V + f, 'struct', st, derives=['Copy', 'Clone'])
    u.item(V + 'attribute.rs', 'trait', 'UnknownAttributeVisitor')
    u.item(V + 'field.rs', 'trait', 'FieldVisitor')
    u.item(V + 'method.rs', 'trait', 'MethodVisitor')
    u.item(V + 'record.rs', 'trait', 'RecordComponentVisitor')
    u.item(V + 'class.rs', 'trait', 'ClassVisitor')
    for lv in ('field', 'method', 'component', 'class'):
        u.raw(declined_spec(lv, names))
    member_fn(u, 'read_field', 'field', 'field_visitor', 6, 'member_end')
    member_fn(u, 'read_method', 'method', 'method_visitor', 6, 'member_end', ghost_start='let ghost mut code_read = false;',
              extra_rewrites=[(r'let code_visitor = read_code\(', 'proof { code_read = true; } let code_visitor = read_code(')])
    member_fn(u, 'read_record_component', 'component', 'record_component_visitor', 4, 'component_end')
    build_read_regions(u)


def build_read_regions(u):
    d0, p0 = 'old(reader).data()', 'old(reader).pos()'
    u.raw(MEMBERS_SPEC)
    # ---- (A) magic and version check
    u.const(CC, 'MAGIC')
    u.item('duke/src/tree/version.rs', 'struct', 'Version', derives=['Clone', 'Copy'])
    vs = u.src('duke/src/tree/version.rs')
    cst = vs.cut_const('V23')
    m = re.match(r'pub const V23: Version = (Version::new\([^;]*\));$', cst['text'].strip())
    if not m:
        raise CutError('tree/version.rs: `pub const V23: Version = Version::new(..);` not found')
    # Verus: a const initialised by an exec fn has to be an `exec const`; its value gets a contract (JVMS Table 4.1-A: Java SE 23 = major 67)
    u.drop('const Version::V23 -> `exec const` with an ensures clause (Verus cannot evaluate Version::new in a dual-mode const)')
    u.segments.append(('impl Version {\n', None))
    u.segments.append((f'pub exec const V23: Version ensures Self::V23.major == 67 && Self::V23.minor == 0 {{ {m.group(1)} }}\n', dict(file='duke/src/tree/version.rs', line=cst['start_line'], fn='Version::V23')))
    u.segments.append(('}\n', None))
    u.fns['Version::V23'] = dict(file='duke/src/tree/version.rs', start_line=cst['start_line'], end_line=cst['end_line'], props=['C01'], safety_props=['C01'], clauses=[], external_body=False, loops=0, name='V23', proof_label=None)
    u.fn('duke/src/tree/version.rs', 'Version::new', ret='v', ensures=[C('C01.version.new', 'v.major == major && v.minor == minor', props=['C01'])])
    u.raw('''// TRUSTED: version_gt/ge/lt/le stand for the comparison operators of `impl Ord for Version` (lexicographic on (major, minor)); only used if the source compares whole versions
pub open spec fn version_key(v: Version) -> int { v.major as int * 65536 + v.minor as int }
#[verifier::external_body] pub fn version_gt(a: Version, b: Version) -> (r: bool) ensures r == (version_key(a) > version_key(b)) { unimplemented!() }
#[verifier::external_body] pub fn version_ge(a: Version, b: Version) -> (r: bool) ensures r == (version_key(a) >= version_key(b)) { unimplemented!() }
#[verifier::external_body] pub fn version_lt(a: Version, b: Version) -> (r: bool) ensures r == (version_key(a) < version_key(b)) { unimplemented!() }
#[verifier::external_body] pub fn version_le(a: Version, b: Version) -> (r: bool) ensures r == (version_key(a) <= version_key(b)) { unimplemented!() }
''')
    reg = region(u, 'read', r'let\s+magic\s*=', r'if\s+version\b', 'magic / version check -> fn check_header(reader)', end_block=True)
    u.fn(R, 'read::check_header', ret='res', props=['C01'], canary=True,
         synth=dict(sig='pub fn check_header<Rd: ClassRead>(reader: &mut Rd) -> Result<()>', body='{ ' + reg['text'] + ' Ok(()) }', line=reg['line']),
         requires=[f'0 <= {p0}'],
         rewrites=[(r'class_constants::MAGIC', 'MAGIC')],
         opt_rewrites=[(r'\bversion\s*(>=|>|<=|<)\s*Version::(\w+)', lambda m: 'version_' + {'>': 'gt', '>=': 'ge', '<': 'lt', '<=': 'le'}[m.group(1)] + f'(version, Version::{m.group(2)})')],
         ensures=[C('C01.header.accepts-exactly-the-magic-and-every-major-up-to-67',
                    f'res.is_ok() <==> ({p0} + 8 <= {d0}.len() && val32({d0}.subrange({p0}, {p0} + 4)) == 0xCAFEBABE && val16({d0}.subrange({p0} + 6, {p0} + 8)) <= 67)'),
                  C('C01.header.consumes-8-bytes', f'res.is_ok() ==> final(reader).pos() == {p0} + 8 && final(reader).data() == {d0}')])
    # ---- (B) first pass over fields and methods (skipped; read later through with_pos)
    reg = region(u, 'read', r'let\s+fields_start\s*=\s*reader\.marker\(\)', r'match\s+visitor\.visit_class\(', 'the two loops skipping the fields and methods tables -> fn skip_members(reader)')
    inv = lambda k, base: [
        C(f'C17.skip_members.inv{k}.position', f'reader.pos() == members_end_k({d0}, {base} + 2, iter.index@ as nat) && reader.pos() >= 0'),
        C(f'C17.skip_members.inv{k}.frame', f'reader.data() == {d0} && {d0}.len() <= i64::MAX && 0 <= {p0} && iter.seq().len() == val16({d0}.subrange({base}, {base} + 2))'),
    ]
    hint = lambda base, k: (f'proof {{ let k = iter.index@ as nat; lemma_attrs_end_nonneg({d0}, pm + 8, val16({d0}.subrange(pm + 6, pm + 8)) as nat); assert(reader.pos() == member_end({d0}, pm)); '
                         f'assert(members_end_k({d0}, {base} + 2, (k + 1) as nat) == member_end({d0}, members_end_k({d0}, {base} + 2, k))); }}   // [C17.skip_members.inv{k}.position]\n')
    u.fn(R, 'read::skip_members', ret='res', canary=True,
         synth=dict(sig='pub fn skip_members<Rd: ClassRead>(reader: &mut Rd) -> Result<u64>', body='{ ' + reg['text'] + ' Ok(fields_start) }', line=reg['line']),
         requires=[f'0 <= {p0}', f'{d0}.len() <= i64::MAX'],
         rewrites=[(r'for _ in 0\.\.reader\.read_u16\(\)\?', 'for _i in iter: 0..reader.read_u16()?')],
         loops={0: dict(invariant=inv(0, p0), body_start='let ghost pm = reader.pos();', body_end=hint(p0, 0)),
                1: dict(invariant=inv(1, f'table_end({d0}, {p0})') + [C('C17.skip_members.inv1.fields-done', f'table_end({d0}, {p0}) >= 0')],
                        body_start='let ghost pm = reader.pos();', body_end=hint(f'table_end({d0}, {p0})', 1))},
         ensures=[C('C17.skip_members.consumes-exactly-both-tables', f'res matches Ok(fs) ==> fs as int == {p0} && final(reader).pos() == members_end({d0}, {p0})'),
                  C('C17.skip_members.data-untouched', f'final(reader).data() == {d0}')])

    # ---- (C) the attribute loop of the class itself
    reg = region(u, 'read', r'let\s+\(mut is_deprecated, mut is_synthetic\)', r'class_visitor\.visit_deprecated_and_synthetic_attribute\(',
                 'the class attribute loop -> fn read_class_attributes(reader, class_visitor, interests, pool)')
    tr = havoc_interested_arms(u, 'read')
    declined = 'class_attr_declined(attr_of(attribute_name), interests)'
    u.fn(R, 'read::read_class_attributes', ret='res',
         synth=dict(sig='pub fn read_class_attributes<CV: ClassVisitor, Rd: ClassRead>(reader: &mut Rd, class_visitor_in: CV, interests: ClassInterests, pool: &PoolRead) -> Result<CV>',
                    body='{ let mut class_visitor = class_visitor_in; ' + reg['text'] + ' Ok(class_visitor) }', line=reg['line']),
         requires=[f'0 <= {p0}', f'{d0}.len() <= i64::MAX'],
         transform=tr,
         rewrites=[NAME_EQ, LOOP, (r'let mut bootstrap_methods = None;', 'let mut bootstrap_methods: Option<Vec<BootstrapMethodRead>> = None;')],
         loops={0: dict(invariant=[C('C17.read_class_attributes.inv.data', f'reader.data() == {d0} && reader.pos() >= 0')], body_start='let ghost p_attr = reader.pos();')},
         asserts=[(('loop_end', 0), C('C17.read.declined-class-attribute-is-skipped-exactly', f'({declined}) ==> reader.pos() == p_attr + 6 + length'))],
         ensures=[C('C17.read_class_attributes.data-untouched', f'final(reader).data() == {d0}')])
    # ---- (D) second pass over fields and methods (the closure given to with_pos)
    reg = region(u, 'read', r'let\s+fields_count\s*=\s*reader\.read_u16\(\)', r'MultiClassVisitor::finish_class\(visitor, class_visitor\)',
                 'the body of the closure passed to reader.with_pos(fields_start, ..) -> fn read_members(reader, visitor, class_visitor, interests, pool, bootstrap_methods)', include_end=True)
    u.item(V + 'mod.rs', 'trait', 'MultiClassVisitor')
    fbase, mbase = p0, 'pmeth'
    u.fn(R, 'read::read_members', ret='res',
         synth=dict(sig='pub fn read_members<MV: MultiClassVisitor, Rd: ClassRead>(reader: &mut Rd, visitor: MV::ClassResidual, class_visitor_in: MV::ClassVisitor, interests: ClassInterests, '
                        'pool: &PoolRead, bootstrap_methods: Option<Vec<BootstrapMethodRead>>) -> Result<MV>',
                    body='{ let mut class_visitor = class_visitor_in; ' + reg['text'] + ' }', line=reg['line']),
         requires=[f'0 <= {p0}', f'{d0}.len() <= i64::MAX'],
         rewrites=[(r'for _ in 0\.\.fields_count', 'for _i in iter: 0..fields_count'), (r'for _ in 0\.\.methods_count', 'for _i in iter: 0..methods_count'),
                   (r'let methods_count = reader\.read_u16\(\)\?;', 'let ghost pmeth = reader.pos(); let methods_count = reader.read_u16()?;')],
         loops={0: dict(invariant=[
                    C('C17.read_members.fields.inv', f'reader.data() == {d0} && reader.pos() >= 0 && {d0}.len() <= i64::MAX && 0 <= {p0} && fields_count as int == val16({d0}.subrange({p0}, {p0} + 2))'),
                    C('C17.read_members.fields.declined-fields-are-skipped-exactly', f'!interests.fields ==> reader.pos() == members_end_k({d0}, {p0} + 2, iter.index@ as nat)')],
                    body_start='let ghost pm = reader.pos();',
                    body_end=f'proof {{ if !interests.fields {{ let k = iter.index@ as nat; lemma_attrs_end_nonneg({d0}, pm + 8, val16({d0}.subrange(pm + 6, pm + 8)) as nat); assert(reader.pos() == member_end({d0}, pm)); '
                             f'assert(members_end_k({d0}, {p0} + 2, (k + 1) as nat) == member_end({d0}, members_end_k({d0}, {p0} + 2, k))); }} }}   // [C17.read_members.fields.declined-fields-are-skipped-exactly]\n'),
                1: dict(invariant=[
                    C('C17.read_members.methods.inv', f'reader.data() == {d0} && reader.pos() >= 0 && {d0}.len() <= i64::MAX && pmeth >= 0 && methods_count as int == val16({d0}.subrange(pmeth, pmeth + 2)) && (!interests.fields ==> pmeth == table_end({d0}, {p0}))'),
                    C('C17.read_members.methods.declined-methods-are-skipped-exactly', f'!interests.methods ==> reader.pos() == members_end_k({d0}, pmeth + 2, iter.index@ as nat)')],
                    body_start='let ghost pm = reader.pos();',
                    body_end=f'proof {{ if !interests.methods {{ let k = iter.index@ as nat; lemma_attrs_end_nonneg({d0}, pm + 8, val16({d0}.subrange(pm + 6, pm + 8)) as nat); assert(reader.pos() == member_end({d0}, pm)); '
                             f'assert(members_end_k({d0}, pmeth + 2, (k + 1) as nat) == member_end({d0}, members_end_k({d0}, pmeth + 2, k))); }} }}   // [C17.read_members.methods.declined-methods-are-skipped-exactly]\n')},
         ensures=[C('C17.read_members.methods-start-where-the-fields-end-when-fields-are-declined',
                    f'res.is_ok() && !interests.fields && !interests.methods ==> final(reader).pos() == members_end({d0}, {p0})'),
                  C('C17.read_members.data-untouched', f'final(reader).data() == {d0}')])
