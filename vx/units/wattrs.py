"""wattrs -- attribute emission of the class writer (duke/src/simple_class_writer.rs): `write_attribute`, `write_attribute_fix_length`, and the
attribute sections of `write_field`, `write_method`, `write_record_component` (whole functions), of `write_code` and of `write` (regions).

C02: "a successful output is a structurally valid class file (... every length field exact ...)".  Proved here:
  * write_attribute(f): whatever `f` writes, exactly one attribute_info is appended -- u2 name index, u4 attribute_length, then exactly
    attribute_length bytes (the length is taken from the bytes `f` produced);
  * write_attribute_fix_length(n): appends the 6-byte header announcing n bytes; every call site is followed by exactly n bytes, and n is the
    length JVMS 4.7 prescribes for that attribute (Deprecated/Synthetic 0, ConstantValue/Signature/SourceFile/NestHost/ModuleMainClass 2, EnclosingMethod 4);
  * in every attribute section the `attributes_count` written equals the number of attribute_info structures in the buffer that follows it,
    and the buffer is exactly that many well-formed attribute_info structures (`attrs_seq`): none is counted and not written or written and
    not counted; unknown attributes are emitted once each with their own bytes and length.

Two mechanical abstractions, stated in the evidence: (a) the closure argument of a `write_attribute(.., |w, pool| ..)` call is dropped (the
call becomes write_attribute_any(..), which carries the *verified* contract of write_attribute for an arbitrary closure); (b) the value
argument of `x.write_u16(<expr using pool/tree types>)?` is replaced by `any_u16()?` (what is written there is C02's pool/encoding part,
units wpool / wencode; only the width matters for the length fields)."""
import re

from vx.unit import C
from vx.rustcut import CutError, code_mask, match_close, loop_headers
from vx.units._cwrite import add_classwrite
from vx.units._visit import opaque
from vx.units.raccept import OPAQUE as TREE_OPAQUE

PROPS = ['C02']
RLIMIT = 200
W = 'duke/src/simple_class_writer.rs'
CC = 'duke/src/class_constants.rs'
T = 'duke/src/tree/'

SPEC = r'''
// TRUSTED: 64-bit target (usize is 8 bytes): a count of at most 64 + 2^32 attributes cannot overflow
global size_of usize == 8;
// TRUSTED: VJavaStr / PoolWrite are opaque here (unit wpool verifies the pool writer); put_utf8 may fail and returns some index; any_u16() stands for a value expression that was abstracted away (may fail like the pool call it replaces)
#[verifier::external_body] pub struct VJavaStr { _p: () }
#[verifier::external_body] pub struct PoolWrite { _p: () }
#[verifier::external_body] #[verifier::accept_recursive_types(T)] pub struct TypeAnnotation<T> { _p: core::marker::PhantomData<T> }
impl PoolWrite { #[verifier::external_body] pub fn put_utf8(&mut self, s: &VJavaStr) -> Result<u16, VErr> { unimplemented!() } }
#[verifier::external_body] pub fn any_u16() -> Result<u16, VErr> { unimplemented!() }
pub mod jstring { use super::*; #[verifier::external_body] pub fn from_string_to_vec(s: &JavaString) -> Vec<u8> { unimplemented!() } }
#[verifier::external_body] pub fn pool_take_bootstrap_methods(pool: &mut PoolWrite) -> Option<(Vec<u8>, u8)> { unimplemented!() }

// b is a followed by exactly one attribute_info: u2 name index, u4 attribute_length, attribute_length bytes (JVMS 4.7)
#[verifier::opaque]
pub open spec fn one_attr(a: Seq<u8>, b: Seq<u8>) -> bool {
    let n = a.len() as int;
    b.len() >= n + 6 && b.subrange(0, n) == a && val32(b.subrange(n + 2, n + 6)) == b.len() - n - 6
}
// b consists of exactly n attribute_info structures
#[verifier::opaque]
pub open spec fn attrs_seq(b: Seq<u8>, n: nat) -> bool decreases n {
    if n == 0 { b.len() == 0 } else { exists|k: int| #[trigger] cut(k) && 0 <= k <= b.len() && attrs_seq(b.subrange(0, k), (n - 1) as nat) && one_attr(b.subrange(0, k), b) }
}
// the position where the last attribute_info starts; only a trigger (a recursive call inside the quantifier is matched in its fuel form, which a proof cannot name)
pub open spec fn cut(k: int) -> bool { true }
pub proof fn lemma_attrs_step(a: Seq<u8>, b: Seq<u8>, n: nat)
    requires attrs_seq(a, n), one_attr(a, b)
    ensures attrs_seq(b, n + 1)
{
    reveal_with_fuel(attrs_seq, 2); reveal(one_attr);
    let k = a.len() as int;
    assert(0 <= k <= b.len());
    assert(b.subrange(0, k) =~= a);
    assert(cut(k));
    assert(attrs_seq(b.subrange(0, k), n));
    assert(one_attr(b.subrange(0, k), b));
    assert(((n + 1) - 1) as nat == n);
    assert(attrs_seq(b.subrange(0, k), ((n + 1) - 1) as nat));
}
// the header write_attribute_fix_length appended (a -> h) and the n bytes that followed (h -> b)
pub proof fn lemma_fix_attr(a: Seq<u8>, idx: u16, n: u32, b: Seq<u8>)
    requires b.len() == a.len() + 6 + n, b.subrange(0, a.len() as int + 6) == a + be16(idx) + be32(n)
    ensures one_attr(a, b)
{
    reveal(one_attr);
    lemma_be32_val(n);
    let m = a.len() as int;
    assert(b.subrange(0, m) =~= a) by { assert(b.subrange(0, m) =~= b.subrange(0, m + 6).subrange(0, m)); }
    assert(b.subrange(m + 2, m + 6) =~= be32(n)) by { assert(b.subrange(m + 2, m + 6) =~= b.subrange(0, m + 6).subrange(m + 2, m + 6)); }
}
// some of the first k local variables carries a descriptor (-> LocalVariableTable) / a signature (-> LocalVariableTypeTable)
pub open spec fn has_descriptor(l: Seq<Lv>, k: int) -> bool { exists|j: int| 0 <= j < k && j < l.len() && (#[trigger] l[j]).descriptor is Some }
pub open spec fn has_signature(l: Seq<Lv>, k: int) -> bool { exists|j: int| 0 <= j < k && j < l.len() && (#[trigger] l[j]).signature is Some }
// the counts written in front of the two tables (unit warms takes them as the precondition of the table bodies)
pub open spec fn count_desc(l: Seq<Lv>, k: int) -> int decreases k { if 0 < k <= l.len() { count_desc(l, k - 1) + (if l[k - 1].descriptor is Some { 1int } else { 0int }) } else { 0 } }
pub open spec fn count_sign(l: Seq<Lv>, k: int) -> int decreases k { if 0 < k <= l.len() { count_sign(l, k - 1) + (if l[k - 1].signature is Some { 1int } else { 0int }) } else { 0 } }
pub proof fn lemma_attrs_empty() ensures attrs_seq(Seq::<u8>::empty(), 0) { reveal_with_fuel(attrs_seq, 1); }
// TRUSTED: write_attribute_any carries the contract that unit wattrs proves for write_attribute with an arbitrary closure (the closure argument of the call site is dropped)
#[verifier::external_body]
pub fn write_attribute_any(writer: &mut Vec<u8>, pool: &mut PoolWrite, name: &VJavaStr) -> (res: Result<(), VErr>)
    ensures res.is_ok() ==> one_attr(old(writer)@, final(writer)@)
{ unimplemented!() }
'''

# JVMS 4.7.x: attribute_length of the attributes the writer emits with a fixed length
JVMS_FIXED = dict(DEPRECATED=0, SYNTHETIC=0, CONSTANT_VALUE=2, SIGNATURE=2, SOURCE_FILE=2, NEST_HOST=2, MODULE_MAIN_CLASS=2, ENCLOSING_METHOD=4)


def attribute_fns(u):
    s = u.src(CC)
    it = s.cut_item('mod', 'attribute')
    names = re.findall(r'const\s+([A-Z_0-9]+)\s*:\s*&JavaStr', it['text'])
    if not names:
        raise CutError('class_constants::attribute: no constants found')
    u.drop('mod class_constants::attribute -> one opaque `fn X() -> &VJavaStr` per constant; `attribute::X` -> `attribute::X()`')
    u.raw('pub mod attribute { use super::*;\n' + ''.join(f'    #[verifier::external_body] pub fn {n}() -> &\'static VJavaStr {{ unimplemented!() }}\n' for n in names) + '}\n')


def abstract_calls(u, fname):
    """the two abstractions of the module doc, plus ghost bookkeeping around every attribute emission:
    before `attribute_count += 1;` remember the buffer, after the emitting statement(s) of that block prove one_attr and step attrs_seq."""
    def tr(body):
        n0 = body.count('\n')
        # (a) drop the closure argument of write_attribute
        k = 0
        while True:
            mask = code_mask(body)
            m = re.search(r'\bwrite_attribute\s*\(', mask)
            if not m:
                break
            cl = match_close(mask, m.end() - 1)
            # split top-level commas
            depth, commas, i = 0, [], m.end()
            while i < cl:
                ch = mask[i]
                if ch in '([{':
                    i = match_close(mask, i)
                elif ch == ',':
                    commas.append(i)
                i += 1
            if len(commas) < 3:
                raise CutError(f'{fname}: write_attribute call with fewer than 4 arguments')
            nl = '\n' * body[commas[2]:cl].count('\n')
            body = body[:m.start()] + 'write_attribute_any(' + body[m.end():commas[2]] + nl + body[cl:]
            k += 1
        u.drop(f'fn {fname}: closure argument of write_attribute(..) dropped -> write_attribute_any(..) (contract of write_attribute for an arbitrary closure)', k)
        # (b) value expressions
        body, k2 = re.subn(r'\b(\w+)\.write_u16\((?![a-z_]+\)\?)(?:[^;\n]*)\)\?;', r'\1.write_u16(any_u16()?)?;', body)
        u.drop(f'fn {fname}: value argument of x.write_u16(<expr>)? -> any_u16()? (width kept)', k2)
        body = re.sub(r'\battribute::([A-Z_0-9]+)\b', r'attribute::\1()', body)
        body = re.sub(r'pool\.bootstrap_methods\.take\(\)', 'pool_take_bootstrap_methods(pool)', body)
        # ghost bookkeeping: every `attribute_count += 1;` opens an emission that ends at the end of the enclosing block
        out, pos = '', 0
        while True:
            mask = code_mask(body)
            m = re.compile(r'attribute_count\s*\+=\s*1\s*;').search(mask, pos)
            if not m:
                break
            # enclosing block: scan backwards for the unmatched `{`
            depth, i = 0, m.start()
            while i >= 0:
                if mask[i] == '}':
                    depth += 1
                elif mask[i] == '{':
                    if depth == 0:
                        break
                    depth -= 1
                i -= 1
            close = match_close(mask, i)
            blk = body[m.end():close]
            label_comment = ''
            fx = re.search(r'write_attribute_fix_length\(&mut buffer, pool, attribute::([A-Z_0-9]+)\(\), (\d+)\)', blk)
            if fx:
                want = JVMS_FIXED.get(fx.group(1))
                if want is None:
                    raise CutError(f'{fname}: write_attribute_fix_length for attribute::{fx.group(1)}: no JVMS length in the table')
                label_comment = f'   // [C02.{fname}.fixed-length-attribute-is-followed-by-its-jvms-length]'
                tail = (f' proof {{ assert(buffer@.len() == b_before.len() + 6 + {want}); assert(attrs_seq(buffer@, attribute_count as nat)) by {{'
                        f' assert(buffer@.subrange(0, b_before.len() as int + 6) =~= b_before + be16(fix_idx) + be32({want}u32)); lemma_fix_attr(b_before, fix_idx, {want}u32, buffer@); lemma_attrs_step(b_before, buffer@, (attribute_count - 1) as nat); }} }} ')
            elif re.search(r'write_usize_as_u32\(([\w.]+)\.len\(\)\)', blk):
                E = re.search(r'write_usize_as_u32\(([\w.]+)\.len\(\)\)', blk).group(1)
                tail = (f' proof {{ assert(attrs_seq(buffer@, attribute_count as nat)) by {{ let h = b_before + be16(unk_idx) + be32({E}@.len() as u32); assert(buffer@ =~= h + {E}@); assert(buffer@.subrange(0, b_before.len() as int + 6) =~= h); '
                        f'lemma_fix_attr(b_before, unk_idx, {E}@.len() as u32, buffer@); lemma_attrs_step(b_before, buffer@, (attribute_count - 1) as nat); }} }} ')
            else:
                tail = ' proof { assert(attrs_seq(buffer@, attribute_count as nat)) by { lemma_attrs_step(b_before, buffer@, (attribute_count - 1) as nat); } } '
            body = body[:m.start()] + 'let ghost b_before = buffer@; ' + body[m.start():close] + tail + '}' + (label_comment if fx else '') + body[close + 1:]
            pos = m.end() + len('let ghost b_before = buffer@; ')
        # the index written by a fix-length header / an unknown attribute header is needed by the lemmas: bind it
        body = re.sub(r'write_attribute_fix_length\(&mut buffer, pool, (attribute::[A-Z_0-9]+\(\)), (\d+)\)\?;',
                      r'let fix_idx = write_attribute_fix_length(&mut buffer, pool, \1, \2)?;', body)
        body = re.sub(r'buffer\.write_u16\(any_u16\(\)\?\)\?;((?:\s*let vec = [^;]*;)?\s*)buffer\.write_usize_as_u32\(([\w.]+)\.len\(\)\)',
                      r'let unk_idx = any_u16()?; buffer.write_u16(unk_idx)?;\1buffer.write_usize_as_u32(\2.len())', body)
        if body.count('\n') != n0:
            body = body  # the label comment lines add newlines: allowed below
        return body
    return tr


def build(u):
    u.preamble('common.rs')
    u.preamble('bytes.rs')
    add_classwrite(u, [])
    opaque(u, [t for t in TREE_OPAQUE if t not in ('Attribute',)])
    u.raw(SPEC)
    attribute_fns(u)
    u.item(T + 'method/code.rs', 'struct', 'Label', derives=['Copy', 'Clone', 'PartialEq', 'Eq'])
    u.item(T + 'attribute.rs', 'struct', 'Attribute', derives=[])
    u.item(T + 'method/code.rs', 'struct', 'Lv', derives=[])
    u.item(T + 'method/code.rs', 'struct', 'InstructionListEntry', derives=[])
    u.item(T + 'method/code.rs', 'struct', 'Code', derives=[])
    u.item(T + 'method.rs', 'struct', 'Method', derives=[])
    u.item(T + 'field.rs', 'struct', 'Field', derives=[])
    u.item(T + 'record.rs', 'struct', 'RecordComponent', derives=[])
    u.item(T + 'class.rs', 'struct', 'ClassFile', derives=[])
    b0 = 'old(writer).bytes()'
    # ---- the two helpers
    u.fn(W, 'write_attribute_fix_length', ret='res', canary=True,
         sig_rewrites=[(r"<'a, 'b: 'a>", ''), (r"PoolWrite<'a>", 'PoolWrite'), (r"&'b JavaStr", '&VJavaStr'), (r'-> Result<\(\), VErr>', '-> Result<u16, VErr>')],
         rewrites=[(r'writer\.write_u16\(pool\.put_utf8\(name\)\?\)\?;', 'let idx = pool.put_utf8(name)?; writer.write_u16(idx)?;'),
                   (r'writer\.write_usize_as_u32\(length\)\s*\n', 'writer.write_usize_as_u32(length)?; Ok(idx)\n')],
         requires=['old(writer).infallible()'],
         ensures=[C('C02.write_attribute_fix_length.header-announces-the-given-length',
                    f'res matches Ok(idx) ==> length <= 0xffff_ffff && final(writer).bytes() == {b0} + be16(idx) + be32(length as u32)'),
                  C('C02.write_attribute_fix_length.sink-kind-kept', 'final(writer).infallible()')])
    u.drop('write_attribute_fix_length: returns the name index it wrote (ghost bookkeeping of the call sites needs the header bytes); `-> Result<()>` -> `-> Result<u16>`')
    u.fn(W, 'write_attribute', ret='res',
         sig_rewrites=[(r"<'a, 'b, F>", '<F>'), (r"PoolWrite<'a>", 'PoolWrite'), (r"&'b JavaStr", '&VJavaStr'), (r"'b: 'a,", '')],
         requires=['old(writer).infallible()', 'forall|b: &mut Vec<u8>, p: &mut PoolWrite| f.requires((b, p))'],
         rewrites=[(r'writer\.write_u16\(pool\.put_utf8\(name\)\?\)\?;', 'let idx = pool.put_utf8(name)?; writer.write_u16(idx)?;'),
                   (r'let mut buffer = Vec::new\(\);', 'let mut buffer: Vec<u8> = Vec::new();'),
                   (r'writer\.write_u8_slice\(&buffer\)(\s*\})$', 'let r = writer.write_u8_slice(&buffer); proof { if r.is_ok() { let n = buffer@.len() as u32; '
                    'assert(writer.bytes().subrange(0, old(writer).bytes().len() as int + 6) =~= old(writer).bytes() + be16(idx) + be32(n)); lemma_fix_attr(old(writer).bytes(), idx, n, writer.bytes()); } } r\\1')],
         ensures=[C('C02.write_attribute.length-field-is-the-number-of-bytes-that-follow', f'res.is_ok() ==> one_attr({b0}, final(writer).bytes())'),
                  C('C02.write_attribute.sink-kind-kept', 'final(writer).infallible()')])
    # ---- attribute sections of the member writers (whole functions)
    for fn, var in (('write_field', 'field'), ('write_method', 'method'), ('write_record_component', 'record_component')):
        section(u, fn, var)
    build_regions(u)


# "denoting exactly the given class": an attribute is emitted exactly when the tree holds the fact it carries.  Written from the tree types (duke/src/tree) and JVMS 4.7,
# not from the writer's conditions: (attribute constant) -> condition over the item `{v}`; attributes absent here (BootstrapMethods: collected by the pool) carry no such clause.
EMITTED_IFF = {
    'CONSTANT_VALUE': '{v}.constant_value is Some', 'SIGNATURE': '{v}.signature is Some', 'DEPRECATED': '{v}.has_deprecated_attribute', 'SYNTHETIC': '{v}.has_synthetic_attribute',
    'RUNTIME_VISIBLE_ANNOTATIONS': '{v}.runtime_visible_annotations@.len() > 0', 'RUNTIME_INVISIBLE_ANNOTATIONS': '{v}.runtime_invisible_annotations@.len() > 0',
    'RUNTIME_VISIBLE_TYPE_ANNOTATIONS': '{v}.runtime_visible_type_annotations@.len() > 0', 'RUNTIME_INVISIBLE_TYPE_ANNOTATIONS': '{v}.runtime_invisible_type_annotations@.len() > 0',
    'CODE': '{v}.code is Some', 'EXCEPTIONS': '{v}.exceptions is Some', 'ANNOTATION_DEFAULT': '{v}.annotation_default is Some', 'METHOD_PARAMETERS': '{v}.method_parameters is Some',
    'INNER_CLASSES': '{v}.inner_classes is Some', 'ENCLOSING_METHOD': '{v}.enclosing_method is Some', 'SOURCE_FILE': '{v}.source_file is Some', 'SOURCE_DEBUG_EXTENSION': '{v}.source_debug_extension is Some',
    'MODULE': '{v}.module is Some', 'MODULE_PACKAGES': '{v}.module_packages is Some', 'MODULE_MAIN_CLASS': '{v}.module_main_class is Some', 'NEST_HOST': '{v}.nest_host_class is Some',
    'NEST_MEMBERS': '{v}.nest_members is Some', 'PERMITTED_SUBCLASSES': '{v}.permitted_subclasses is Some', 'RECORD': '{v}.record_components@.len() > 0',
    'LINE_NUMBER_TABLE': '{v}.line_numbers is Some',
    'LOCAL_VARIABLE_TABLE': '({v}.local_variables matches Some(l_) && has_descriptor(l_@, l_@.len() as int))',
    'LOCAL_VARIABLE_TYPE_TABLE': '({v}.local_variables matches Some(l_) && has_signature(l_@, l_@.len() as int))',
}
VAR_TYPE = dict(field='Field', method='Method', record_component='RecordComponent', code='Code', **{'class': 'ClassFile'})


def lift_blocks(u, fn, var, base_line, block_requires, block_loops):
    """second half of the transform: every top-level `if .. { .. attribute_count += 1; .. }` statement of the section becomes a function
    blk(buffer, pool, <item>, attribute_count) that keeps `attrs_seq(buffer, attribute_count)`; the section calls them in place (keeps each SMT query small)"""
    def tr(body):
        mask = code_mask(body)
        ob = mask.find('{')
        cb = match_close(mask, ob)
        stmts, i = [], ob + 1
        while i < cb:
            while i < cb and mask[i] in ' \t\n':
                i += 1
            if i >= cb:
                break
            st = i
            if re.match(r'(if|for|while|loop|match|proof)\b', mask[i:i + 6]):
                while True:
                    j = i
                    while mask[j] != '{':
                        if mask[j] in '([':
                            j = match_close(mask, j)
                        j += 1
                    e = match_close(mask, j)
                    i = e + 1
                    m2 = re.match(r'\s*else\b', mask[i:i + 12])
                    if not m2:
                        break
                    i += m2.end()
                stmts.append((st, i))
            else:
                while i < cb and mask[i] != ';':
                    if mask[i] in '([{':
                        i = match_close(mask, i)
                    i += 1
                i += 1
                stmts.append((st, min(i, cb)))
        out, k = body, 0
        for st, en in reversed(stmts):
            txt = body[st:en]
            if not txt.startswith('if') or 'attribute_count += 1' not in code_mask(txt):
                continue
            k += 1
        n = k
        for st, en in reversed(stmts):
            txt = body[st:en]
            if not txt.startswith('if') or 'attribute_count += 1' not in code_mask(txt):
                continue
            name = f'{fn}_block{k}'
            btxt = re.sub(r'\battribute_count\b', '(*attribute_count)', txt).replace('&mut buffer', 'buffer')
            loops = {}
            for pat, spec in (block_loops or {}).items():
                if re.search(pat, btxt):
                    loops[pat] = spec
            emitted = re.findall(r'write_attribute(?:_any|_fix_length)\(buffer, pool, attribute::([A-Z_0-9]+)\(\)', btxt)
            extra = []
            if emitted and all(a in EMITTED_IFF for a in emitted):
                total = ' + '.join('(if ' + EMITTED_IFF[a].format(v=var) + ' { 1int } else { 0int })' for a in emitted)
                extra = [C(f'C02.{fn}.block{k}.{"-and-".join(emitted)}.emitted-exactly-when-the-tree-holds-it', f'res.is_ok() ==> *final(attribute_count) - *old(attribute_count) == {total}')]
            else:
                u.drop(f'fn {fn}: block {k} emits {emitted or "?"}: no emitted-iff clause (not in the table)')
            u.fn(W, f'{fn}::{name}', ret='res',
                 synth=dict(sig=f'pub fn {name}(buffer: &mut Vec<u8>, pool: &mut PoolWrite, {var}: &{VAR_TYPE[var]}, attribute_count: &mut usize) -> Result<()>',
                            body='{ ' + btxt + ' Ok(()) }', line=base_line + body.count('\n', 0, st)),
                 requires=['attrs_seq(old(buffer)@, *old(attribute_count) as nat)', '*old(attribute_count) <= 1000'] + list(block_requires),
                 loops=loops,
                 ensures=[C(f'C02.{fn}.block{k}.count-and-buffer-stay-in-step',
                            'res.is_ok() ==> attrs_seq(final(buffer)@, *final(attribute_count) as nat) && *old(attribute_count) <= *final(attribute_count) <= *old(attribute_count) + 2')] + extra)
            nl = '\n' * txt.count('\n')
            out = out[:st] + f'{name}(&mut buffer, pool, {var}, &mut attribute_count)?;' + nl + out[en:]
            k -= 1
        u.drop(f'fn {fn}: {n} top-level attribute blocks lifted to functions {fn}_block<k>(buffer, pool, {var}, attribute_count); the section calls them in place')
        return out
    return tr


def section(u, fn, var, synth=None, extra_rewrites=(), block_loops=None, block_requires=()):
    """verify one attribute section: `attributes_count` == number of attribute_info structures in the buffer"""
    loops = {r'?for attribute in iter: &': dict(invariant=[
        C(f'C02.{fn}.inv.attributes', f'attrs_seq(buffer@, attribute_count as nat) && attribute_count <= 64 + iter.index@ && iter.snapshot@.remaining().len() == {var}.attributes@.len() && {var}.attributes@.len() < 0x1_0000_0000 '
                                      f'&& writer.infallible() && unknown_emitted == iter.index@')],
        body_start='proof { unknown_emitted = unknown_emitted + 1; }')}
    kw = dict(synth=synth) if synth else dict(sig_rewrites=[(r"<'a(?:: 'b)?, 'b(?:: 'a)?>", ''), (r"PoolWrite<'[ab]>", 'PoolWrite'), (r"&'[ab] (\w+)", r'&\1')])
    base_line = synth['line'] if synth else u.src(W).line_of(u.src(W).cut_fn(fn)['open'])
    t1, t2 = abstract_calls(u, fn), lift_blocks(u, fn, var, base_line, block_requires, block_loops)
    info = u.fn(W, fn if not synth else synth['key'], ret='res',
                requires=['old(writer).infallible()', f'{var}.attributes@.len() < 0x1_0000_0000'] + list(block_requires),
                transform=lambda b: t2(t1(b)),
                opt_rewrites=[(rf'for attribute in &{var}\.attributes', f'for attribute in iter: &{var}.attributes')],
                rewrites=[(r'let mut attribute_count = 0;', 'let mut attribute_count: usize = 0; let ghost mut unknown_emitted: int = 0;'),
                          (r'let mut buffer = Vec::new\(\);', 'let mut buffer: Vec<u8> = Vec::new(); proof { lemma_attrs_empty(); assert(buffer@ =~= Seq::<u8>::empty()); }')] + list(extra_rewrites),
                loops=loops,
                asserts=[(('before', r'writer\.write_usize_as_u16\(attribute_count\)'),
                          C(f'C02.{fn}.attributes_count-is-the-number-of-attribute_infos-that-follow', 'attrs_seq(buffer@, attribute_count as nat)')),
                         (('before', r'writer\.write_usize_as_u16\(attribute_count\)'),
                          C(f'C02.{fn}.every-unknown-attribute-is-emitted-once', f'unknown_emitted == {var}.attributes@.len()'))],
                ensures=[C(f'C02.{fn}.sink-kind-kept', 'final(writer).infallible()')], **kw)
    lab = f'C02.{fn}.fixed-length-attribute-is-followed-by-its-jvms-length'
    key = fn if not synth else synth['key']
    u.clauses[lab] = dict(fn=key, kind='assert', text='after write_attribute_fix_length(.., n): exactly n bytes follow and n is the JVMS 4.7 length of that attribute', props=list(PROPS))
    info['clauses'].append(lab)


def build_regions(u):
    # ---- the attribute section of a Code attribute (region of write_code) and of the class itself (region of write)
    s = u.src(W)
    f = s.cut_fn('write_code')
    body, mask = f['body'], code_mask(f['body'])
    m = re.search(r'let\s+mut\s+attribute_count\s*=\s*0\s*;', mask)
    if not m:
        raise CutError('write_code: attribute section (`let mut attribute_count = 0;`) not found')
    start = body.rfind('\n', 0, m.start()) + 1
    u.drop('region of write_code lifted into a function: the attribute section (from `let mut attribute_count = 0;` to the end) -> fn write_code_attributes(writer, code, pool, frames)')
    section(u, 'write_code_attributes', 'code',
            synth=dict(key='write_code::write_code_attributes', sig='pub fn write_code_attributes<Wr: ClassWrite>(writer: &mut Wr, code: &Code, pool: &mut PoolWrite, frames: &Vec<StackMapData>) -> Result<()>',
                       body='{ ' + body[start:], line=s.line_of(f['open'] + start)),
            block_requires=['code.local_variables matches Some(l) ==> l@.len() < 0x1_0000_0000'],
            extra_rewrites=[(r'for lv in local_variables\b', 'for lv in iter: local_variables')],
            block_loops={r'for lv in iter: local_variables': dict(invariant=[
                C('C02.write_code_attributes.inv.counting', 'desc <= iter.index@ && sign <= iter.index@ && iter.snapshot@.remaining().len() == local_variables@.len() && local_variables@.len() < 0x1_0000_0000 && attrs_seq(buffer@, *attribute_count as nat) && *attribute_count == *old(attribute_count) && buffer@ == old(buffer)@ '
                  '&& (desc > 0) == has_descriptor(local_variables@, iter.index@ as int) && (sign > 0) == has_signature(local_variables@, iter.index@ as int)'),
                C('C02.write_code_attributes.inv.the-two-table-counts-are-the-numbers-of-variables-with-a-descriptor-and-with-a-signature',
                  'desc == count_desc(local_variables@, iter.index@ as int) && sign == count_sign(local_variables@, iter.index@ as int)')],
                body_start='proof { assert(lv == local_variables@[iter.index@ as int]); }')})
    f = s.cut_fn('write')
    body, mask = f['body'], code_mask(f['body'])
    m = re.search(r'let\s+mut\s+attribute_count\s*=\s*0\s*;', mask)
    e = re.compile(r'writer\.write_u8_slice\(&buffer\)\?;').search(mask, m.end() if m else 0)
    if not m or not e:
        raise CutError('write: attribute section not found')
    start = body.rfind('\n', 0, m.start()) + 1
    u.drop('region of write lifted into a function: the attribute section of the class -> fn write_class_attributes(writer, class, pool)')
    section(u, 'write_class_attributes', 'class',
            synth=dict(key='write::write_class_attributes', sig='pub fn write_class_attributes(writer: &mut Vec<u8>, class: &ClassFile, pool: &mut PoolWrite) -> Result<()>',
                       body='{ ' + body[start:e.end()] + ' Ok(()) }', line=s.line_of(f['open'] + start)))
