"""bridge -- the bridge predicate of the specialized-method pass (src/specialized_methods/mod.rs, nested fn `is_potential_bridge` of
`MultiClassVisitorImpl::get_specialized_methods`).

C15: "... is either flagged as a bridge or is inheritable (not private, static or final) with the same arity and position-wise
bridge-compatible parameter and return types".  The nested function is cut verbatim; its callee `are_types_bridge_compatible` (a graph search
over IndexMap / IndexSet) and `MethodDescriptor::parse` are opaque functions of their arguments.  Contract: the answer is exactly the
conjunction the property states, for all descriptors and all flag combinations."""
from vx.unit import C
from vx.units._visit import opaque

PROPS = ['C15']
F = 'src/specialized_methods/mod.rs'

STUBS = r'''
// TRUSTED: MultiClassVisitorImpl / Type / ObjClassName / MethodName are opaque; MethodDescriptor::parse and are_types_bridge_compatible are functions of their arguments (not verified here)
pub struct MethodRefObj { pub class: ObjClassName, pub name: MethodName, pub desc: MethodDescriptor }
pub struct ParsedMethodDescriptor { pub parameter_descriptors: Vec<Type>, pub return_descriptor: Option<Type> }
pub uninterp spec fn sp_parse(d: MethodDescriptor) -> ParsedMethodDescriptor;
pub uninterp spec fn sp_compatible(v: &MultiClassVisitorImpl, bridge: Type, specialized: Type) -> bool;
impl MethodDescriptor {
    #[verifier::external_body] pub fn parse(&self) -> (res: Result<ParsedMethodDescriptor, VErr>) ensures res matches Ok(p) ==> p == sp_parse(*self) { unimplemented!() }
}
#[verifier::external_body]
pub fn are_types_bridge_compatible(visitor: &MultiClassVisitorImpl, bridge_desc: &Type, specialized_desc: &Type) -> (b: bool)
    ensures b == sp_compatible(visitor, *bridge_desc, *specialized_desc)
{ unimplemented!() }
// the property's predicate
pub open spec fn return_compatible(v: &MultiClassVisitorImpl, a: Option<Type>, b: Option<Type>) -> bool {
    match (a, b) { (Some(x), Some(y)) => sp_compatible(v, x, y), (None, None) => true, _ => false }
}
pub open spec fn bridge_shaped(v: &MultiClassVisitorImpl, access: MethodAccess, s: ParsedMethodDescriptor, t: ParsedMethodDescriptor) -> bool {
    !access.is_private && !access.is_final && !access.is_static
    && s.parameter_descriptors@.len() == t.parameter_descriptors@.len()
    && (forall|i: int| 0 <= i < s.parameter_descriptors@.len() ==> #[trigger] sp_compatible(v, s.parameter_descriptors@[i], t.parameter_descriptors@[i]))
    && return_compatible(v, s.return_descriptor, t.return_descriptor)
}
'''


def build(u):
    u.preamble('common.rs')
    opaque(u, ['MultiClassVisitorImpl', 'Type', 'ObjClassName', 'MethodName', 'MethodDescriptor'])
    u.item('duke/src/tree/method.rs', 'struct', 'MethodAccess', derives=['Copy', 'Clone'])
    u.raw(STUBS)
    S, Tt = 'sp_parse(synthetic_method.desc)', 'sp_parse(specialized_method.desc)'
    u.fn(F, 'MultiClassVisitorImpl::is_potential_bridge', impl=r'MultiClassVisitorImpl', inside_fn='get_specialized_methods', bare=True, ret='res', canary=True,
         rewrites=[(r'\bfor i in ', 'for i in iter: ')],
         loops={0: dict(invariant=[
             C('C15.bridge.inv.parameters', f'synthetic_desc == {S} && specialized_desc == {Tt} && synthetic_desc.parameter_descriptors@.len() == specialized_desc.parameter_descriptors@.len() '
                                            '&& (forall|j: int| 0 <= j < i ==> #[trigger] sp_compatible(visitor, synthetic_desc.parameter_descriptors@[j], specialized_desc.parameter_descriptors@[j]))')])},
         ensures=[C('C15.bridge.inheritable-same-arity-and-positionwise-compatible', f'res matches Ok(b) ==> b == bridge_shaped(visitor, *access, {S}, {Tt})')])
