"""rscan -- first pass of the code reader (duke/src/class_reader.rs read_code): walks the instruction stream and creates a label for every
branch target.  Two regions of read_code are lifted mechanically into functions:

  scan_instruction  = the body of the first `(|| { match r.read_u8()? { .. }; Ok(()) })()` closure (captures r, labels, opcode_pos -> parameters)
  scan_all          = the first `while !r.get_ref()[(r.position() as usize)..].is_empty() { .. }` loop, with the closure call replaced by
                      `scan_instruction(r, labels, opcode_pos)`

Specification: `insn_len`, the instruction length table of JVMS 6.5 / 4.10 written here from the specification (opcode numbers, not the
crate's constants).  scan_instruction advances by exactly insn_len and leaves a label on every branch target; scan_all consumes exactly
the code array.  The safety obligations of these regions are the C16 cases "tableswitch spanning the whole int range" and "a Code
attribute whose last instruction is cut short".
"""
import re

from vx.unit import C
from vx.rustcut import CutError, code_mask, match_close, loop_headers
from vx.units._cread import add_classread
from vx.units.rlabels import add_reader_labels
from vx.units.rbranch import add_branch_helpers

PROPS = ['C01']
RLIMIT = 300
R = 'duke/src/class_reader.rs'
CC = 'duke/src/class_constants.rs'

SPEC = r'''
// ---- JVMS 6.5: length of the instruction whose opcode is at d[p] (-1: not an instruction that may appear in a class file) ----
pub open spec fn pad4(p: int) -> int { (4 - (p + 1) % 4) % 4 }   // 0-3 padding bytes after a switch opcode at p: the operands start at a multiple of 4
pub open spec fn sw_base(p: int) -> int { p + 1 + pad4(p) }
pub open spec fn insn_len(d: Seq<u8>, p: int) -> int {
    let op = d[p] as int;
    if op <= 0x0f || (0x1a <= op <= 0x35) || (0x3b <= op <= 0x83) || (0x85 <= op <= 0x98) || (0xac <= op <= 0xb1)
        || op == 0xbe || op == 0xbf || op == 0xc2 || op == 0xc3 { 1 }
    else if op == 0x10 || op == 0x12 || (0x15 <= op <= 0x19) || (0x36 <= op <= 0x3a) || op == 0xa9 || op == 0xbc { 2 }
    else if op == 0x11 || op == 0x13 || op == 0x14 || op == 0x84 || (0x99 <= op <= 0xa8) || (0xb2 <= op <= 0xb8)
        || op == 0xbb || op == 0xbd || op == 0xc0 || op == 0xc1 || op == 0xc6 || op == 0xc7 { 3 }
    else if op == 0xc5 { 4 }
    else if op == 0xb9 || op == 0xba || op == 0xc8 || op == 0xc9 { 5 }
    else if op == 0xc4 { if d[p + 1] == 0x84 { 6 } else { 4 } }
    else if op == 0xaa { let q = sw_base(p); (q - p) + 12 + 4 * (sval32(d.subrange(q + 8, q + 12)) - sval32(d.subrange(q + 4, q + 8)) + 1) }
    else if op == 0xab { let q = sw_base(p); (q - p) + 8 + 8 * sval32(d.subrange(q + 4, q + 8)) }
    else { -1 }
}
pub open spec fn sw_target(d: Seq<u8>, p: int, off: int, stride: int, j: int) -> int {   // target of the j-th entry of a switch at p
    p + sval32(d.subrange(sw_base(p) + off + stride * j + stride - 4, sw_base(p) + off + stride * j + stride))
}
pub open spec fn is_branch16(op: int) -> bool { (0x99 <= op <= 0xa8) || op == 0xc6 || op == 0xc7 }
pub open spec fn is_branch32(op: int) -> bool { op == 0xc8 || op == 0xc9 }
pub open spec fn has_label(l: Labels, t: int) -> bool { 0 <= t <= 65535 && l.labels@.contains_key(t as u16) }
pub open spec fn labels_kept(a: Labels, b: Labels) -> bool {
    b.code_length == a.code_length
    && forall|k: u16| #![trigger b.labels@.contains_key(k)] #![trigger a.labels@.contains_key(k)] a.labels@.contains_key(k) ==> b.labels@.contains_key(k) && b.labels@[k] == a.labels@[k]
}
// TRUSTED: external_body cursor_rest_is_empty / cursor_position / cursor_len: `r.get_ref()[(r.position() as usize)..].is_empty()`, `r.position()`, `r.get_ref().len()` on the std::io::Cursor over the code array are rewritten to these stubs; the slice expression panics when the position is past the end (precondition)
#[verifier::external_body]
pub fn cursor_rest_is_empty<Rd: ClassRead>(r: &Rd) -> (b: bool)
    requires 0 <= r.pos() <= r.data().len(),
    ensures b == (r.pos() == r.data().len()),
{ unimplemented!() }
#[verifier::external_body]
pub fn cursor_position<Rd: ClassRead>(r: &Rd) -> (p: u64)
    requires 0 <= r.pos() <= u64::MAX,
    ensures p as int == r.pos(),
{ unimplemented!() }
#[verifier::external_body]
pub fn cursor_len<Rd: ClassRead>(r: &Rd) -> (n: usize)
    ensures n as int == r.data().len(),
{ unimplemented!() }
'''


def first_pass_regions(u):
    s = u.src(R)
    f = s.cut_fn('read_code')
    body = f['body']
    mask = code_mask(body)
    lh = loop_headers(body)
    if not lh:
        raise CutError('read_code: no loop found')
    kw, brace = lh[0]
    if not re.match(r'while\s+!r\.get_ref\(\)\[\(r\.position\(\)\s+as\s+usize\)\.\.\]\.is_empty\(\)\s*$', body[kw:brace].strip()):
        raise CutError('read_code: the first loop is not the instruction walk `while !r.get_ref()[(r.position() as usize)..].is_empty()`')
    lclose = match_close(mask, brace)
    m = re.compile(r'\(\|\|\s*\{').search(mask, brace, lclose)
    if not m:
        raise CutError('read_code: closure of the first pass not found')
    cob = m.end() - 1
    ccb = match_close(mask, cob)
    m2 = re.compile(r'\s*\)\s*\(\s*\)').match(mask, ccb + 1)
    if not m2:
        raise CutError('read_code: the first-pass closure is not invoked in place')
    closure = dict(body=body[cob:ccb + 1], line=s.line_of(f['open'] + cob))
    loop_text = body[kw:m.start()] + 'scan_instruction(r, labels, opcode_pos, code_length)' + '\n' * body[m.start():m2.end()].count('\n') + body[m2.end():lclose + 1]
    loop = dict(body='{\n' * 0 + '{ ' + loop_text + ' Ok(()) }', line=s.line_of(f['open'] + kw))
    u.drop('region of read_code lifted into a function: body of the first-pass closure `(|| {..})()` -> fn scan_instruction(r, labels, opcode_pos); '
           'the first `while` loop -> fn scan_all(r, labels) with the closure call replaced by scan_instruction(..)', 2)
    return closure, loop


def build(u):
    u.preamble('common.rs')
    u.preamble('bytes.rs')
    u.preamble('rbytes.rs')
    add_classread(u, [], with_pos=False)
    u.item(CC, 'mod', 'opcode')
    add_reader_labels(u, [])
    add_branch_helpers(u, [])
    u.raw(SPEC)
    closure, loop = first_pass_regions(u)
    d0, p0 = 'old(r).data()', 'old(r).pos()'
    op = f'{d0}[{p0}] as int'
    q = f'sw_base({p0})'
    common_req = [f'0 <= {p0}', f'{d0}.len() <= 65535', f'opcode_pos as int == {p0}', 'labels_wf(*old(labels))', f'code_length as int == {d0}.len()']
    sw_inv = lambda off, stride, k: [  # noqa: E731
        C(f'C01.scan.{k}.inv.pos', f'r.pos() == {q} + {off} + {stride} * iter.index@'),
        C(f'C01.scan.{k}.inv.data', f'r.data() == {d0}'),
        C(f'C01.scan.{k}.inv.wf', f'labels_wf(*labels)'),
        C(f'C01.scan.{k}.inv.kept', f'labels_kept(*old(labels), *labels)'),
        C(f'C01.scan.{k}.inv.misc', f'0 <= {p0} && {d0}.len() <= 65535 && opcode_pos as int == {p0} && code_length as int == {d0}.len()'),
        C(f'C01.scan.{k}.inv.default', f'has_label(*labels, {p0} + sval32({d0}.subrange({q}, {q} + 4)))'),
        C(f'C01.scan.{k}.inv.targets', f'forall|j: int| 0 <= j < iter.index@ ==> has_label(*labels, #[trigger] sw_target({d0}, {p0}, {off}, {stride}, j))'),
    ]
    u.fn(R, 'read_code::scan_instruction', ret='res', canary=True,
         synth=dict(sig='pub fn scan_instruction<Rd: CodeReadHelper>(r: &mut Rd, labels: &mut Labels, opcode_pos: u16, code_length: u16) -> Result<()>', body=closure['body'], line=closure['line']),
         requires=common_req,
         rewrites=[(r'align_to_4_byte_boundary\(&mut r\)', 'align_to_4_byte_boundary(r)'),
                   (r'for _ in 0\.\.n\b', 'for _i in iter: 0..n')],
         loops={0: dict(invariant=sw_inv(12, 4, 'tableswitch') + [C('C01.scan.tableswitch.inv.n', f'n as int == sval32({d0}.subrange({q} + 8, {q} + 12)) - sval32({d0}.subrange({q} + 4, {q} + 8)) + 1')]),
                1: dict(invariant=sw_inv(8, 8, 'lookupswitch') + [C('C01.scan.lookupswitch.inv.n', f'n as int == sval32({d0}.subrange({q} + 4, {q} + 8))')])},
         ensures=[
             C('C01.scan.advances-by-the-instruction-length', f'res.is_ok() ==> insn_len({d0}, {p0}) >= 1 && final(r).pos() == {p0} + insn_len({d0}, {p0})'),
             C('C01.scan.frame', f'final(r).data() == {d0} && labels_wf(*final(labels)) && labels_kept(*old(labels), *final(labels))'),
             C('C01.scan.branch16-target-has-label', f'res.is_ok() && is_branch16({op}) ==> has_label(*final(labels), {p0} + sval16({d0}.subrange({p0} + 1, {p0} + 3)))'),
             C('C01.scan.branch32-target-has-label', f'res.is_ok() && is_branch32({op}) ==> has_label(*final(labels), {p0} + sval32({d0}.subrange({p0} + 1, {p0} + 5)))'),
             C('C01.scan.switch-default-has-label', f'res.is_ok() && ({op} == 0xaa || {op} == 0xab) ==> has_label(*final(labels), {p0} + sval32({d0}.subrange({q}, {q} + 4)))'),
             C('C01.scan.tableswitch-entries-have-labels',
               f'res.is_ok() && {op} == 0xaa ==> forall|j: int| 0 <= j < sval32({d0}.subrange({q} + 8, {q} + 12)) - sval32({d0}.subrange({q} + 4, {q} + 8)) + 1 '
               f'==> has_label(*final(labels), #[trigger] sw_target({d0}, {p0}, 12, 4, j))'),
             C('C01.scan.lookupswitch-entries-have-labels',
               f'res.is_ok() && {op} == 0xab ==> forall|j: int| 0 <= j < sval32({d0}.subrange({q} + 4, {q} + 8)) '
               f'==> has_label(*final(labels), #[trigger] sw_target({d0}, {p0}, 8, 8, j))'),
         ])
    u.fn(R, 'read_code::scan_all', ret='res',
         synth=dict(sig='pub fn scan_all<Rd: CodeReadHelper>(r: &mut Rd, labels: &mut Labels, code_length: u16) -> Result<()>', body=loop['body'], line=loop['line']),
         requires=[f'{p0} == 0', f'{d0}.len() <= 65535', 'labels_wf(*old(labels))', f'code_length as int == {d0}.len()'],
         rewrites=[(r'!r\.get_ref\(\)\[\(r\.position\(\)\s+as\s+usize\)\.\.\]\.is_empty\(\)', '!cursor_rest_is_empty(r)'),
                   (r'r\.position\(\)', 'cursor_position(r)')],
         opt_rewrites=[(r'r\.get_ref\(\)\.len\(\)', 'cursor_len(r)'), (r'bytecode\.len\(\)', 'cursor_len(r)')],
         loops={0: dict(invariant=[C('C01.scan_all.inv.pos', f'0 <= r.pos() <= r.data().len()'), C('C01.scan_all.inv.data', f'r.data() == {d0} && {d0}.len() <= 65535 && code_length as int == {d0}.len()'),
                                   C('C01.scan_all.inv.wf', 'labels_wf(*labels)'), C('C01.scan_all.inv.kept', 'labels_kept(*old(labels), *labels)')],
                        decreases='r.data().len() - r.pos()')},
         ensures=[C('C01.scan_all.consumes-exactly-the-code-array', f'res.is_ok() ==> final(r).pos() == {d0}.len()'),
                  C('C01.scan_all.frame', f'final(r).data() == {d0} && labels_wf(*final(labels)) && labels_kept(*old(labels), *final(labels))')])
