"""wannot -- emission of annotations by the class writer (duke/src/simple_class_writer.rs): write_element_value_unnamed,
write_element_values_named, write_element_values_unnamed (mutually recursive over the tree), write_annotations_attribute.

C02: "... a structurally valid class file ... denoting exactly the given class": the bytes appended are exactly the JVMS 4.7.16 / 4.7.16.1
encoding of the stored value -- the tag of its kind (B C D F I J S Z s e c @ [), u2 counts equal to the numbers of pairs / values, every
constant through the index the pool hands out for it at that moment (the pool is threaded: `w_ev(pool, value)` is the pair (bytes, pool
afterwards); put_* are opaque functions of (pool state, operand) returning (index, next state)), nested annotations and arrays in order.
Termination by structural recursion on the tree.  Counts that do not fit u2 make the writer fail cleanly."""
from vx.unit import C
from vx.units._cwrite import add_classwrite

PROPS = ['C02']
W = 'duke/src/simple_class_writer.rs'
A = 'duke/src/tree/annotation.rs'
RLIMIT = 120

STUBS = r'''
// TRUSTED: JavaString / FieldDescriptor / ReturnDescriptor / PoolWrite are opaque; every PoolWrite::put_* is an opaque function of (pool state, operand) returning (index, next pool state) (unit wpool verifies PoolWrite::write; put uses HashMap::entry and stays unverified); as_inner is an opaque accessor
#[verifier::external_body] pub struct JavaString { _p: () }
pub type JavaStr = JavaString;
#[verifier::external_body] pub struct FieldDescriptor { _p: () }
#[verifier::external_body] pub struct ReturnDescriptor { _p: () }
#[verifier::external_body] pub struct PoolWrite { _p: () }
pub uninterp spec fn fd_str(d: FieldDescriptor) -> JavaString;
pub uninterp spec fn rd_str(d: ReturnDescriptor) -> JavaString;
impl FieldDescriptor { #[verifier::external_body] pub fn as_inner(&self) -> (r: &JavaStr) ensures *r == fd_str(*self) { unimplemented!() } }
impl ReturnDescriptor { #[verifier::external_body] pub fn as_inner(&self) -> (r: &JavaStr) ensures *r == rd_str(*self) { unimplemented!() } }
pub uninterp spec fn pw_utf8(p: PoolWrite, s: JavaString) -> (u16, PoolWrite);
pub uninterp spec fn pw_byte(p: PoolWrite, v: i8) -> (u16, PoolWrite);
pub uninterp spec fn pw_char(p: PoolWrite, v: u16) -> (u16, PoolWrite);
pub uninterp spec fn pw_short(p: PoolWrite, v: i16) -> (u16, PoolWrite);
pub uninterp spec fn pw_bool(p: PoolWrite, v: bool) -> (u16, PoolWrite);
pub uninterp spec fn pw_int(p: PoolWrite, v: i32) -> (u16, PoolWrite);
pub uninterp spec fn pw_long(p: PoolWrite, v: i64) -> (u16, PoolWrite);
pub uninterp spec fn pw_float(p: PoolWrite, v: f32) -> (u16, PoolWrite);
pub uninterp spec fn pw_double(p: PoolWrite, v: f64) -> (u16, PoolWrite);
impl PoolWrite {
    #[verifier::external_body] pub fn put_utf8(&mut self, value: &JavaStr) -> (res: Result<u16, VErr>) ensures res matches Ok(i) ==> (i, *final(self)) == pw_utf8(*old(self), *value) { unimplemented!() }
    #[verifier::external_body] pub fn put_byte_as_integer(&mut self, value: i8) -> (res: Result<u16, VErr>) ensures res matches Ok(i) ==> (i, *final(self)) == pw_byte(*old(self), value) { unimplemented!() }
    #[verifier::external_body] pub fn put_char_as_integer(&mut self, value: u16) -> (res: Result<u16, VErr>) ensures res matches Ok(i) ==> (i, *final(self)) == pw_char(*old(self), value) { unimplemented!() }
    #[verifier::external_body] pub fn put_short_as_integer(&mut self, value: i16) -> (res: Result<u16, VErr>) ensures res matches Ok(i) ==> (i, *final(self)) == pw_short(*old(self), value) { unimplemented!() }
    #[verifier::external_body] pub fn put_boolean_as_integer(&mut self, value: bool) -> (res: Result<u16, VErr>) ensures res matches Ok(i) ==> (i, *final(self)) == pw_bool(*old(self), value) { unimplemented!() }
    #[verifier::external_body] pub fn put_integer(&mut self, value: i32) -> (res: Result<u16, VErr>) ensures res matches Ok(i) ==> (i, *final(self)) == pw_int(*old(self), value) { unimplemented!() }
    #[verifier::external_body] pub fn put_long(&mut self, value: i64) -> (res: Result<u16, VErr>) ensures res matches Ok(i) ==> (i, *final(self)) == pw_long(*old(self), value) { unimplemented!() }
    #[verifier::external_body] pub fn put_float(&mut self, value: f32) -> (res: Result<u16, VErr>) ensures res matches Ok(i) ==> (i, *final(self)) == pw_float(*old(self), value) { unimplemented!() }
    #[verifier::external_body] pub fn put_double(&mut self, value: f64) -> (res: Result<u16, VErr>) ensures res matches Ok(i) ==> (i, *final(self)) == pw_double(*old(self), value) { unimplemented!() }
}
'''

ENC = r'''
// ---- JVMS 4.7.16.1 element_value, threaded through the pool: (bytes, pool afterwards) ----
pub open spec fn w_const(p: PoolWrite, o: Object) -> (Seq<u8>, PoolWrite) {
    match o {
        Object::Byte(v) => (seq![66u8] + be16(pw_byte(p, v).0), pw_byte(p, v).1),
        Object::Char(v) => (seq![67u8] + be16(pw_char(p, v).0), pw_char(p, v).1),
        Object::Double(v) => (seq![68u8] + be16(pw_double(p, v).0), pw_double(p, v).1),
        Object::Float(v) => (seq![70u8] + be16(pw_float(p, v).0), pw_float(p, v).1),
        Object::Integer(v) => (seq![73u8] + be16(pw_int(p, v).0), pw_int(p, v).1),
        Object::Long(v) => (seq![74u8] + be16(pw_long(p, v).0), pw_long(p, v).1),
        Object::Short(v) => (seq![83u8] + be16(pw_short(p, v).0), pw_short(p, v).1),
        Object::Boolean(v) => (seq![90u8] + be16(pw_bool(p, v).0), pw_bool(p, v).1),
        Object::String(s) => (seq![115u8] + be16(pw_utf8(p, s).0), pw_utf8(p, s).1),
    }
}
pub open spec fn w_ev(p: PoolWrite, v: ElementValue) -> (Seq<u8>, PoolWrite) decreases v, 0int {
    match v {
        ElementValue::Object(o) => w_const(p, o),
        ElementValue::Enum { type_name, const_name } => {
            let a = pw_utf8(p, fd_str(type_name)); let b = pw_utf8(a.1, const_name);
            (seq![101u8] + be16(a.0) + be16(b.0), b.1)
        },
        ElementValue::Class(c) => (seq![99u8] + be16(pw_utf8(p, rd_str(c)).0), pw_utf8(p, rd_str(c)).1),
        ElementValue::AnnotationInterface(a) => {
            let t = pw_utf8(p, fd_str(a.annotation_type));
            let r = w_pairs_to(t.1, a.element_value_pairs@, a.element_value_pairs@.len() as int);
            (seq![64u8] + be16(t.0) + be16(a.element_value_pairs@.len() as u16) + r.0, r.1)
        },
        ElementValue::ArrayType(vs) => {
            let r = w_vals_to(p, vs@, vs@.len() as int);
            (seq![91u8] + be16(vs@.len() as u16) + r.0, r.1)
        },
    }
}
pub open spec fn w_pairs_to(p: PoolWrite, ps: Seq<ElementValuePair>, k: int) -> (Seq<u8>, PoolWrite) decreases ps, k {
    if 0 < k <= ps.len() {
        let r = w_pairs_to(p, ps, k - 1);
        let n = pw_utf8(r.1, ps[k - 1].name);
        let e = w_ev(n.1, ps[k - 1].value);
        (r.0 + be16(n.0) + e.0, e.1)
    } else { (Seq::<u8>::empty(), p) }
}
pub open spec fn w_vals_to(p: PoolWrite, vs: Seq<ElementValue>, k: int) -> (Seq<u8>, PoolWrite) decreases vs, k {
    if 0 < k <= vs.len() {
        let r = w_vals_to(p, vs, k - 1);
        let e = w_ev(r.1, vs[k - 1]);
        (r.0 + e.0, e.1)
    } else { (Seq::<u8>::empty(), p) }
}
// JVMS 4.7.16: u2 num_annotations, then per annotation u2 type_index, u2 num_element_value_pairs, the pairs
pub open spec fn w_annots_to(p: PoolWrite, xs: Seq<Annotation>, k: int) -> (Seq<u8>, PoolWrite) decreases k {
    if 0 < k <= xs.len() {
        let r = w_annots_to(p, xs, k - 1);
        let t = pw_utf8(r.1, fd_str(xs[k - 1].annotation_type));
        let e = w_pairs_to(t.1, xs[k - 1].element_value_pairs@, xs[k - 1].element_value_pairs@.len() as int);
        (r.0 + be16(t.0) + be16(xs[k - 1].element_value_pairs@.len() as u16) + e.0, e.1)
    } else { (Seq::<u8>::empty(), p) }
}
'''

W0, P0 = 'old(writer).bytes()', '*old(pool)'


def build(u):
    u.preamble('common.rs')
    u.preamble('bytes.rs')
    add_classwrite(u, [])
    u.raw(STUBS)
    u.item(A, 'enum', 'Object', derives=[])
    u.item(A, 'struct', 'Annotation', derives=[])
    u.item(A, 'struct', 'ElementValuePair', derives=[])
    u.item(A, 'enum', 'ElementValue', derives=[])
    u.raw(ENC)
    sig = [(r"<'a: 'b, 'b>", '<Wr: ClassWrite>'), (r'writer: &mut impl ClassWrite', 'writer: &mut Wr'), (r"PoolWrite<'b>", 'PoolWrite'), (r"&'a ", '&')]
    deref = [(r'&Object::(\w+)\((\w+)\) => \{', r'Object::\1(\2_) => { let \2 = *\2_;')]
    u.drop('`match object { &Object::X(v) => .. }` -> `match object { Object::X(v_) => { let v = *v_; .. } }` (Verus: ref patterns not supported; desugaring)')
    fr = 'final(writer).infallible() == old(writer).infallible()'
    # ---- one value
    u.fn(W, 'write_element_value_unnamed', ret='res', canary=True, sig_rewrites=sig, opt_rewrites=deref, decreases='value',
         ensures=[C('C02.annot.value.appends-exactly-the-jvms-encoding-of-the-stored-value', f'res.is_ok() ==> final(writer).bytes() == {W0} + w_ev({P0}, *value).0 && *final(pool) == w_ev({P0}, *value).1'),
                  C('C02.annot.value.sink-kind-kept', fr)])
    # ---- pairs
    n = 'pairs@.len()'
    u.fn(W, 'write_element_values_named', ret='res', sig_rewrites=sig, decreases='pairs',
         rewrites=[(r'for pair in pairs', 'for pair in iter: pairs')],
         loops={0: dict(invariant=[C('C02.annot.named.inv', f'{n} <= 65535 && writer.bytes() == {W0} + be16({n} as u16) + w_pairs_to({P0}, pairs@, iter.index@ as int).0 '
                                                            f'&& *pool == w_pairs_to({P0}, pairs@, iter.index@ as int).1 && writer.infallible() == old(writer).infallible()')],
                        body_end=f'proof {{ let k = iter.index@ as int; assert(writer.bytes() =~= {W0} + be16({n} as u16) + w_pairs_to({P0}, pairs@, k + 1).0); }}')},
         ensures=[C('C02.annot.named.appends-count-and-every-pair-in-order',
                    f'res.is_ok() ==> {n} <= 65535 && final(writer).bytes() == {W0} + be16({n} as u16) + w_pairs_to({P0}, pairs@, {n} as int).0 && *final(pool) == w_pairs_to({P0}, pairs@, {n} as int).1'),
                  C('C02.annot.named.sink-kind-kept', fr)])
    m = 'element_values@.len()'
    u.fn(W, 'write_element_values_unnamed', ret='res', sig_rewrites=sig, decreases='element_values',
         rewrites=[(r'for value in element_values', 'for value in iter: element_values')],
         loops={0: dict(invariant=[C('C02.annot.unnamed.inv', f'{m} <= 65535 && writer.bytes() == {W0} + be16({m} as u16) + w_vals_to({P0}, element_values@, iter.index@ as int).0 '
                                                              f'&& *pool == w_vals_to({P0}, element_values@, iter.index@ as int).1 && writer.infallible() == old(writer).infallible()')],
                        body_end=f'proof {{ let k = iter.index@ as int; assert(writer.bytes() =~= {W0} + be16({m} as u16) + w_vals_to({P0}, element_values@, k + 1).0); }}')},
         ensures=[C('C02.annot.unnamed.appends-count-and-every-value-in-order',
                    f'res.is_ok() ==> {m} <= 65535 && final(writer).bytes() == {W0} + be16({m} as u16) + w_vals_to({P0}, element_values@, {m} as int).0 && *final(pool) == w_vals_to({P0}, element_values@, {m} as int).1'),
                  C('C02.annot.unnamed.sink-kind-kept', fr)])
    a = 'annotations@.len()'
    u.fn(W, 'write_annotations_attribute', ret='res', sig_rewrites=sig,
         rewrites=[(r'for annotation in annotations', 'for annotation in iter: annotations')],
         loops={0: dict(invariant=[C('C02.annot.attribute.inv', f'{a} <= 65535 && writer.bytes() == {W0} + be16({a} as u16) + w_annots_to({P0}, annotations@, iter.index@ as int).0 '
                                                                f'&& *pool == w_annots_to({P0}, annotations@, iter.index@ as int).1 && writer.infallible() == old(writer).infallible()')],
                        body_end=f'proof {{ let k = iter.index@ as int; assert(writer.bytes() =~= {W0} + be16({a} as u16) + w_annots_to({P0}, annotations@, k + 1).0); }}')},
         ensures=[C('C02.annot.attribute.appends-count-and-every-annotation-in-order',
                    f'res.is_ok() ==> {a} <= 65535 && final(writer).bytes() == {W0} + be16({a} as u16) + w_annots_to({P0}, annotations@, {a} as int).0 && *final(pool) == w_annots_to({P0}, annotations@, {a} as int).1'),
                  C('C02.annot.attribute.sink-kind-kept', fr)])

    # ---------------------------------------------------------------- type annotations (class / field / method level and inside Code)
    u.raw(r'''
// TRUSTED: TypePath / TargetInfoCode / writer Labels are opaque here; write_type_path, TargetInfoWrite::write_type_reference and write_type_reference_code carry the contracts unit wtypes proves for the first two (appends exactly enc(value), fails only with the sink / an unknown label) through the opaque encodings enc_path / T::enc_target / enc_target_code
#[verifier::external_body] pub struct TypePath { _p: () }
#[verifier::external_body] pub struct TargetInfoCode { _p: () }
#[verifier::external_body] pub struct Labels { _p: () }
pub uninterp spec fn enc_path(v: TypePath) -> Seq<u8>;
pub uninterp spec fn enc_target_code(v: TargetInfoCode, l: Labels) -> Seq<u8>;
#[verifier::external_body]
pub fn write_type_path<Wr: ClassWrite>(writer: &mut Wr, type_path: &TypePath) -> (res: Result<(), VErr>)
    ensures res.is_ok() ==> final(writer).bytes() == old(writer).bytes() + enc_path(*type_path), final(writer).infallible() == old(writer).infallible()
{ unimplemented!() }
#[verifier::external_body]
pub fn write_type_reference_code<Wr: ClassWrite>(writer: &mut Wr, type_reference: &TargetInfoCode, labels: &Labels) -> (res: Result<(), VErr>)
    ensures res.is_ok() ==> final(writer).bytes() == old(writer).bytes() + enc_target_code(*type_reference, *labels), final(writer).infallible() == old(writer).infallible()
{ unimplemented!() }
pub trait TargetInfoWrite: Sized {
    spec fn enc_target(v: Self) -> Seq<u8>;
    fn write_type_reference<Wr: ClassWrite>(writer: &mut Wr, type_reference: &Self) -> (res: Result<(), VErr>)
        ensures res.is_ok() ==> final(writer).bytes() == old(writer).bytes() + Self::enc_target(*type_reference), final(writer).infallible() == old(writer).infallible();
}
''')
    TA = 'duke/src/tree/type_annotation.rs'
    u.item(TA, 'struct', 'TypeAnnotation', derives=[])
    u.raw(r'''
// JVMS 4.7.20: per type_annotation: target_type + target_info, type_path, u2 type_index, u2 num_element_value_pairs, the pairs
pub open spec fn w_tas_to<T: TargetInfoWrite>(p: PoolWrite, xs: Seq<TypeAnnotation<T>>, k: int) -> (Seq<u8>, PoolWrite) decreases k {
    if 0 < k <= xs.len() {
        let r = w_tas_to(p, xs, k - 1);
        let x = xs[k - 1];
        let t = pw_utf8(r.1, fd_str(x.annotation.annotation_type));
        let e = w_pairs_to(t.1, x.annotation.element_value_pairs@, x.annotation.element_value_pairs@.len() as int);
        (r.0 + T::enc_target(x.type_reference) + enc_path(x.type_path) + be16(t.0) + be16(x.annotation.element_value_pairs@.len() as u16) + e.0, e.1)
    } else { (Seq::<u8>::empty(), p) }
}
pub open spec fn w_tas_code_to(p: PoolWrite, l: Labels, xs: Seq<TypeAnnotation<TargetInfoCode>>, k: int) -> (Seq<u8>, PoolWrite) decreases k {
    if 0 < k <= xs.len() {
        let r = w_tas_code_to(p, l, xs, k - 1);
        let x = xs[k - 1];
        let t = pw_utf8(r.1, fd_str(x.annotation.annotation_type));
        let e = w_pairs_to(t.1, x.annotation.element_value_pairs@, x.annotation.element_value_pairs@.len() as int);
        (r.0 + enc_target_code(x.type_reference, l) + enc_path(x.type_path) + be16(t.0) + be16(x.annotation.element_value_pairs@.len() as u16) + e.0, e.1)
    } else { (Seq::<u8>::empty(), p) }
}
''')
    t = 'type_annotations@.len()'
    sigc = [(r'writer: &mut impl ClassWrite', 'writer: &mut Wr'), (r"PoolWrite<'b>", 'PoolWrite'), (r"&'a ", '&')]
    sigs = {'write_type_annotations_attribute': [(r"<'a: 'b, 'b, T: TargetInfoWrite>", '<Wr: ClassWrite, T: TargetInfoWrite>')] + sigc,
            'write_type_annotations_attribute_code': [(r"<'a: 'b, 'b>", '<Wr: ClassWrite>')] + sigc}
    for fname, spec, rw in (('write_type_annotations_attribute', 'w_tas_to::<T>({P}, type_annotations@, {k})', [(r'\bTargetInfoWrite::write_type_reference\(', 'T::write_type_reference(')]),
                            ('write_type_annotations_attribute_code', 'w_tas_code_to({P}, *labels, type_annotations@, {k})', [])):
        sp = lambda k: spec.format(P=P0, k=k)  # noqa: E731
        u.fn(W, fname, ret='res', sig_rewrites=sigs[fname], opt_rewrites=rw,
             rewrites=[(r'for type_annotation in type_annotations', 'for type_annotation in iter: type_annotations')],
             loops={0: dict(invariant=[C(f'C02.annot.{fname}.inv', f'{t} <= 65535 && writer.bytes() == {W0} + be16({t} as u16) + {sp("iter.index@ as int")}.0 '
                                                                   f'&& *pool == {sp("iter.index@ as int")}.1 && writer.infallible() == old(writer).infallible()')],
                            body_end=f'proof {{ let k = iter.index@ as int; assert(writer.bytes() =~= {W0} + be16({t} as u16) + {sp("k + 1")}.0); }}')},
             ensures=[C(f'C02.annot.{fname}.appends-count-and-per-type-annotation-target-path-type-and-pairs-in-order',
                        f'res.is_ok() ==> {t} <= 65535 && final(writer).bytes() == {W0} + be16({t} as u16) + {sp(t + " as int")}.0 && *final(pool) == {sp(t + " as int")}.1'),
                      C(f'C02.annot.{fname}.sink-kind-kept', fr)])
