"""rtables -- the label-carrying tables of a Code attribute (duke/src/class_reader.rs read_code), lifted as regions:

  * the element closure of the exception table  `|r| Ok(Exception { start: .., end: .., handler: .., catch: .. })`  -> fn read_exception
  * the LineNumberTable loop                                                                                          -> fn read_line_numbers
  * the LocalVariableTable / LocalVariableTypeTable loops                                                             -> fn read_local_variables / read_local_variable_types

JVMS 4.7.3: an exception_table entry is u2 start_pc, u2 end_pc, u2 handler_pc, u2 catch_type; start_pc and handler_pc are indices of
instructions (< code_length), end_pc is exclusive and may equal code_length.  JVMS 4.7.12: line_number_table entries are u2 start_pc (<
code_length), u2 line_number.  JVMS 4.7.13/14: u2 start_pc, u2 length (start_pc + length <= code_length), u2 name, u2 descriptor/signature,
u2 index.  Every entry the reader accepts is attached to the labels of exactly those offsets; an entry is accepted exactly when the
offsets are in range (and the pool entries resolve); the reader consumes exactly the entry."""
import re

from vx.unit import C
from vx.rustcut import CutError, code_mask, match_close
from vx.units._cread import add_classread
from vx.units.rlabels import add_reader_labels
from vx.units.rbranch import add_branch_helpers

PROPS = ['C01']
RLIMIT = 50
R = 'duke/src/class_reader.rs'
CODE = 'duke/src/tree/method/code.rs'

STUBS = r'''
// TRUSTED: ClassName / LocalVariableName / FieldDescriptor / FieldSignature / JavaString / PoolRead are opaque here; the pool accessors are assumed to be functions of (pool, index) (unit rpool verifies the pool layout)
#[verifier::external_body] pub struct ClassName { _p: () }
#[verifier::external_body] pub struct LocalVariableName { _p: () }
#[verifier::external_body] pub struct FieldDescriptor { _p: () }
#[verifier::external_body] pub struct FieldSignature { _p: () }
#[verifier::external_body] pub struct JavaString { _p: () }
#[verifier::external_body] pub struct PoolRead { _p: () }
pub uninterp spec fn sp_class(pool: PoolRead, index: u16) -> Option<ClassName>;   // None: does not resolve
pub uninterp spec fn sp_utf8(pool: PoolRead, index: u16) -> Option<JavaString>;
pub uninterp spec fn sp_lv_name(s: JavaString) -> Option<LocalVariableName>;
pub uninterp spec fn sp_field_desc(s: JavaString) -> Option<FieldDescriptor>;
pub uninterp spec fn sp_field_sig(s: JavaString) -> Option<FieldSignature>;
impl PoolRead {
    // `pool.get_optional(i, PoolRead::get_class)`: index 0 means "no entry" (JVMS: catch_type 0 = catch all)
    #[verifier::external_body] pub fn get_optional_class(&self, index: u16) -> (res: Result<Option<ClassName>, VErr>)
        ensures res.is_ok() <==> (index == 0 || sp_class(*self, index) is Some), res matches Ok(v) ==> v == (if index == 0 { None } else { sp_class(*self, index) }) { unimplemented!() }
    #[verifier::external_body] pub fn get_utf8(&self, index: u16) -> (res: Result<JavaString, VErr>)
        ensures res.is_ok() <==> sp_utf8(*self, index) is Some, res matches Ok(v) ==> Some(v) == sp_utf8(*self, index) { unimplemented!() }
}
impl LocalVariableName { #[verifier::external_body] pub fn try_from(s: JavaString) -> (res: Result<Self, VErr>)
    ensures res.is_ok() <==> sp_lv_name(s) is Some, res matches Ok(v) ==> Some(v) == sp_lv_name(s) { unimplemented!() } }
impl FieldDescriptor { #[verifier::external_body] pub fn try_from(s: JavaString) -> (res: Result<Self, VErr>)
    ensures res.is_ok() <==> sp_field_desc(s) is Some, res matches Ok(v) ==> Some(v) == sp_field_desc(s) { unimplemented!() } }
impl FieldSignature { #[verifier::external_body] pub fn try_from(s: JavaString) -> (res: Result<Self, VErr>)
    ensures res.is_ok() <==> sp_field_sig(s) is Some, res matches Ok(v) ==> Some(v) == sp_field_sig(s) { unimplemented!() } }

pub open spec fn u16_at(d: Seq<u8>, p: int) -> int { val16(d.subrange(p, p + 2)) }
pub open spec fn has_label(l: Labels, t: int) -> bool { 0 <= t <= 65535 && l.labels@.contains_key(t as u16) }
pub open spec fn label_at(l: Labels, t: int) -> Label { l.labels@[t as u16] }
pub open spec fn labels_kept(a: Labels, b: Labels) -> bool {
    b.code_length == a.code_length
    && forall|k: u16| #![trigger b.labels@.contains_key(k)] #![trigger a.labels@.contains_key(k)] a.labels@.contains_key(k) ==> b.labels@.contains_key(k) && b.labels@[k] == a.labels@[k]
}
// JVMS 4.7.12: entry k of a line_number_table that starts (with its u2 length) at p
pub open spec fn line_entry_ok(d: Seq<u8>, p: int, k: int, l: Labels, e: (Label, u16)) -> bool {
    has_label(l, u16_at(d, p + 2 + 4 * k)) && e.0 == label_at(l, u16_at(d, p + 2 + 4 * k)) && e.1 as int == u16_at(d, p + 4 + 4 * k)
}
// JVMS 4.7.13 / 4.7.14: entry k of a local_variable(_type)_table that starts at p; `typed` selects the signature column
pub open spec fn lv_entry_ok(d: Seq<u8>, p: int, k: int, l: Labels, pool: PoolRead, e: Lv, typed: bool) -> bool {
    let q = p + 2 + 10 * k;
    let s = u16_at(d, q);
    let n = u16_at(d, q + 2);
    &&& s + n <= l.code_length && has_label(l, s) && has_label(l, s + n)
    &&& e.range.start == label_at(l, s) && e.range.end == label_at(l, s + n)
    &&& sp_utf8(pool, u16_at(d, q + 4) as u16) is Some && Some(e.name) == sp_lv_name(sp_utf8(pool, u16_at(d, q + 4) as u16).unwrap())
    &&& sp_utf8(pool, u16_at(d, q + 6) as u16) is Some
    &&& (!typed ==> e.signature is None && e.descriptor is Some && e.descriptor == sp_field_desc(sp_utf8(pool, u16_at(d, q + 6) as u16).unwrap()))
    &&& (typed ==> e.descriptor is None && e.signature is Some && e.signature == sp_field_sig(sp_utf8(pool, u16_at(d, q + 6) as u16).unwrap()))
    &&& e.index.index as int == u16_at(d, q + 8)
}
'''


def exception_closure(u):
    s = u.src(R)
    f = s.cut_fn('read_code')
    body, mask = f['body'], code_mask(f['body'])
    m = re.search(r'let\s+exception_table\s*=\s*reader\.read_vec\(', mask)
    if not m:
        raise CutError('read_code: `let exception_table = reader.read_vec(` not found')
    cl = match_close(mask, m.end() - 1)
    inner = mask[m.end():cl]
    ms = list(re.finditer(r'\|r\|\s*Ok\(Exception\s*\{', inner))
    if len(ms) != 1:
        raise CutError('read_code: element closure `|r| Ok(Exception {` of the exception table not found')
    st = m.end() + ms[0].start()
    okp = mask.find('(', mask.find('Ok', st))
    okc = match_close(mask, okp)
    u.drop('region of read_code lifted into a function: element closure of the exception table `|r| Ok(Exception {..})` -> fn read_exception(r, labels, pool)')
    return dict(body='{ ' + body[mask.find('Ok', st):okc + 1] + ' }', line=s.line_of(f['open'] + st))


def arm_loop(u, attr, what):
    """the body of the interested arm `name if name == attribute::<attr> => { .. }` of read_code, from its `let <x>_length = reader.read_u16()?;` to the end of the for loop"""
    s = u.src(R)
    f = s.cut_fn('read_code')
    body, mask = f['body'], code_mask(f['body'])
    ms = [m for m in re.finditer(r'name\s+if\s+name\s*==\s*attribute::' + attr + r'\s*=>\s*\{', mask)]
    if len(ms) != 1:
        raise CutError(f'read_code: interested arm of attribute::{attr} not found')
    ob = ms[0].end() - 1
    cb = match_close(mask, ob)
    m = re.compile(r'let\s+\w+_length\s*=\s*reader\.read_u16\(\)\?\s*;\s*for\s+_\s+in\s+0\.\.\w+_length\s*\{').search(mask, ob, cb)
    if not m:
        raise CutError(f'read_code: table loop of attribute::{attr} not found')
    end = match_close(mask, m.end() - 1)
    u.drop(f'region of read_code lifted into a function: {what}')
    return dict(text=body[m.start():end + 1], line=s.line_of(f['open'] + m.start()))


def build(u):
    u.preamble('common.rs')
    u.preamble('bytes.rs')
    u.preamble('rbytes.rs')
    add_classread(u, [], with_pos=False)
    add_reader_labels(u, [])
    add_branch_helpers(u, [])
    u.raw(STUBS.split('pub open spec fn u16_at')[0])
    u.item(CODE, 'struct', 'Exception', derives=[])
    u.item(CODE, 'struct', 'Lv', derives=[])
    u.raw('pub open spec fn u16_at' + STUBS.split('pub open spec fn u16_at')[1])

    d0, p0, l0 = 'old(r).data()', 'old(r).pos()', '*old(labels)'
    ex = exception_closure(u)
    rng = f'u16_at({d0}, {p0}) < old(labels).code_length && u16_at({d0}, {p0} + 2) <= old(labels).code_length && u16_at({d0}, {p0} + 4) < old(labels).code_length'
    u.fn(R, 'read_code::read_exception', ret='res', canary=True,
         synth=dict(sig='pub fn read_exception<Rd: ClassRead>(r: &mut Rd, labels: &mut Labels, pool: &PoolRead) -> Result<Exception>', body=ex['body'], line=ex['line']),
         requires=[f'0 <= {p0}', 'labels_wf(*old(labels))'],
         rewrites=[(r'pool\.get_optional\(([^,]+),\s*PoolRead::get_class\)', r'pool.get_optional_class(\1)')],
         ensures=[
             C('C01.exception.accepted-iff-offsets-in-range-per-jvms-4.7.3',
               f'res.is_ok() <==> ({p0} + 8 <= {d0}.len() && {rng} && (u16_at({d0}, {p0} + 6) == 0 || sp_class(*pool, u16_at({d0}, {p0} + 6) as u16) is Some))'),
             C('C01.exception.range-and-handler-attached-to-their-offsets',
               f'res matches Ok(e) ==> has_label(*final(labels), u16_at({d0}, {p0})) && e.start == label_at(*final(labels), u16_at({d0}, {p0})) '
               f'&& has_label(*final(labels), u16_at({d0}, {p0} + 2)) && e.end == label_at(*final(labels), u16_at({d0}, {p0} + 2)) '
               f'&& has_label(*final(labels), u16_at({d0}, {p0} + 4)) && e.handler == label_at(*final(labels), u16_at({d0}, {p0} + 4))'),
             C('C01.exception.catch-type-resolved-from-its-index', f'res matches Ok(e) ==> e.catch == (if u16_at({d0}, {p0} + 6) == 0 {{ None }} else {{ sp_class(*pool, u16_at({d0}, {p0} + 6) as u16) }})'),
             C('C01.exception.consumes-8-bytes', f'res.is_ok() ==> final(r).pos() == {p0} + 8'),
             C('C01.exception.frame', f'final(r).data() == {d0} && labels_wf(*final(labels)) && labels_kept({l0}, *final(labels))'),
         ])

    d0, p0 = 'old(reader).data()', 'old(reader).pos()'
    frame = f'reader.data() == {d0} && 0 <= {p0} && labels_wf(*labels) && labels_kept({l0}, *labels)'
    ln = arm_loop(u, 'LINE_NUMBER_TABLE', 'the LineNumberTable loop -> fn read_line_numbers(reader, labels, table)')
    u.fn(R, 'read_code::read_line_numbers', ret='res',
         synth=dict(sig='pub fn read_line_numbers<Rd: ClassRead>(reader: &mut Rd, labels: &mut Labels, table: &mut Vec<(Label, u16)>) -> Result<()>',
                    body='{ ' + ln['text'] + ' Ok(()) }', line=ln['line']),
         requires=[f'0 <= {p0}', 'labels_wf(*old(labels))'],
         rewrites=[(r'for _ in 0\.\.line_number_table_length', 'for _i in iter: 0..line_number_table_length')],
         loops={0: dict(invariant=[
             C('C01.lines.inv.position', f'reader.pos() == {p0} + 2 + 4 * iter.index@ && line_number_table_length as int == u16_at({d0}, {p0})'),
             C('C01.lines.inv.frame', frame),
             C('C01.lines.inv.entries', f'table@.len() == old(table)@.len() + iter.index@ && (forall|j: int| 0 <= j < old(table)@.len() ==> table@[j] == old(table)@[j]) '
                                        f'&& (forall|k: int| 0 <= k < iter.index@ ==> #[trigger] line_entry_ok({d0}, {p0}, k, *labels, table@[old(table)@.len() + k]))'),
         ], body_start='let ghost lb = *labels;',
            body_end=f'proof {{ assert(labels_kept(lb, *labels)); assert forall|k: int| 0 <= k < iter.index@ implies #[trigger] line_entry_ok({d0}, {p0}, k, *labels, table@[old(table)@.len() + k]) by {{ assert(line_entry_ok({d0}, {p0}, k, lb, table@[old(table)@.len() + k])); }} }}')},
         ensures=[
             C('C01.lines.every-entry-attached-to-its-start-pc',
               f'res.is_ok() ==> final(table)@.len() == old(table)@.len() + u16_at({d0}, {p0}) && (forall|j: int| 0 <= j < old(table)@.len() ==> final(table)@[j] == old(table)@[j]) '
               f'&& (forall|k: int| 0 <= k < u16_at({d0}, {p0}) ==> #[trigger] line_entry_ok({d0}, {p0}, k, *final(labels), final(table)@[old(table)@.len() + k]))'),
             C('C01.lines.consumes-exactly-the-table', f'res.is_ok() ==> final(reader).pos() == {p0} + 2 + 4 * u16_at({d0}, {p0})'),
             C('C01.lines.frame', f'final(reader).data() == {d0} && labels_wf(*final(labels)) && labels_kept({l0}, *final(labels))'),
         ])

    for attr, fname, typed, lenvar in (('LOCAL_VARIABLE_TABLE', 'read_local_variables', 'false', 'local_variable_table_length'),
                                      ('LOCAL_VARIABLE_TYPE_TABLE', 'read_local_variable_types', 'true', 'local_variable_type_table_length')):
        lv = arm_loop(u, attr, f'the {attr} loop -> fn {fname}(reader, labels, pool, table)')
        u.fn(R, f'read_code::{fname}', ret='res',
             synth=dict(sig=f'pub fn {fname}<Rd: CodeReadHelper>(reader: &mut Rd, labels: &mut Labels, pool: &PoolRead, table: &mut Vec<Lv>) -> Result<()>',
                        body='{ ' + lv['text'] + ' Ok(()) }', line=lv['line']),
             requires=[f'0 <= {p0}', 'labels_wf(*old(labels))'],
             rewrites=[(rf'for _ in 0\.\.{lenvar}', f'for _i in iter: 0..{lenvar}')],
             loops={0: dict(invariant=[
                 C(f'C01.{fname}.inv.position', f'reader.pos() == {p0} + 2 + 10 * iter.index@ && {lenvar} as int == u16_at({d0}, {p0})'),
                 C(f'C01.{fname}.inv.frame', frame),
                 C(f'C01.{fname}.inv.entries', f'table@.len() == old(table)@.len() + iter.index@ && (forall|j: int| 0 <= j < old(table)@.len() ==> table@[j] == old(table)@[j]) '
                                               f'&& (forall|k: int| 0 <= k < iter.index@ ==> #[trigger] lv_entry_ok({d0}, {p0}, k, *labels, *pool, table@[old(table)@.len() + k], {typed}))'),
             ], body_start='let ghost lb = *labels;',
                body_end=f'proof {{ assert(labels_kept(lb, *labels)); assert forall|k: int| 0 <= k < iter.index@ implies #[trigger] lv_entry_ok({d0}, {p0}, k, *labels, *pool, table@[old(table)@.len() + k], {typed}) by '
                         f'{{ assert(lv_entry_ok({d0}, {p0}, k, lb, *pool, table@[old(table)@.len() + k], {typed})); }} }}')},
             ensures=[
                 C(f'C01.{fname}.every-entry-resolves-through-the-label-table-and-the-pool',
                   f'res.is_ok() ==> final(table)@.len() == old(table)@.len() + u16_at({d0}, {p0}) && (forall|j: int| 0 <= j < old(table)@.len() ==> final(table)@[j] == old(table)@[j]) '
                   f'&& (forall|k: int| 0 <= k < u16_at({d0}, {p0}) ==> #[trigger] lv_entry_ok({d0}, {p0}, k, *final(labels), *pool, final(table)@[old(table)@.len() + k], {typed}))'),
                 C(f'C01.{fname}.consumes-exactly-the-table', f'res.is_ok() ==> final(reader).pos() == {p0} + 2 + 10 * u16_at({d0}, {p0})'),
                 C(f'C01.{fname}.frame', f'final(reader).data() == {d0} && labels_wf(*final(labels)) && labels_kept({l0}, *final(labels))'),
             ])
