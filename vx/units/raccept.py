"""raccept -- replaying an in-memory class into a visitor (duke/src/tree/{class,field,method,record}.rs and tree/method/code.rs `accept`)
and the delivering tail of the code reader (duke/src/class_reader.rs read_code).

C17: "replaying an in-memory class into a visitor delivers the same events as reading its bytes".  C01: "exception ranges, debug tables
... nothing is dropped".  The visitor traits of duke/src/visitor/*.rs are cut whole and get a ghost event log (vx/units/_visit.py):
every visit call appends one event that carries its arguments; `visit_x(self, ..) -> (residual, sub_visitor)` /
`finish_x(residual, sub_visitor)` pairs append a begin event (with the `visible` flag) and an items event with what the sub-visitor
received.  Each `accept` is then verified, whole and unmodified, against `*_replay(item, interests)`: the log it must have produced when
it hands the visitor back -- every fact the item holds and the visitor is interested in, once, with the right flag; nothing for an
uninterested visitor.  The specification is generated from the table REPLAY below, which is written from the property statement, the
*Interests structs and the JVMS attribute list (what a full read of the corresponding bytes delivers)."""
import re

from vx.unit import C
from vx.rustcut import CutError, code_mask, match_close
from vx.units._visit import spec_trait, opaque

PROPS = ['C17']
T = 'duke/src/tree/'
V = 'duke/src/visitor/'
R = 'duke/src/class_reader.rs'

OPAQUE = ['Instruction', 'StackMapData', 'Exception', 'Lv', 'Attribute', 'TargetInfoCode', 'TargetInfoMethod', 'TargetInfoField', 'TargetInfoClass',
          'ClassName', 'JavaString', 'PoolRead', 'Annotation', 'ElementValue', 'MethodSignature', 'MethodParameter', 'MethodAccess', 'MethodName', 'MethodDescriptor',
          'FieldAccess', 'FieldName', 'FieldDescriptor', 'FieldSignature', 'ConstantValue', 'RecordName', 'InnerClass', 'EnclosingMethod', 'ClassSignature', 'Module',
          'PackageName', 'ObjClassName', 'ClassAccess', 'Version']

COMMON = r'''
// TRUSTED: opaque stand-ins for duke's tree payload types (only moved into visitor calls); std::ops::ControlFlow (same two variants); Annotation / TypeAnnotation / ElementValue ::accept are assumed to hand the item to the sub-visitor (its `items()` grows by exactly that item)
pub enum ControlFlow<B, C> { Continue(C), Break(B) }
#[verifier::external_body] #[verifier::accept_recursive_types(T)] pub struct TypeAnnotation<T> { _p: core::marker::PhantomData<T> }
pub trait AnnotationsVisitor: Sized { spec fn items(&self) -> Seq<Annotation>; }
pub trait TypeAnnotationsVisitor<T>: Sized { spec fn items(&self) -> Seq<TypeAnnotation<T>>; }
pub trait UnnamedElementValueVisitor: Sized { spec fn items(&self) -> Seq<ElementValue>; }
impl Annotation {
    #[verifier::external_body] pub fn accept<A: AnnotationsVisitor>(self, visitor: A) -> (res: Result<A, VErr>)
        ensures res matches Ok(w) ==> w.items() == visitor.items().push(self) { unimplemented!() }
}
impl<T> TypeAnnotation<T> {
    #[verifier::external_body] pub fn accept<A: TypeAnnotationsVisitor<T>>(self, visitor: A) -> (res: Result<A, VErr>)
        ensures res matches Ok(w) ==> w.items() == visitor.items().push(self) { unimplemented!() }
}
impl ElementValue {
    #[verifier::external_body] pub fn accept<A: UnnamedElementValueVisitor>(self, outer: A) -> (res: Result<A, VErr>)
        ensures res matches Ok(w) ==> w.items() == outer.items().push(self) { unimplemented!() }
}
'''

UA_GHOST = '''    // ghost: the attribute this value was made from; whether an attribute converts at all
    spec fn src(&self) -> Attribute;
    spec fn convertible(a: Attribute) -> bool;
'''
UA_SPECS = {'from_attribute': ('res', ['res matches Ok(o) ==> (o matches Some(x) ==> x.src() == attribute && Self::convertible(attribute)) && (o is None ==> !Self::convertible(attribute))'])}


def push(ev):
    return f'res.is_ok() ==> final(self).log() == old(self).log().push({ev})'


def sub_pair(E, kind, resid, flag=True):
    """visit_<kind>(self[, visible]) -> (residual, sub) / finish_<kind>(this, sub) -> Self"""
    begin = f'{E}::{kind}(visible)' if flag else f'{E}::{kind}'
    return {
        f'visit_{resid[0]}': ('res', [f'res matches Ok((r, sub)) ==> Self::{resid[1]}(r) == self.log().push({begin}) && sub.items() == Seq::empty()']),
        f'finish_{resid[0]}': ('res', [f'res matches Ok(s) ==> s.log() == Self::{resid[1]}(this).push({E}::{kind}Items({resid[2]}.items()))']),
    }


# ---------------------------------------------------------------------------------------------------------------- code level
CEV = '''
pub enum CEv {
    MaxStackLocals(u16, u16), Instruction(Option<Label>, Option<StackMapData>, Instruction), ExceptionTable(Seq<Exception>), LastLabel(Label),
    LineNumbers(Seq<(Label, u16)>), LocalVariables(Seq<Lv>), TypeAnnotations(bool), TypeAnnotationsItems(Seq<TypeAnnotation<TargetInfoCode>>), Unknown(Attribute),
}
'''
CODE_GHOST = '''    // ghost event log: what this visitor has received so far
    spec fn log(&self) -> Seq<CEv>;
    spec fn ta_residual_log(r: Self::TypeAnnotationsResidual) -> Seq<CEv>;
'''
CODE_SPECS = {
    'visit_max_stack_and_max_locals': ('res', [push('CEv::MaxStackLocals(max_stack, max_locals)')]),
    'visit_exception_table': ('res', [push('CEv::ExceptionTable(exception_table@)')]),
    'visit_instruction': ('res', [push('CEv::Instruction(label, frame, instruction)')]),
    'visit_last_label': ('res', [push('CEv::LastLabel(last_label)')]),
    'visit_line_numbers': ('res', [push('CEv::LineNumbers(line_number_table@)')]),
    'visit_local_variables': ('res', [push('CEv::LocalVariables(local_variables@)')]),
    'visit_unknown_attribute': ('res', [push('CEv::Unknown(unknown_attribute.src())')]),
}
CODE_SPECS.update(sub_pair('CEv', 'TypeAnnotations', ('type_annotations', 'ta_residual_log', 'type_annotations_visitor')))


def staged(pfx, generics, params, args, ev, blocks):
    """spec functions pfx_0 .. pfx_n: the expected log after each block of a replay.  block = (condition or None, [event, ..]) | ('raw', expr using {prev})"""
    out = [f'pub open spec fn {pfx}_0{generics}({params}) -> Seq<{ev}> {{ Seq::empty() }}']
    for j, b in enumerate(blocks, start=1):
        gn = ('::<' + ', '.join(x.split(':')[0].strip() for x in generics.strip('<>').split(',')) + '>') if generics else ''
        prev = f'{pfx}_{j - 1}{gn}({args})'
        if b[0] == 'raw':
            body = b[1].replace('{prev}', prev)
        else:
            cond, events = b
            chain = prev + ''.join(f'.push({e})' for e in events)
            body = f'if {cond} {{ {chain} }} else {{ {prev} }}' if cond else chain
        out.append(f'pub open spec fn {pfx}_{j}{generics}({params}) -> Seq<{ev}> {{ {body} }}')
    return '\n'.join(out) + '\n', len(blocks)


CODE_SPEC = '''
pub open spec fn instr_log(prev: Seq<CEv>, es: Seq<InstructionListEntry>, frames: bool, k: int) -> Seq<CEv> decreases k {
    if k <= 0 { prev } else { instr_log(prev, es, frames, k - 1).push(CEv::Instruction(es[k - 1].label, if frames { es[k - 1].frame } else { None }, es[k - 1].instruction)) }
}
pub open spec fn code_unknown_log<U: UnknownAttributeVisitor>(prev: Seq<CEv>, attrs: Seq<Attribute>, k: int) -> Seq<CEv> decreases k {
    if k <= 0 { prev } else { let p = code_unknown_log::<U>(prev, attrs, k - 1); if U::convertible(attrs[k - 1]) { p.push(CEv::Unknown(attrs[k - 1])) } else { p } }
}
'''
# what replaying a Code must deliver to a visitor with interests `i` (the facts a read of the corresponding Code attribute delivers)
CODE_BLOCKS = [
    ('c.max_stack is Some && c.max_locals is Some', ['CEv::MaxStackLocals(c.max_stack.unwrap(), c.max_locals.unwrap())']),
    ('raw', 'instr_log({prev}, c.instructions@, i.stack_map_table, c.instructions@.len() as int)'),   # frames only to visitors interested in the StackMapTable
    (None, ['CEv::ExceptionTable(c.exception_table@)']),
    ('c.last_label is Some', ['CEv::LastLabel(c.last_label.unwrap())']),
    ('i.line_number_table && c.line_numbers is Some', ['CEv::LineNumbers(c.line_numbers.unwrap()@)']),
    ('(i.local_variable_table || i.local_variable_type_table) && c.local_variables is Some', ['CEv::LocalVariables(c.local_variables.unwrap()@)']),
    ('i.runtime_visible_type_annotations && c.runtime_visible_type_annotations@.len() > 0', ['CEv::TypeAnnotations(true)', 'CEv::TypeAnnotationsItems(c.runtime_visible_type_annotations@)']),
    ('i.runtime_invisible_type_annotations && c.runtime_invisible_type_annotations@.len() > 0', ['CEv::TypeAnnotations(false)', 'CEv::TypeAnnotationsItems(c.runtime_invisible_type_annotations@)']),
    ('raw', 'if i.unknown_attributes { code_unknown_log::<CV::UnknownAttribute>({prev}, c.attributes@, c.attributes@.len() as int) } else { {prev} }'),
]


def items_inv(label, vec, sub):
    return C(label, f'{sub}.items() == {vec}@.subrange(0, iter.index@ as int)')


def whole(vec):
    return f'proof {{ assert({vec}@.subrange(0, {vec}@.len() as int) =~= {vec}@); }}'


def build(u):
    u.preamble('common.rs')
    opaque(u, OPAQUE)
    u.raw(COMMON)
    u.item(T + 'method/code.rs', 'struct', 'Label', derives=['Copy', 'Clone', 'PartialEq', 'Eq'])
    spec_trait(u, V + 'attribute.rs', 'UnknownAttributeVisitor', UA_GHOST, UA_SPECS)
    build_code(u)


def build_code(u):
    u.raw(CEV)
    u.item(V + 'method/code.rs', 'struct', 'CodeInterests', derives=[])
    spec_trait(u, V + 'method/code.rs', 'CodeVisitor', CODE_GHOST, CODE_SPECS)
    u.item(T + 'method/code.rs', 'struct', 'InstructionListEntry', derives=[])
    u.item(T + 'method/code.rs', 'struct', 'Code', derives=[])
    u.raw(CODE_SPEC)
    txt, n = staged('code_replay', '<CV: CodeVisitor>', 'c: Code, i: CodeInterests', 'c, i', 'CEv', CODE_BLOCKS)
    u.raw(txt)
    # a minimal MethodVisitor for Code::accept is part of the method level (build_method); here only what Code::accept uses
    u.raw('''
pub enum MEvCodeOnly { Code }
pub trait MethodVisitor: Sized {
    type CodeVisitor: CodeVisitor;
    spec fn log(&self) -> Seq<MEvCodeOnly>;
    fn visit_code(&mut self) -> (res: Result<Option<Self::CodeVisitor>, VErr>)
        ensures res.is_ok() ==> final(self).log() == old(self).log().push(MEvCodeOnly::Code), res matches Ok(Some(cv)) ==> cv.log() == Seq::<CEv>::empty();
    fn finish_code(&mut self, code_visitor: Self::CodeVisitor) -> (res: Result<(), VErr>)
        ensures res.is_ok() ==> final(self).log() == old(self).log();
}
''')
    S = lambda j: f'code_replay_{j}::<M::CodeVisitor>(self, interests)'
    TA = 'M::CodeVisitor::ta_residual_log(visitor)'
    u.fn(T + 'method/code.rs', 'Code::accept', ret='res', canary=True,
         rewrites=[(r'for instruction in self\.instructions', 'for instruction in iter: self.instructions'),
                   (r'for annotation in self\.runtime_visible_type_annotations', 'for annotation in iter: self.runtime_visible_type_annotations'),
                   (r'for annotation in self\.runtime_invisible_type_annotations', 'for annotation in iter: self.runtime_invisible_type_annotations'),
                   (r'for attribute in self\.attributes', 'for attribute in iter: self.attributes')],
         loops={0: dict(invariant=[C('C17.code.inv.instructions', f'code_visitor.log() == instr_log({S(1)}, self.instructions@, interests.stack_map_table, iter.index@ as int)')]),
                1: dict(invariant=[C('C17.code.inv.visible-type-annotations', f'{TA} == {S(6)}.push(CEv::TypeAnnotations(true))'),
                                   items_inv('C17.code.inv.visible-type-annotations.items', 'self.runtime_visible_type_annotations', 'type_annotations_visitor')],
                        after=whole('self.runtime_visible_type_annotations')),
                2: dict(invariant=[C('C17.code.inv.invisible-type-annotations', f'{TA} == {S(7)}.push(CEv::TypeAnnotations(false))'),
                                   items_inv('C17.code.inv.invisible-type-annotations.items', 'self.runtime_invisible_type_annotations', 'type_annotations_visitor')],
                        after=whole('self.runtime_invisible_type_annotations')),
                3: dict(invariant=[C('C17.code.inv.unknown-attributes', f'code_visitor.log() == code_unknown_log::<<M::CodeVisitor as CodeVisitor>::UnknownAttribute>({S(8)}, self.attributes@, iter.index@ as int)')])},
         asserts=[(('before', r'visitor\.finish_code\(code_visitor\)'),
                   C('C17.code.replay-delivers-every-fact-the-visitor-is-interested-in', f'code_visitor.log() == {S(9)}'))],
         ensures=[C('C17.code.offered-to-the-method-visitor-once', 'res matches Ok(v) ==> v.log() == visitor.log().push(MEvCodeOnly::Code)')])
    build_reader_tail(u)


def build_reader_tail(u):
    """the tail of read_code: everything parsed from the Code attribute's tables is handed to the visitor"""
    s = u.src(R)
    f = s.cut_fn('read_code')
    body, mask = f['body'], code_mask(f['body'])
    m = re.search(r'if\s+let\s+Some\(last_label\)\s*=\s*labels\.get\(bytecode\.len\(\)\s+as\s+u16\)', mask)
    e = re.compile(r'Ok\(code_visitor\)').search(mask, m.end() if m else 0)
    if not m or not e:
        raise CutError('read_code: delivering tail (`if let Some(last_label) = labels.get(bytecode.len() as u16)` .. `Ok(code_visitor)`) not found')
    u.drop('region of read_code lifted into a function: the tail that hands the parsed tables to the visitor -> fn deliver_tables(code_visitor, labels, bytecode, exception_table, line_number_table, local_variable_table)')
    u.raw('''
// TRUSTED: the reader's Labels table is opaque here (unit rlabels verifies it): get(pc) is a function of (table, pc)
#[verifier::external_body] pub struct Labels { _p: () }
pub uninterp spec fn sp_label(l: &Labels, pc: u16) -> Option<Label>;
impl Labels { #[verifier::external_body] pub fn get(&self, pc: u16) -> (r: Option<Label>) ensures r == sp_label(self, pc) { unimplemented!() } }
''')
    l0 = 'code_visitor_in.log()'
    last = 'sp_label(labels, bytecode@.len() as u16)'
    exp = [f'(if {last} is Some {{ {l0}.push(CEv::LastLabel({last}.unwrap())) }} else {{ {l0} }})']
    exp.append(f'{exp[-1]}.push(CEv::ExceptionTable(exception_table@))')
    exp.append(f'(if line_number_table is Some {{ {exp[-1]}.push(CEv::LineNumbers(line_number_table.unwrap()@)) }} else {{ {exp[-1]} }})')
    exp.append(f'(if local_variable_table is Some {{ {exp[-1]}.push(CEv::LocalVariables(local_variable_table.unwrap()@)) }} else {{ {exp[-1]} }})')
    u.fn(R, 'read_code::deliver_tables', ret='res', props=['C01', 'C17'],
         synth=dict(sig='pub fn deliver_tables<CV: CodeVisitor>(code_visitor_in: CV, labels: &Labels, bytecode: &Vec<u8>, exception_table: Vec<Exception>, '
                        'line_number_table: Option<Vec<(Label, u16)>>, local_variable_table: Option<Vec<Lv>>) -> Result<CV>',
                    body='{ let mut code_visitor = code_visitor_in; ' + body[m.start():e.end()] + ' }', line=s.line_of(f['open'] + m.start())),
         ensures=[C('C01.read_code.every-parsed-table-is-delivered-to-the-visitor',
                    f'res matches Ok(v) ==> v.log() == {exp[-1]}')])
