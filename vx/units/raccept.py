"""raccept -- replaying an in-memory class into a visitor (duke/src/tree/{class,field,method,record}.rs and tree/method/code.rs `accept`)
and the delivering tail of the code reader (duke/src/class_reader.rs read_code).

C17: "replaying an in-memory class into a visitor delivers the same events as reading its bytes".  C01: "exception ranges, debug tables
... nothing is dropped".  The visitor traits of duke/src/visitor/*.rs are cut whole and get a ghost event log (vx/units/_visit.py):
every visit call appends one event that carries its arguments; `visit_x(self, ..) -> (residual, sub_visitor)` /
`finish_x(residual, sub_visitor)` pairs append a begin event (with the `visible` flag) and an items event with what the sub-visitor
received.  Each `accept` is then verified, whole and unmodified, against `*_replay(item, interests)`: the log it must have produced when
it hands the visitor back -- every fact the item holds and the visitor is interested in, once, with the right flag; nothing for an
uninterested visitor.  The specification is generated from the table REPLAY below, which is written from the property statement, the
*Interests structs and the JVMS attribute list (what a full read of the corresponding bytes delivers)."""
import re

from vx.unit import C
from vx.rustcut import CutError, code_mask, match_close
from vx.units._visit import spec_trait, opaque

PROPS = ['C17']
RLIMIT = 60
T = 'duke/src/tree/'
V = 'duke/src/visitor/'
R = 'duke/src/class_reader.rs'

OPAQUE = ['Instruction', 'StackMapData', 'Exception', 'LabelRange', 'LocalVariableName', 'LvIndex', 'Attribute', 'TargetInfoCode', 'TargetInfoMethod', 'TargetInfoField', 'TargetInfoClass',
          'ClassName', 'JavaString', 'PoolRead', 'Annotation', 'ElementValue', 'MethodSignature', 'MethodParameter', 'MethodAccess', 'MethodName', 'MethodDescriptor',
          'FieldAccess', 'FieldName', 'FieldDescriptor', 'FieldSignature', 'ConstantValue', 'RecordName', 'InnerClass', 'EnclosingMethod', 'ClassSignature', 'Module',
          'PackageName', 'ObjClassName', 'ClassAccess', 'Version']

COMMON = r'''
// TRUSTED: opaque stand-ins for duke's tree payload types (only moved into visitor calls); std::ops::ControlFlow (same two variants); Annotation / TypeAnnotation / ElementValue ::accept are assumed to hand the item to the sub-visitor (its `items()` grows by exactly that item)
pub enum ControlFlow<B, C> { Continue(C), Break(B) }
#[verifier::external_body] #[verifier::accept_recursive_types(T)] pub struct TypeAnnotation<T> { _p: core::marker::PhantomData<T> }
pub trait AnnotationsVisitor: Sized { spec fn items(&self) -> Seq<Annotation>; }
pub trait TypeAnnotationsVisitor<T>: Sized { spec fn items(&self) -> Seq<TypeAnnotation<T>>; }
pub trait UnnamedElementValueVisitor: Sized { spec fn items(&self) -> Seq<ElementValue>; }
impl Annotation {
    #[verifier::external_body] pub fn accept<A: AnnotationsVisitor>(self, visitor: A) -> (res: Result<A, VErr>)
        ensures res matches Ok(w) ==> w.items() == visitor.items().push(self) { unimplemented!() }
}
impl<T> TypeAnnotation<T> {
    #[verifier::external_body] pub fn accept<A: TypeAnnotationsVisitor<T>>(self, visitor: A) -> (res: Result<A, VErr>)
        ensures res matches Ok(w) ==> w.items() == visitor.items().push(self) { unimplemented!() }
}
impl ElementValue {
    #[verifier::external_body] pub fn accept<A: UnnamedElementValueVisitor>(self, outer: A) -> (res: Result<A, VErr>)
        ensures res matches Ok(w) ==> w.items() == outer.items().push(self) { unimplemented!() }
}
'''

UA_GHOST = '''    // ghost: the attribute this value was made from; whether an attribute converts at all
    spec fn src(&self) -> Attribute;
    spec fn convertible(a: Attribute) -> bool;
'''
UA_SPECS = {'from_attribute': ('res', ['res matches Ok(o) ==> (o matches Some(x) ==> x.src() == attribute && Self::convertible(attribute)) && (o is None ==> !Self::convertible(attribute))'])}


def push(ev):
    return f'res.is_ok() ==> final(self).log() == old(self).log().push({ev})'


def sub_pair(E, kind, resid, flag=True):
    """visit_<kind>(self[, visible]) -> (residual, sub) / finish_<kind>(this, sub) -> Self"""
    begin = f'{E}::{kind}(visible)' if flag else f'{E}::{kind}'
    return {
        f'visit_{resid[0]}': ('res', [f'res matches Ok((r, sub)) ==> Self::{resid[1]}(r) == self.log().push({begin}) && sub.items() == Seq::empty()']),
        f'finish_{resid[0]}': ('res', [f'res matches Ok(s) ==> s.log() == Self::{resid[1]}(this).push({E}::{kind}Items({resid[2]}.items()))']),
    }


# ---------------------------------------------------------------------------------------------------------------- code level
CEV = '''
pub enum CEv {
    MaxStackLocals(u16, u16), Instruction(Option<Label>, Option<StackMapData>, Instruction), ExceptionTable(Seq<Exception>), LastLabel(Label),
    LineNumbers(Seq<(Label, u16)>), LocalVariables(Seq<Lv>), TypeAnnotations(bool), TypeAnnotationsItems(Seq<TypeAnnotation<TargetInfoCode>>), Unknown(Attribute),
}
'''
CODE_GHOST = '''    // ghost event log: what this visitor has received so far
    spec fn log(&self) -> Seq<CEv>;
    spec fn ta_residual_log(r: Self::TypeAnnotationsResidual) -> Seq<CEv>;
'''
CODE_SPECS = {
    'visit_max_stack_and_max_locals': ('res', [push('CEv::MaxStackLocals(max_stack, max_locals)')]),
    'visit_exception_table': ('res', [push('CEv::ExceptionTable(exception_table@)')]),
    'visit_instruction': ('res', [push('CEv::Instruction(label, frame, instruction)')]),
    'visit_last_label': ('res', [push('CEv::LastLabel(last_label)')]),
    'visit_line_numbers': ('res', [push('CEv::LineNumbers(line_number_table@)')]),
    'visit_local_variables': ('res', [push('CEv::LocalVariables(local_variables@)')]),
    'visit_unknown_attribute': ('res', [push('CEv::Unknown(unknown_attribute.src())')]),
}
CODE_SPECS.update(sub_pair('CEv', 'TypeAnnotations', ('type_annotations', 'ta_residual_log', 'type_annotations_visitor')))


def staged(pfx, generics, params, args, ev, blocks, opaque_stages=False):
    """spec functions pfx_0 .. pfx_n: the expected log after each block of a replay.  block = (condition or None, [event, ..]) | ('raw', expr using {prev})"""
    out = [f'pub open spec fn {pfx}_0{generics}({params}) -> Seq<{ev}> {{ Seq::empty() }}']
    op = '#[verifier::opaque] ' if opaque_stages else ''
    for j, b in enumerate(blocks, start=1):
        gn = ('::<' + ', '.join(x.split(':')[0].strip() for x in generics.strip('<>').split(',')) + '>') if generics else ''
        prev = f'{pfx}_{j - 1}{gn}({args})'
        if b[0] == 'raw':
            body = b[1].replace('{prev}', prev)
        else:
            cond, events = b
            chain = prev + ''.join(f'.push({e})' for e in events)
            body = f'if {cond} {{ {chain} }} else {{ {prev} }}' if cond else chain
        out.append(f'{op}pub open spec fn {pfx}_{j}{generics}({params}) -> Seq<{ev}> {{ {body} }}')
    return '\n'.join(out) + '\n', len(blocks)


CODE_SPEC = '''
pub open spec fn instr_log(prev: Seq<CEv>, es: Seq<InstructionListEntry>, frames: bool, k: int) -> Seq<CEv> decreases k {
    if k <= 0 { prev } else { instr_log(prev, es, frames, k - 1).push(CEv::Instruction(es[k - 1].label, if frames { es[k - 1].frame } else { None }, es[k - 1].instruction)) }
}
pub open spec fn lv_wanted(s: Seq<Lv>, i: CodeInterests, k: int) -> Seq<Lv> decreases k {
    if k <= 0 { Seq::empty() } else {
        let p = lv_wanted(s, i, k - 1);
        if (i.local_variable_table && s[k - 1].descriptor is Some) || (i.local_variable_type_table && s[k - 1].signature is Some) { p.push(s[k - 1]) } else { p }
    }
}
pub open spec fn code_unknown_log<U: UnknownAttributeVisitor>(prev: Seq<CEv>, attrs: Seq<Attribute>, k: int) -> Seq<CEv> decreases k {
    if k <= 0 { prev } else { let p = code_unknown_log::<U>(prev, attrs, k - 1); if U::convertible(attrs[k - 1]) { p.push(CEv::Unknown(attrs[k - 1])) } else { p } }
}
'''
# what replaying a Code must deliver to a visitor with interests `i` (the facts a read of the corresponding Code attribute delivers)
CODE_BLOCKS = [
    ('c.max_stack is Some && c.max_locals is Some', ['CEv::MaxStackLocals(c.max_stack.unwrap(), c.max_locals.unwrap())']),
    ('raw', 'instr_log({prev}, c.instructions@, i.stack_map_table, c.instructions@.len() as int)'),   # frames only to visitors interested in the StackMapTable
    (None, ['CEv::ExceptionTable(c.exception_table@)']),
    ('c.last_label is Some', ['CEv::LastLabel(c.last_label.unwrap())']),
    ('i.line_number_table && c.line_numbers is Some', ['CEv::LineNumbers(c.line_numbers.unwrap()@)']),
    # reading delivers the entries of the LocalVariableTable only to visitors interested in it, likewise the LocalVariableTypeTable
    ('(i.local_variable_table || i.local_variable_type_table) && c.local_variables is Some',
     ['CEv::LocalVariables(lv_wanted(c.local_variables.unwrap()@, i, c.local_variables.unwrap()@.len() as int))']),
    ('i.runtime_visible_type_annotations && c.runtime_visible_type_annotations@.len() > 0', ['CEv::TypeAnnotations(true)', 'CEv::TypeAnnotationsItems(c.runtime_visible_type_annotations@)']),
    ('i.runtime_invisible_type_annotations && c.runtime_invisible_type_annotations@.len() > 0', ['CEv::TypeAnnotations(false)', 'CEv::TypeAnnotationsItems(c.runtime_invisible_type_annotations@)']),
    ('raw', 'if i.unknown_attributes { code_unknown_log::<CV::UnknownAttribute>({prev}, c.attributes@, c.attributes@.len() as int) } else { {prev} }'),
]


def items_inv(label, vec, sub):
    return C(label, f'{sub}.items() == {vec}@.subrange(0, iter.index@ as int)')


def whole(vec):
    return f'proof {{ assert({vec}@.subrange(0, {vec}@.len() as int) =~= {vec}@); }}'


# ---------------------------------------------------------------------------------------------------------------- member / class levels
# One table per level, written from the property statement ("replay delivers the same events as reading"), the *Interests structs and the
# JVMS attribute list: for every fact the item holds, under which interest flag it is delivered and as which event.
#   ('always', event)                                   delivered unconditionally
#   ('opt', interest, field, event)                     Option field: delivered iff interested and present; {v} = the value
#   ('sub', interest, vec, visible, Kind, sub_var)      list delivered through a sub-visitor: begin event Kind(visible), then KindItems(list); only if non-empty
#   ('code',)                                           method level: the Code is offered iff interested and present
#   ('default',)                                        method level: AnnotationDefault through a sub-visitor
#   ('members', interest, vec, Type, event_of_x)        class level: each member offered in order iff interested
#   ('unknown',)                                        unknown attributes that convert, in order, iff interested
ANN = [('sub', 'runtime_visible_annotations', 'runtime_visible_annotations', 'true', 'Annotations', 'annotations_visitor'),
       ('sub', 'runtime_invisible_annotations', 'runtime_invisible_annotations', 'false', 'Annotations', 'annotations_visitor'),
       ('sub', 'runtime_visible_type_annotations', 'runtime_visible_type_annotations', 'true', 'TypeAnnotations', 'type_annotations_visitor'),
       ('sub', 'runtime_invisible_type_annotations', 'runtime_invisible_type_annotations', 'false', 'TypeAnnotations', 'type_annotations_visitor')]
LEVELS = dict(
    field=dict(file=T + 'field.rs', struct='Field', tfile=V + 'field.rs', trait='FieldVisitor', interests='FieldInterests', ev='FEv', var='field_visitor', target='TargetInfoField',
               variants='DeprecatedSynthetic(bool, bool), ConstantValue(ConstantValue), Signature(FieldSignature)',
               specs={'visit_deprecated_and_synthetic_attribute': 'DeprecatedSynthetic(deprecated, synthetic)', 'visit_constant_value': 'ConstantValue(constant_value)', 'visit_signature': 'Signature(signature)'},
               blocks=[('always', 'DeprecatedSynthetic(m.has_deprecated_attribute, m.has_synthetic_attribute)'),
                       ('opt', 'constant_value', 'constant_value', 'ConstantValue({v})'), ('opt', 'signature', 'signature', 'Signature({v})')] + ANN + [('unknown',)],
               finish='finish_field', parent_ev='Field(self.access, self.name, self.descriptor)'),
    method=dict(file=T + 'method.rs', struct='Method', tfile=V + 'method.rs', trait='MethodVisitor', interests='MethodInterests', ev='MEv', var='method_visitor', target='TargetInfoMethod',
                variants='DeprecatedSynthetic(bool, bool), Code, Exceptions(Seq<ClassName>), Signature(MethodSignature), AnnotationDefault, AnnotationDefaultItems(Seq<ElementValue>), Parameters(Seq<MethodParameter>)',
                specs={'visit_deprecated_and_synthetic_attribute': 'DeprecatedSynthetic(deprecated, synthetic)', 'visit_exceptions': 'Exceptions(exceptions@)', 'visit_signature': 'Signature(signature)',
                       'visit_parameters': 'Parameters(method_parameters@)'},
                blocks=[('always', 'DeprecatedSynthetic(m.has_deprecated_attribute, m.has_synthetic_attribute)'), ('code',),
                        ('opt', 'exceptions', 'exceptions', 'Exceptions({v}@)'), ('opt', 'signature', 'signature', 'Signature({v})')] + ANN +
                       [('default',), ('opt', 'method_parameters', 'method_parameters', 'Parameters({v}@)'), ('unknown',)],
                finish='finish_method', parent_ev='Method(self.access, self.name, self.descriptor)'),
    component=dict(file=T + 'record.rs', struct='RecordComponent', tfile=V + 'record.rs', trait='RecordComponentVisitor', interests='RecordComponentInterests', ev='REv', var='record_component_visitor',
                   target='TargetInfoField', variants='Signature(FieldSignature)', specs={'visit_signature': 'Signature(signature)'},
                   blocks=[('opt', 'signature', 'signature', 'Signature({v})')] + ANN + [('unknown',)],
                   finish='finish_record_component', parent_ev='RecordComponent(self.name, self.descriptor)'),
    klass=dict(file=T + 'class.rs', struct='ClassFile', tfile=V + 'class.rs', trait='ClassVisitor', interests='ClassInterests', ev='ClEv', var='class_visitor', target='TargetInfoClass',
               variants='DeprecatedSynthetic(bool, bool), InnerClasses(Seq<InnerClass>), EnclosingMethod(EnclosingMethod), Signature(ClassSignature), SourceFile(JavaString), SourceDebugExtension(JavaString), '
                        'Module(Module), ModulePackages(Seq<PackageName>), ModuleMainClass(ClassName), NestHost(ClassName), NestMembers(Seq<ClassName>), PermittedSubclasses(Seq<ClassName>), '
                        'RecordComponent(RecordName, FieldDescriptor), Field(FieldAccess, FieldName, FieldDescriptor), Method(MethodAccess, MethodName, MethodDescriptor)',
               specs={'visit_deprecated_and_synthetic_attribute': 'DeprecatedSynthetic(deprecated, synthetic)', 'visit_inner_classes': 'InnerClasses(inner_classes@)',
                      'visit_enclosing_method': 'EnclosingMethod(enclosing_method)', 'visit_signature': 'Signature(signature)', 'visit_source_file': 'SourceFile(source_file)',
                      'visit_source_debug_extension': 'SourceDebugExtension(source_debug_extension)', 'visit_module': 'Module(module)', 'visit_module_packages': 'ModulePackages(module_packages@)',
                      'visit_module_main_class': 'ModuleMainClass(module_main_class)', 'visit_nest_host_class': 'NestHost(nest_host_class)', 'visit_nest_members': 'NestMembers(nest_members@)',
                      'visit_permitted_subclasses': 'PermittedSubclasses(permitted_subclasses@)'},
               blocks=[('always', 'DeprecatedSynthetic(m.has_deprecated_attribute, m.has_synthetic_attribute)'),
                       ('opt', 'inner_classes', 'inner_classes', 'InnerClasses({v}@)'), ('opt', 'enclosing_method', 'enclosing_method', 'EnclosingMethod({v})'),
                       ('opt', 'signature', 'signature', 'Signature({v})'), ('opt', 'source_file', 'source_file', 'SourceFile({v})'),
                       ('opt', 'source_debug_extension', 'source_debug_extension', 'SourceDebugExtension({v})')] + ANN +
                      [('opt', 'module', 'module', 'Module({v})'), ('opt', 'module_packages', 'module_packages', 'ModulePackages({v}@)'),
                       ('opt', 'module_main_class', 'module_main_class', 'ModuleMainClass({v})'), ('opt', 'nest_host', 'nest_host_class', 'NestHost({v})'),
                       ('opt', 'nest_members', 'nest_members', 'NestMembers({v}@)'), ('opt', 'permitted_subclasses', 'permitted_subclasses', 'PermittedSubclasses({v}@)'),
                       ('members', 'record', 'record_components', 'RecordComponent', 'RecordComponent(x.name, x.descriptor)'), ('unknown',),
                       ('members', 'fields', 'fields', 'Field', 'Field(x.access, x.name, x.descriptor)'), ('members', 'methods', 'methods', 'Method', 'Method(x.access, x.name, x.descriptor)')],
               finish='finish_class', parent_ev=None),
)


def level_trait(u, L):
    E, tgt = L['ev'], L['target']
    u.raw(f'pub enum {E} {{ {L["variants"]}, Annotations(bool), AnnotationsItems(Seq<Annotation>), TypeAnnotations(bool), TypeAnnotationsItems(Seq<TypeAnnotation<{tgt}>>), Unknown(Attribute) }}\n')
    u.item(L['tfile'], 'struct', L['interests'], derives=['Copy', 'Clone'])
    ghost = (f'    // ghost event log: what this visitor has received so far\n    spec fn log(&self) -> Seq<{E}>;\n'
             f'    spec fn annotations_residual_log(r: Self::AnnotationsResidual) -> Seq<{E}>;\n    spec fn type_annotations_residual_log(r: Self::TypeAnnotationsResidual) -> Seq<{E}>;\n')
    specs = {m: ('res', [push(f'{E}::{e}')]) for m, e in L['specs'].items()}
    specs['visit_unknown_attribute'] = ('res', [push(f'{E}::Unknown(unknown_attribute.src())')])
    specs.update(sub_pair(E, 'Annotations', ('annotations', 'annotations_residual_log', 'annotations_visitor')))
    specs.update(sub_pair(E, 'TypeAnnotations', ('type_annotations', 'type_annotations_residual_log', 'type_annotations_visitor')))
    if L['trait'] == 'MethodVisitor':
        ghost += f'    spec fn annotation_default_residual_log(r: Self::AnnotationDefaultResidual) -> Seq<{E}>;\n'
        specs.update(sub_pair(E, 'AnnotationDefault', ('annotation_default', 'annotation_default_residual_log', 'element_value_visitor'), flag=False))
        specs['visit_code'] = ('res', [f'res.is_ok() ==> final(self).log() == old(self).log().push({E}::Code)', 'res matches Ok(Some(cv)) ==> cv.log() == Seq::<CEv>::empty()'])
        specs['finish_code'] = ('res', ['res.is_ok() ==> final(self).log() == old(self).log()'])
    if L['trait'] == 'ClassVisitor':
        for kind, ev in (('record_component', 'RecordComponent(name, descriptor)'), ('field', 'Field(access, name, descriptor)'), ('method', 'Method(access, name, descriptor)')):
            ghost += f'    spec fn {kind}_residual_log(r: Self::{"".join(w.capitalize() for w in kind.split("_"))}Residual) -> Seq<{E}>;\n'
            specs[f'visit_{kind}'] = ('res', [f'res matches Ok(ControlFlow::Break(v)) ==> v.log() == self.log().push({E}::{ev})',
                                              f'res matches Ok(ControlFlow::Continue((r, sub))) ==> Self::{kind}_residual_log(r) == self.log().push({E}::{ev}) && sub.log() == Seq::empty()'])
            specs[f'finish_{kind}'] = ('res', [f'res matches Ok(s) ==> s.log() == Self::{kind}_residual_log(this)'])
    spec_trait(u, L['tfile'], L['trait'], ghost, specs)


def level_blocks(L, pfx, tr):
    """-> (spec text, number of stages, loop specs {ordinal: dict}, for-loop rewrites)"""
    E, var = L['ev'], L['var']
    G = f'<V: {L["trait"]}>'
    blocks, loops, rew = [], {}, []
    pre = [f'pub open spec fn {pfx}_unknown_log<U: UnknownAttributeVisitor>(prev: Seq<{E}>, attrs: Seq<Attribute>, k: int) -> Seq<{E}> decreases k {{\n'
           f'    if k <= 0 {{ prev }} else {{ let p = {pfx}_unknown_log::<U>(prev, attrs, k - 1); if U::convertible(attrs[k - 1]) {{ p.push({E}::Unknown(attrs[k - 1])) }} else {{ p }} }}\n}}']
    S = lambda j: f'{pfx}_{j}::<{tr}>(self, interests)'
    k = 0
    for j, b in enumerate(L['blocks'], start=1):
        if b[0] == 'always':
            blocks.append((None, [f'{E}::{b[1]}']))
        elif b[0] == 'opt':
            blocks.append((f'i.{b[1]} && m.{b[2]} is Some', [f'{E}::' + b[3].replace('{v}', f'm.{b[2]}.unwrap()')]))
        elif b[0] == 'code':
            blocks.append(('i.code && m.code is Some', [f'{E}::Code']))
        elif b[0] == 'default':
            blocks.append(('i.annotation_default && m.annotation_default is Some', [f'{E}::AnnotationDefault', f'{E}::AnnotationDefaultItems(Seq::<ElementValue>::empty().push(m.annotation_default.unwrap()))']))
        elif b[0] == 'sub':
            _, flag, vec, vis, kind, sub = b
            blocks.append((f'i.{flag} && m.{vec}@.len() > 0', [f'{E}::{kind}({vis})', f'{E}::{kind}Items(m.{vec}@)']))
            resid = 'annotations_residual_log' if kind == 'Annotations' else 'type_annotations_residual_log'
            loops[k] = dict(invariant=[C(f'C17.{pfx}.inv.{vec}', f'<{tr} as {L["trait"]}>::{resid}(visitor) == {S(j - 1)}.push({E}::{kind}({vis}))'),
                                       items_inv(f'C17.{pfx}.inv.{vec}.items', f'self.{vec}', sub)], after=whole(f'self.{vec}'))
            rew.append((rf'for annotation in self\.{vec}\b', f'for annotation in iter: self.{vec}'))
            k += 1
        elif b[0] == 'unknown':
            blocks.append(('raw', f'if i.unknown_attributes {{ {pfx}_unknown_log::<V::UnknownAttribute>({{prev}}, m.attributes@, m.attributes@.len() as int) }} else {{ {{prev}} }}'))
            loops[k] = dict(invariant=[C(f'C17.{pfx}.inv.unknown-attributes', f'{var}.log() == {pfx}_unknown_log::<<{tr} as {L["trait"]}>::UnknownAttribute>({S(j - 1)}, self.attributes@, iter.index@ as int)')])
            rew.append((r'for attribute in self\.attributes\b', 'for attribute in iter: self.attributes'))
            k += 1
        elif b[0] == 'members':
            _, flag, vec, ty, ev = b
            pre.append(f'pub open spec fn {pfx}_{vec}_log(prev: Seq<{E}>, xs: Seq<{ty}>, k: int) -> Seq<{E}> decreases k {{\n'
                       f'    if k <= 0 {{ prev }} else {{ let x = xs[k - 1]; {pfx}_{vec}_log(prev, xs, k - 1).push({E}::{ev}) }}\n}}')
            blocks.append(('raw', f'if i.{flag} {{ {pfx}_{vec}_log({{prev}}, m.{vec}@, m.{vec}@.len() as int) }} else {{ {{prev}} }}'))
            loops[k] = dict(invariant=[C(f'C17.{pfx}.inv.{vec}', f'{var}.log() == {pfx}_{vec}_log({S(j - 1)}, self.{vec}@, iter.index@ as int)')])
            one = {'record_components': 'record_component', 'fields': 'field', 'methods': 'method'}[vec]
            rew.append((rf'for {one} in self\.{vec}\b', f'for {one} in iter: self.{vec}'))
            k += 1
    txt, n = staged(pfx, G, f'm: {L["struct"]}, i: {L["interests"]}', 'm, i', E, blocks, opaque_stages=True)
    return '\n'.join(pre) + '\n' + txt, n, loops, rew


def level_accept(u, name, L, canary=False):
    pfx = f'{name}_replay'
    parent = name != 'klass'
    tr = {'field': 'C::FieldVisitor', 'method': 'C::MethodVisitor', 'component': 'C::RecordComponentVisitor', 'klass': 'V::ClassVisitor'}[name]
    txt, n, loops, rew = level_blocks(L, pfx, tr)
    u.raw(txt)
    fin = ('ClassVisitor::' if parent else 'MultiClassVisitor::') + L['finish'] + rf'\(visitor, {L["var"]}\)'
    # checkpoints: before block j+1 starts the log is stage j (keeps every SMT query small; also localises a failure to one block)
    flag_of = lambda b: {'code': 'code', 'default': 'annotation_default', 'unknown': 'unknown_attributes'}.get(b[0]) or b[1]
    cps = []
    nth = -1
    for j in range(0, n):
        nb = L['blocks'][j]
        if nb[0] == 'always':
            continue
        nth += 1   # block j+1 is the nth `if interests.<flag>` statement of the function (ordinal anchor: a wrong flag must not lose the anchor)
        if j == 0:
            continue
        cps.append((('before', r'if interests\.\w+', nth), C(f'C17.{name}.after-block-{j}', f'{L["var"]}.log() == {pfx}_{j}::<{tr}>(self, interests)'), '', f'reveal({pfx}_{j});'))
    u.fn(L['file'], f'{L["struct"]}::accept', ret='res', canary=canary, rewrites=rew, loops=loops,
         asserts=cps + [(('before', fin), C(f'C17.{name}.replay-delivers-every-fact-the-visitor-is-interested-in', f'{L["var"]}.log() == {pfx}_{n}::<{tr}>(self, interests)'), '', f'reveal({pfx}_{n});')],
         ensures=([C(f'C17.{name}.offered-to-the-class-visitor-once', f'res matches Ok(v) ==> v.log() == visitor.log().push(ClEv::{L["parent_ev"]})')] if parent else []))


def build(u):
    u.preamble('common.rs')
    opaque(u, OPAQUE)
    u.raw(COMMON)
    u.item(T + 'method/code.rs', 'struct', 'Label', derives=['Copy', 'Clone', 'PartialEq', 'Eq'])
    u.item(T + 'method/code.rs', 'struct', 'Lv', derives=[])
    spec_trait(u, V + 'attribute.rs', 'UnknownAttributeVisitor', UA_GHOST, UA_SPECS)
    # ---- visitor traits, innermost first
    u.raw(CEV)
    u.item(V + 'method/code.rs', 'struct', 'CodeInterests', derives=[])
    spec_trait(u, V + 'method/code.rs', 'CodeVisitor', CODE_GHOST, CODE_SPECS)
    for lv in ('method', 'field', 'component', 'klass'):
        level_trait(u, LEVELS[lv])
    spec_trait(u, V + 'mod.rs', 'MultiClassVisitor', '', {
        'visit_class': ('res', ['res matches Ok(ControlFlow::Continue((r, sub))) ==> sub.log() == Seq::<ClEv>::empty()'])})
    # ---- tree structs
    u.item(T + 'method/code.rs', 'struct', 'InstructionListEntry', derives=[])
    u.item(T + 'method/code.rs', 'struct', 'Code', derives=[])
    u.item(T + 'method.rs', 'struct', 'Method', derives=[])
    u.item(T + 'field.rs', 'struct', 'Field', derives=[])
    u.item(T + 'record.rs', 'struct', 'RecordComponent', derives=[])
    u.item(T + 'class.rs', 'struct', 'ClassFile', derives=[])
    build_code(u)
    level_accept(u, 'method', LEVELS['method'])
    level_accept(u, 'field', LEVELS['field'])
    level_accept(u, 'component', LEVELS['component'])
    level_accept(u, 'klass', LEVELS['klass'])
    build_reader_tail(u)


def build_code(u):
    u.raw(CODE_SPEC)
    txt, n = staged('code_replay', '<CV: CodeVisitor>', 'c: Code, i: CodeInterests', 'c, i', 'CEv', CODE_BLOCKS)
    u.raw(txt)
    S = lambda j: f'code_replay_{j}::<M::CodeVisitor>(self, interests)'
    TA = '<M::CodeVisitor as CodeVisitor>::ta_residual_log(visitor)'
    u.fn(T + 'method/code.rs', 'Code::accept', ret='res', canary=True,
         rewrites=[(r'for instruction in self\.instructions', 'for instruction in iter: self.instructions'),
                   (r'for annotation in self\.runtime_visible_type_annotations', 'for annotation in iter: self.runtime_visible_type_annotations'),
                   (r'for annotation in self\.runtime_invisible_type_annotations', 'for annotation in iter: self.runtime_invisible_type_annotations'),
                   (r'for attribute in self\.attributes', 'for attribute in iter: self.attributes')],
         opt_rewrites=[(r'for lv in local_variables\b', 'for lv in iter: local_variables'), (r'let mut wanted = Vec::with_capacity', 'let mut wanted: Vec<Lv> = Vec::with_capacity')],
         loops={r'for instruction in iter': dict(invariant=[C('C17.code.inv.instructions', f'code_visitor.log() == instr_log({S(1)}, self.instructions@, interests.stack_map_table, iter.index@ as int)')]),
                r'?for lv in iter': dict(invariant=[C('C17.code.inv.local-variables', 'wanted@ == lv_wanted(local_variables@, interests, iter.index@ as int)')]),
                r'for annotation in iter: self\.runtime_visible_type': dict(invariant=[C('C17.code.inv.visible-type-annotations', f'{TA} == {S(6)}.push(CEv::TypeAnnotations(true))'),
                                   items_inv('C17.code.inv.visible-type-annotations.items', 'self.runtime_visible_type_annotations', 'type_annotations_visitor')],
                        after=whole('self.runtime_visible_type_annotations')),
                r'for annotation in iter: self\.runtime_invisible_type': dict(invariant=[C('C17.code.inv.invisible-type-annotations', f'{TA} == {S(7)}.push(CEv::TypeAnnotations(false))'),
                                   items_inv('C17.code.inv.invisible-type-annotations.items', 'self.runtime_invisible_type_annotations', 'type_annotations_visitor')],
                        after=whole('self.runtime_invisible_type_annotations')),
                r'for attribute in iter': dict(invariant=[C('C17.code.inv.unknown-attributes', f'code_visitor.log() == code_unknown_log::<<M::CodeVisitor as CodeVisitor>::UnknownAttribute>({S(8)}, self.attributes@, iter.index@ as int)')])},
         asserts=[(('before', r'visitor\.finish_code\(code_visitor\)'),
                   C('C17.code.replay-delivers-every-fact-the-visitor-is-interested-in', f'code_visitor.log() == {S(9)}'))],
         ensures=[C('C17.code.offered-to-the-method-visitor-once', 'res matches Ok(v) ==> v.log() == visitor.log().push(MEv::Code)')])


def build_reader_tail(u):
    """the tail of read_code: everything parsed from the Code attribute's tables is handed to the visitor"""
    s = u.src(R)
    f = s.cut_fn('read_code')
    body, mask = f['body'], code_mask(f['body'])
    m = re.search(r'if\s+let\s+Some\(last_label\)\s*=\s*labels\.get\(bytecode\.len\(\)\s+as\s+u16\)', mask)
    e = re.compile(r'Ok\(code_visitor\)').search(mask, m.end() if m else 0)
    if not m or not e:
        raise CutError('read_code: delivering tail (`if let Some(last_label) = labels.get(bytecode.len() as u16)` .. `Ok(code_visitor)`) not found')
    u.drop('region of read_code lifted into a function: the tail that hands the parsed tables to the visitor -> fn deliver_tables(code_visitor, labels, bytecode, exception_table, line_number_table, local_variable_table)')
    u.raw('''
// TRUSTED: the reader's Labels table is opaque here (unit rlabels verifies it): get(pc) is a function of (table, pc)
#[verifier::external_body] pub struct Labels { _p: () }
pub uninterp spec fn sp_label(l: &Labels, pc: u16) -> Option<Label>;
impl Labels { #[verifier::external_body] pub fn get(&self, pc: u16) -> (r: Option<Label>) ensures r == sp_label(self, pc) { unimplemented!() } }
''')
    l0 = 'code_visitor_in.log()'
    last = 'sp_label(labels, bytecode@.len() as u16)'
    exp = [f'(if {last} is Some {{ {l0}.push(CEv::LastLabel({last}.unwrap())) }} else {{ {l0} }})']
    exp.append(f'{exp[-1]}.push(CEv::ExceptionTable(exception_table@))')
    exp.append(f'(if line_number_table is Some {{ {exp[-1]}.push(CEv::LineNumbers(line_number_table.unwrap()@)) }} else {{ {exp[-1]} }})')
    exp.append(f'(if local_variable_table is Some {{ {exp[-1]}.push(CEv::LocalVariables(local_variable_table.unwrap()@)) }} else {{ {exp[-1]} }})')
    u.fn(R, 'read_code::deliver_tables', ret='res', props=['C01', 'C17'],
         synth=dict(sig='pub fn deliver_tables<CV: CodeVisitor>(code_visitor_in: CV, labels: &Labels, bytecode: &Vec<u8>, exception_table: Vec<Exception>, '
                        'line_number_table: Option<Vec<(Label, u16)>>, local_variable_table: Option<Vec<Lv>>) -> Result<CV>',
                    body='{ let mut code_visitor = code_visitor_in; ' + body[m.start():e.end()] + ' }', line=s.line_of(f['open'] + m.start())),
         ensures=[C('C01.read_code.every-parsed-table-is-delivered-to-the-visitor',
                    f'res matches Ok(v) ==> v.log() == {exp[-1]}')])
