"""c20len -- attribute_length / count fields written by the macro-generated AttributeInfo::_write (raw_class_file),
verified on the `rustc -Zunpretty=expanded` text of the crate: one lifted function per flat attribute variant."""
import os
import re
import subprocess

from vx.unit import C, REPO
from vx.rustcut import CutError, code_mask, match_close

PROPS = ['C20']
RLIMIT = 40
SRC = 'raw_class_file/src/lib.rs'
EXP = 'raw_class_file/src/lib.rs [rustc -Zunpretty=expanded]'

# JVMS 4.7.x: bytes that follow the 6-byte header: (fixed payload, per-element size, vector field or None, count width)
TABLE = {
    'ConstantValue': (2, 0, None, 0),          # 4.7.2  u2 constantvalue_index
    'Exceptions': (2, 2, 'exception_index_table', 2),   # 4.7.5  u2 number_of_exceptions; u2[]
    'EnclosingMethod': (4, 0, None, 0),        # 4.7.7
    'Synthetic': (0, 0, None, 0),              # 4.7.8
    'Signature': (2, 0, None, 0),              # 4.7.9
    'SourceFile': (2, 0, None, 0),             # 4.7.10
    'SourceDebugExtension': (0, 1, 'debug_extension', 0),  # 4.7.11 u1 debug_extension[attribute_length]
    'Deprecated': (0, 0, None, 0),             # 4.7.15
    'ModulePackages': (2, 2, 'package_index', 2),   # 4.7.26
    'ModuleMainClass': (2, 0, None, 0),        # 4.7.27
    'NestHost': (2, 0, None, 0),               # 4.7.28
    'NestMembers': (2, 2, 'classes', 2),       # 4.7.29 u2 number_of_classes; u2 classes[]
    'PermittedSubclasses': (2, 2, 'classes', 2),    # 4.7.31
    'Other': (0, 1, 'info', 0),                # unknown attribute: u1 info[attribute_length]
}


def expand():
    d = os.path.join(REPO, 'raw_class_file')
    try:
        p = subprocess.run(['rustc', '-Zunpretty=expanded', '--edition', '2021', 'src/lib.rs'], cwd=d, capture_output=True, text=True,
                           env=dict(os.environ, RUSTC_BOOTSTRAP='1'), timeout=120)
    except Exception as e:
        raise CutError(f'macro expansion of raw_class_file failed: {e}')
    if p.returncode != 0 or 'impl AttributeInfo' not in p.stdout:
        raise CutError('macro expansion of raw_class_file failed: ' + p.stderr[-400:])
    return p.stdout


def rewrite_sink(body, u):
    """std::io::Write::write_all(writer, &EXPR.to_be_bytes())?  ->  vw_write(writer, EXPR)?"""
    n = 0
    while True:
        mask = code_mask(body)
        m = re.search(r'std::io::Write::write_all\s*\(', mask)
        if not m:
            break
        op = m.end() - 1
        cl = match_close(mask, op)
        inner = body[op + 1:cl]
        mm = re.match(r'\s*writer\s*,\s*&(.*)\.to_(be|le)_bytes\(\)\s*$', inner, re.S)
        if not mm:
            raise CutError('write_all call of unexpected shape: ' + inner[:80])
        fnm = 'vw_write' if mm.group(2) == 'be' else 'vw_write_le'
        rep = f'{fnm}(writer, ' + re.sub(r'\s+', ' ', mm.group(1).strip()) + ')' + '\n' * body[m.start():cl + 1].count('\n')
        body = body[:m.start()] + rep + body[cl + 1:]
        n += 1
    u.drop('std::io::Write::write_all(writer, &x.to_be_bytes())? -> vw_write(writer, x)? (trusted sink model)', n)
    return body


def build(u):
    u.preamble('common.rs')
    u.preamble('bytes.rs')
    u.preamble('c20.rs')
    u.src(SRC)  # recorded (blob hash) -- the text verified is its macro expansion
    u.src('raw_class_file/src/macros.rs')
    u.src(EXP, text=expand())
    u.drop('source run through `rustc -Zunpretty=expanded` so that the text verified is what notation! generates')
    first = True
    for variant, (fixed, esz, vec, cw) in TABLE.items():
        arm = u.lift_arm(EXP, 'AttributeInfo', '_write', variant)
        body = rewrite_sink(arm['body'], u)
        params = ', '.join(f'{n}: &{t}' for n, t in arm['params'])
        sig = f'pub fn write_{variant}(writer: &mut Vec<u8>, {params}) -> Result<(), VErr>'
        o = 'old(writer)@.len() as int'
        n = f'{vec}@.len()' if vec else '0'
        payload = f'{fixed} + {esz} * {n}' if vec else f'{fixed}'
        s = f'final(writer)@.subrange({o}, final(writer)@.len() as int)'
        requires = []
        loops = None
        rewrites = []
        if vec:
            # the count / length prefix is a u16 (u32 for byte blobs): the vector must fit, as everywhere in a class file
            requires.append(f'{vec}@.len() <= ' + ('65535' if cw == 2 else '0x7fff_ffff'))
            rewrites.append((rf'for i in {vec}\b', f'for i in iter: {vec}'))
            hdr = 6 + fixed
            loops = {0: dict(invariant=[
                C(f'C20.{variant}.inv.len', f'writer@.len() == {o} + {hdr} + {esz} * iter.index@'),
                C(f'C20.{variant}.inv.header-kept', f'writer@.subrange({o}, {o} + {hdr}) == snap_header'),
                C(f'C20.{variant}.inv.prefix-kept', f'writer@.subrange(0, {o}) == old(writer)@'),
                C(f'C20.{variant}.inv.bound', requires[0]),
            ])}
        # ghost snapshot of the header (first 6+fixed bytes) right before the loop / at the end
        proof_before = []
        if vec:
            proof_before.append((rf'for i in iter: {vec}\b', f'        let ghost snap_header = writer@.subrange({o}, {o} + {6 + fixed});'))
        tail = f'''
    proof {{
        let w = writer@;
        let hdr6 = w.subrange({o}, {o} + 6);
        assert(hdr6 == be16(*attribute_name_index) + be32(({payload}) as u32)) by {{
            assert(hdr6.len() == 6);
            assert forall|j: int| 0 <= j < 6 implies hdr6[j] == (be16(*attribute_name_index) + be32(({payload}) as u32))[j] by {{
                {"assert(hdr6[j] == snap_header[j]);" if vec else ""}
            }}
        }}
        lemma_attr_header(w, {o}, *attribute_name_index, ({payload}) as u32);
    }}
    Ok(())'''
        ens = [
            C(f'C20.{variant}.ok', 'res.is_ok()'),
            C(f'C20.{variant}.prefix-kept', f'final(writer)@.subrange(0, {o}) == old(writer)@'),
            C(f'C20.{variant}.size-per-jvms', f'final(writer)@.len() == {o} + 6 + {payload}'),
            C(f'C20.{variant}.attribute_length-is-bytes-that-follow', f'attr_well_formed({s})'),
            C(f'C20.{variant}.name-index-first', f'{s}.subrange(0, 2) == be16(*attribute_name_index)'),
        ]
        u.fn(EXP, f'AttributeInfo::_write[{variant}]', synth=dict(sig=sig, body=body, line=arm['line']), ret='res',
             requires=requires, ensures=ens, loops=loops, rewrites=rewrites, proof_before=proof_before, tail_proof=tail,
             canary=first, proof_label=f'C20.{variant}.attribute_length-is-bytes-that-follow')
        first = False
