"""c20rd -- every macro-generated `_read` of raw_class_file (and pool_has_utf8) against the byte layout of JVMS chapter 4.

Same source (rustc -Zunpretty=expanded) and same JVMS table as unit c20ser.  Contract of every T::_read(reader, pool):

    res matches Ok(x)  ==>  the bytes consumed, data[p .. p'], are exactly the JVMS layout of x:  data.subrange(p, p') == rser_T(x, data, p)

rser_T is ser_T of unit c20ser except that the four bytes of every attribute_length are taken from the input (the generated reader does
not compare the attribute_length of a self-sized attribute with its content; for a well-formed class file they agree) -- so "reading and
writing back reproduces the input byte for byte" is: rser_T(x, d, p) == ser_T(x) whenever every attribute_length of the input is the JVMS one.
pool_has_utf8 (the attribute dispatch): succeeds exactly for constant-pool indices 1..=len that hold a Utf8 entry, and compares its bytes.
"""
import re

from vx.unit import C
from vx.rustcut import CutError, code_mask, match_close, loop_headers
from vx.units.c20len import expand, SRC, EXP
from vx.units.c20ser import JVMS, BE, UTY, EMPTY, elem_name, fields_of, subst_fields, type_graph, reach, cycle_of, flats

PROPS = ['C20']
RLIMIT = 250
VERUS_ARGS = ['--num-threads', '16']

W2T = {1: 'u8', 2: 'u16', 4: 'u32'}

# the tags the JVMS assigns (4.4 Table 4.4-B, 4.7.4 verification_type_info / stack_map_frame, 4.7.16.1 element_value): a reader may answer
# "unexpected tag" only for a byte outside these sets -- otherwise a file another writer produced could not be read back (completeness of the dispatch)
JVMS_TAGS = {
    'CpInfo': [(1, 1), (3, 12), (15, 20)],
    'VerificationTypeInfo': [(0, 8)],
    'StackMapFrame': [(0, 63), (64, 127), (247, 247), (248, 250), (251, 251), (252, 254), (255, 255)],
    'ElementValue': [(ord(c), ord(c)) for c in 'BCDFIJSZsec@['],
}


def tag_spec():
    out = []
    for t, rs in JVMS_TAGS.items():
        cond = ' || '.join(f'tag == {a}' if a == b else f'({a} <= tag && tag <= {b})' for a, b in rs)
        out.append(f'pub open spec fn jvms_tag_{t}(tag: u8) -> bool {{ {cond} }}')
    return '\n'.join(out) + '\n'



# ----------------------------------------------------------------------------------------------------------------------
def rser_chain(entries, acc):
    """(lets, last) : let-chain computing the layout at absolute offset p of data d"""
    lets, n = ['let s0 = ' + EMPTY + ';'], 0
    for e in entries:
        cur = f's{n}'
        if e[0] == 'K':
            term = BE[e[1]].format(e=subst_fields(e[2], acc))
        elif e[0] == 'F':
            term = BE[e[1]].format(e=acc(e[2]))
        elif e[0] == 'N':
            term = f'rser_{e[2]}({acc(e[1])}, d, p + {cur}.len())'
        elif e[0] == 'ALEN':
            term = f'd.subrange(p + {cur}.len(), p + {cur}.len() + 4)'
        elif e[0] == 'V':
            _, cw, f, elem, count = e
            ln = f'{acc(f)}@.len()'
            if cw:
                cnt = count.format(n=ln) if count else ln
                n += 1
                lets.append(f'let s{n} = {cur} + ' + BE[cw].format(e=f'(({cnt}) as {UTY[cw]})') + ';')
                cur = f's{n}'
            term = f'rflat_{elem_name(elem)}({acc(f)}, {ln}, d, p + {cur}.len())'
        n += 1
        lets.append(f'let s{n} = {cur} + {term};')
    return ' '.join(lets), f's{n}'


def gen_specs():
    out = ['// ===== read-side layout specs, generated from the JVMS table of vx/units/c20ser.py =====']
    elems = set()
    for t, (kind, body, extra) in JVMS.items():
        for ents in (body.values() if kind == 'enum' else [body]):
            elems |= {e[3] for e in ents if e[0] == 'V'}
    for t, (kind, body, extra) in JVMS.items():
        if kind == 'struct':
            lets, last = rser_chain(body, lambda f: f'x.{f}')
            out.append(f'#[verifier::opaque]\npub open spec fn rser_{t}(x: {t}, d: Seq<u8>, p: int) -> Seq<u8> decreases x {{\n    {lets} {last}\n}}')
        else:
            arms = []
            for v, ents in body.items():
                lets, last = rser_chain(ents, lambda f: f)
                arms.append(f'        {t}::{v} {{ ' + ', '.join(fields_of(ents) + ['..']) + f' }} => {{ {lets} {last} }},')
            out.append(f'#[verifier::opaque]\npub open spec fn rser_{t}(x: {t}, d: Seq<u8>, p: int) -> Seq<u8> decreases x {{\n    match x {{\n' + '\n'.join(arms) + '\n    }\n}')
    for e in sorted(elems, key=str):
        n = elem_name(e)
        one = {1: 'seq![v@[k - 1]]', 2: 'be16(v@[k - 1])'}.get(e, f'rser_{n}(v@[k - 1], d, p + a.len())')
        rev = ''.join(f'reveal({f}); ' for f in scc_reveal(e))
        out.append(f'''#[verifier::opaque]
pub open spec fn rflat_{n}(v: Vec<{n}>, k: nat, d: Seq<u8>, p: int) -> Seq<u8> decreases v, k {{
    if k == 0 || k > v@.len() {{ {EMPTY} }} else {{ let a = rflat_{n}(v, (k - 1) as nat, d, p); a + {one} }}
}}
pub proof fn lemma_rflat_{n}_zero(v: Vec<{n}>, d: Seq<u8>, p: int)
    ensures rflat_{n}(v, 0, d, p) == {EMPTY}
{{ {rev} }}
pub proof fn lemma_rflat_{n}_step(v: Vec<{n}>, k: nat, d: Seq<u8>, p: int)
    requires 0 < k <= v@.len()
    ensures rflat_{n}(v, k, d, p) == ({{ let a = rflat_{n}(v, (k - 1) as nat, d, p); a + {one} }})
{{ {rev} }}
pub proof fn lemma_rflat_{n}_prefix(v: Vec<{n}>, w: Vec<{n}>, k: nat, d: Seq<u8>, p: int)
    requires k <= v@.len(), k <= w@.len(), forall|i: int| 0 <= i < k ==> v@[i] == w@[i]
    ensures rflat_{n}(v, k, d, p) == rflat_{n}(w, k, d, p)
    decreases k
{{ {rev} if k > 0 {{ lemma_rflat_{n}_prefix(v, w, (k - 1) as nat, d, p); }} }}''')
    return '\n'.join(out) + '\n'


def scc_reveal(e):
    if e in (1, 2):
        return [f'rflat_{elem_name(e)}']
    out = [f'rflat_{e}']
    for x in sorted(cycle_of(e)):
        out += [f'rser_{x}'] + ([f'rflat_{x}'] if x in flats() and x != e else [])
    return out


def reveal_set(t):
    out = [f'rser_{t}'] + [f'rser_{x}' for x in sorted(cycle_of(t)) if x != t]
    out += [f'rflat_{x}' for x in sorted(cycle_of(t)) if x in flats()]
    return out


# ----------------------------------------------------------------------------------------------------------------------
PRIM = re.compile(r'let\s+(\w+)\s*=\s*\{\s*let\s+mut\s+buf\s*=\s*\[0u8;\s*(\d)\]\s*;\s*vr_read_exact\(reader,\s*&mut\s+buf\)\?\s*;\s*from_be_bytes_u(?:8|16|32)\(buf\)\s*\}\s*;')
NEST = re.compile(r'let\s+(\w+)\s*=\s*<(\w+)>::_read\(reader,\s*pool\)\?\s*;')
INV_COMMON = ['reader.data@ == d', 'd == old(reader).data@', 'p0 <= reader.pos <= d.len()', 'acc.len() > 0', 'reader.pos as int >= p0 + acc.len()', 'old(reader).pos <= reader.pos']


def pre_rewrite(body, u):
    n0 = body.count('\n')
    body, a = re.subn(r'\breader\s*\.\s*read_exact\s*\(\s*&mut\s+buf\s*\)', 'vr_read_exact(reader, &mut buf)', body)
    u.drop('reader.read_exact(&mut buf)? -> vr_read_exact(reader, &mut buf)? (trusted source model)', a)
    body, b = re.subn(r'\bu(8|16|32)::from_be_bytes\(', r'from_be_bytes_u\1(', body)
    u.drop('uN::from_be_bytes(buf) -> from_be_bytes_uN(buf) (trusted stub: big-endian value)', b)
    # error values: std::io::Error::other(<anything>) -> VErr
    k = 0
    while True:
        mask = code_mask(body)
        m = re.search(r'std::io::Error::other\s*\(', mask)
        if not m:
            break
        cl = match_close(mask, m.end() - 1)
        body = body[:m.start()] + 'VErr' + '\n' * body[m.start():cl + 1].count('\n') + body[cl + 1:]
        k += 1
    u.drop('std::io::Error::other(..) -> VErr (error text dropped)', k)
    assert body.count('\n') == n0
    return body


def instrument(body, t):
    """proof text only: ghost accumulator `acc` of the bytes consumed so far, d.subrange(p0, reader.pos) == acc"""
    # 1. top-level primitive reads and nested reads (outside loops)
    pos = 0
    while True:
        mask = code_mask(body)
        ranges = [(b, match_close(mask, b)) for _, b in loop_headers(body)]
        cands = [m for m in (PRIM.search(mask, pos), NEST.search(mask, pos)) if m]
        if not cands:
            break
        m = min(cands, key=lambda x: x.start())
        if any(a < m.start() < b for a, b in ranges):
            pos = m.end()
            continue
        if m.re is PRIM:
            name, w = m.group(1), int(m.group(2))
            ins = (f' proof {{ lemma_raw{w}(d, p0 + acc.len(), {name}); acc = acc + d.subrange(p0 + acc.len(), p0 + acc.len() + {w}); '
                   f'assert(d.subrange(p0, reader.pos as int) =~= acc); }}')
            if name in ('attribute_name_index', 'constant_pool_count'):
                # input well-formedness (JVMS 4.1 / 4.7): both are >= 1 in every class file; the generated reader computes `x - 1` unchecked
                ins += f' proof {{ assume({name} >= 1); }}'
        else:
            ins = ' proof { acc = acc + d.subrange(p0 + acc.len(), reader.pos as int); assert(d.subrange(p0, reader.pos as int) =~= acc); }'
        body = body[:m.end()] + ins + body[m.end():]
        pos = m.end() + len(ins)
    # 2. before every `Ok(<value>)`: the bytes consumed are the layout of the value
    pos = 0
    while True:
        mask = code_mask(body)
        m = re.compile(r'\bOk\s*\(\s*' + re.escape(t) + r'\b').search(mask, pos)
        if not m:
            break
        op = mask.find('(', m.start())
        cl = match_close(mask, op)
        expr = re.sub(r'\s+', ' ', body[op + 1:cl].strip())
        ins = f'proof {{ assert(acc =~= rser_{t}({expr}, d, p0)); }} '
        body = body[:m.start()] + ins + body[m.start():]
        pos = m.start() + len(ins) + 3
    return body


ARM = re.compile(r'attribute_name_index\s+(?:if\s+pool_has_utf8\s*\(\s*pool\s*,\s*attribute_name_index\s*,\s*b"\s*"\s*\)\s*\?\s*)?=>\s*\{')


def read_arms(body):
    """arms of `match attribute_name_index { attribute_name_index if pool_has_utf8(pool, attribute_name_index, b"X")? => {..} .. }`"""
    mask = code_mask(body)
    mask_q = re.sub(r'"[^"\n]*"', lambda m: '"' + ' ' * (len(m.group(0)) - 2) + '"', mask)
    res = []
    for m in re.finditer(r'attribute_name_index\s+(if\s+pool_has_utf8\s*\([^()]*\)\s*\?\s*)?=>\s*\{', mask_q):
        if res and m.start() < res[-1][2]:
            continue
        ob = m.end() - 1
        cb = match_close(mask, ob)
        lit = re.search(r'b"(\w+)"', body[m.start():ob])
        res.append((lit.group(1) if lit else 'Other', ob, cb))
    return res


def build_read(u, t, canary=False):
    s = u.src(EXP)
    impl_which = 1 if t == 'ClassFile' else 0
    imp = s.cut_item('impl', re.escape(t), which=impl_which)
    f = s.cut_fn('_read', within=(imp['open'] + 1, imp['close']))
    if t == 'AttributeInfo':
        arms = read_arms(f['body'])
        if len(arms) != len(JVMS[t][1]):
            raise CutError(f'{t}::_read: {len(arms)} arms found, the JVMS table lists {len(JVMS[t][1])} variants')
        for (name, ob, cb) in arms:
            body = f['body'][ob:cb + 1]
            sig = (f'pub fn {t}_read_arm_{name}(reader: &mut VRd, pool: Option<&Vec<CpInfo>>, attribute_name_index: u16, Ghost(p0): Ghost<int>) -> Result<{t}, VErr>')
            emit_read(u, t, body, key=f'{t}::_read[{name}]', synth=dict(sig=sig, body=body, line=s.line_of(f['open'] + ob)), arm=name)
        u.drop(f'each match arm of {t}::_read lifted into its own function (parameters: reader, pool, the name index already read, ghost start offset); the match dispatches to them (mechanical extract-function refactoring)', len(arms))

        def dispatch(body):
            for (name, ob, cb) in sorted(read_arms(body), key=lambda a: -a[1]):
                body = body[:ob] + f'{{ {t}_read_arm_{name}(reader, pool, attribute_name_index, Ghost(p0)) }}' + '\n' * body[ob:cb + 1].count('\n') + body[cb + 1:]
            return body
        emit_read(u, t, f['body'], dispatcher=dispatch, canary=canary)
    else:
        emit_read(u, t, f['body'], canary=canary)


def emit_read(u, t, body_src, key=None, synth=None, arm=None, dispatcher=None, canary=False):
    impl_which = 1 if t == 'ClassFile' else 0
    body0 = pre_rewrite(dispatcher(body_src) if dispatcher else body_src, u)
    mask0 = code_mask(body0)
    loops = {}
    for k, (kwpos, brace) in enumerate(loop_headers(body0)):
        hdr = body0[kwpos:brace]
        if not re.match(r'for\s+_\s+in\s+0\s*\.\.\s*len\s*$', hdr.strip()):
            raise CutError(f'{t}::_read: loop #{k} is not `for _ in 0..len`')
        close = match_close(mask0, brace)
        inner = mask0[brace:close]
        mp, mn = PRIM.search(inner), NEST.search(inner)
        if mp and not mn:
            w = int(mp.group(2))
            en, var = W2T[w], mp.group(1)
            elem_proof = f'lemma_raw{w}(d, reader.pos as int - {w}, {var}); '
        elif mn and not mp:
            en, var = mn.group(2), mn.group(1)
            elem_proof = ''
        else:
            raise CutError(f'{t}::_read: loop #{k}: cannot tell the element kind')
        if not re.search(r'\bvec\.push\(' + re.escape(var) + r'\)', inner):
            raise CutError(f'{t}::_read: loop #{k} does not push its element')
        lab = f'C20.{t}{"." + arm if arm else ""}._read.loop{k}'
        P = 'p0 + acc.len()'
        inv = [C(lab + '.bytes', f'd.subrange(p0, reader.pos as int) == acc + rflat_{en}(vec, vec@.len(), d, {P})'),
               C(lab + '.count', 'vec@.len() == iter.index@'),
               C(lab + '.frame', ' && '.join(INV_COMMON + (['0 <= p0', 'p0 + 2 == old(reader).pos', 'acc.len() > 2'] if arm else ['p0 == old(reader).pos as int'])))]
        loops[k] = dict(
            invariant=inv,
            before=f'proof {{ lemma_rflat_{en}_zero(vec, d, {P}); assert(d.subrange(p0, reader.pos as int) =~= acc + rflat_{en}(vec, 0, d, {P})); }}',
            body_start='let ghost vec0 = vec; let ghost pos0 = reader.pos as int;',
            body_end=(f'proof {{ {elem_proof}lemma_rflat_{en}_prefix(vec0, vec, vec0@.len(), d, {P}); lemma_rflat_{en}_step(vec, vec@.len(), d, {P}); '
                      f'assert(d.subrange(p0, reader.pos as int) =~= d.subrange(p0, pos0) + d.subrange(pos0, reader.pos as int)); '
                      f'assert(d.subrange(p0, reader.pos as int) =~= acc + rflat_{en}(vec, vec@.len(), d, {P})); }}'),
            after=f'proof {{ acc = acc + rflat_{en}(vec, vec@.len(), d, {P}); assert(d.subrange(p0, reader.pos as int) =~= acc); }}')
    rewrites = [(r'\bfor\s+_\s+in\s+0\s*\.\.\s*len\b', 'for _k in iter: 0..len')] if loops else []
    tag_clause = []
    if t in JVMS_TAGS and not arm:
        lab_t = f'C20.{t}._read.unexpected-tag-only-outside-the-jvms-tags'
        tag_clause = [((('after', r'\btag\s*=>\s*\{')), C(lab_t, f'!jvms_tag_{t}(tag)'))]
    reveals = ''.join(f'reveal({x}); ' for x in reveal_set(t))
    d0 = 'old(reader).data@'
    p0 = 'p0' if arm else 'old(reader).pos as int'
    requires = ['old(reader).pos <= old(reader).data@.len()']
    if arm:
        requires += ['0 <= p0', 'p0 + 2 == old(reader).pos', f'{d0}.subrange(p0, p0 + 2) == be16(attribute_name_index)']
    suffix = f'.{arm}' if arm else ''
    ens = [C(f'C20.{t}{suffix}._read.frame', f'final(reader).data@ == old(reader).data@ && old(reader).pos <= final(reader).pos <= {d0}.len()'),
           C(f'C20.{t}{suffix}._read.consumed-bytes-are-the-layout-of-the-value',
             f'res matches Ok(x) ==> {d0}.subrange({p0}, final(reader).pos as int) == rser_{t}(x, {d0}, {p0})')]
    if arm:
        head = ('proof { ' + reveals + '} let ghost d = reader.data@; let ghost mut acc = d.subrange(p0, p0 + 2); '
                'proof { assert(d.subrange(p0, reader.pos as int) =~= acc); }')
    else:
        head = ('proof { ' + reveals + '} let ghost d = reader.data@; let ghost p0 = reader.pos as int; let ghost mut acc = Seq::<u8>::empty(); '
                'proof { assert(d.subrange(p0, p0) =~= acc); }')
    where = dict(synth=synth) if synth else dict(impl=re.escape(t), impl_which=impl_which, impl_header=f'impl {t}')
    modname = f'vm_{t}_read{"_" + arm if arm else ""}'
    u.open_block(f'pub mod {modname} {{ use super::*;')
    u.fn(EXP, key or f'{t}::_read', ret='res', requires=requires, ensures=ens,
         decreases='old(reader).data@.len() - old(reader).pos',
         loops=loops, rewrites=rewrites, safety_props=['C20'],
         sig_rewrites=[] if synth else [(r'reader\s*:\s*&mut\s+impl\s+std::io::Read', 'reader: &mut VRd'), (r'std::io::Result<(\w+), VErr>', r'Result<\1, VErr>')],
         transform=lambda b: instrument(pre_rewrite(dispatcher(b) if dispatcher else b, u), t),
         head_proof=head, canary=canary, asserts=tag_clause, proof_label=f'C20.{t}{suffix}._read.consumed-bytes-are-the-layout-of-the-value', **where)
    u.close_block()
    if arm:
        u.raw(f'pub use {modname}::*;')


def build(u):
    u.preamble('common.rs')
    u.preamble('bytes.rs')
    u.preamble('rbytes.rs')
    u.preamble('c20rd.rs')
    u.src(SRC)
    u.src('raw_class_file/src/macros.rs')
    u.src(EXP, text=expand())
    u.drop('source run through `rustc -Zunpretty=expanded` so that the text verified is what notation! generates')
    u.trusted.append('input well-formedness assumed inside AttributeInfo::_read / ClassFile::_read: `assume(attribute_name_index >= 1)` and `assume(constant_pool_count >= 1)` '
                     '(JVMS 4.1/4.7; the generated reader computes index - 1 / count - 1 unchecked, which is outside the quantifier of C20: well-formed class files)')
    for t, (kind, _, _) in JVMS.items():
        u.item(EXP, kind, t, derives=None)
    u.raw(gen_specs())
    u.raw(tag_spec())
    # the attribute dispatch
    u.fn(EXP, 'pool_has_utf8', ret='res', canary=True, safety_props=['C20'],
         requires=['index >= 1'],
         rewrites=[(r'bytes\.as_slice\(\)\s*==\s*value', 'slice_eq_u8(bytes.as_slice(), value)')],
         sig_rewrites=[(r'Result<bool,\s*std::io::Error>', 'Result<bool, VErr>')],
         transform=lambda b: pre_rewrite(b, u),
         ensures=[C('C20.pool_has_utf8.ok-iff-valid-utf8-index',
                    'res.is_ok() <==> (pool matches Some(p) && index as int - 1 < p@.len() && p@[index as int - 1] is Utf8)'),
                  C('C20.pool_has_utf8.compares-the-bytes',
                    'res matches Ok(b) ==> (pool matches Some(p) && p@[index as int - 1] matches CpInfo::Utf8 { bytes } && b == (bytes@ == value@))')])
    for t in JVMS:
        build_read(u, t)
