"""rdecode -- second pass of the code reader (duke/src/class_reader.rs read_code): the closure that decodes one instruction,
`(|| Ok(match r.read_u8()? { .. }))()`, lifted mechanically into `decode_instruction(r, labels, pool, bootstrap_methods, opcode_pos, code_length)`.

Specification: `decodes(d, p, i, ..)`, generated from the opcode table OPS below, which is written from JVMS chapter 6/7 (opcode numbers and
operand formats), not from the crate's match: for every opcode the instruction returned is the one the JVMS assigns, with the operand bytes
decoded as the format says (signed/unsigned, width, `wide` forms), branch targets resolved through the offset -> Label table, constant-pool
operands resolved through the (assumed) pool accessors with exactly the index found in the code.  The position advances by `insn_len`.
Also ArrayType::from_atype against JVMS Table 6.5.newarray-A.
"""
import re

from vx.unit import C
from vx.rustcut import CutError, code_mask, match_close, loop_headers
from vx.units._cread import add_classread
from vx.units.rlabels import add_reader_labels
from vx.units.rbranch import add_branch_helpers
from vx.units.rscan import SPEC as SCAN_SPEC

PROPS = ['C01']
RLIMIT = 200
MULTIPLE_ERRORS = 2   # a failing 200-arm query is expensive: do not ask the solver for many more counterexamples
R = 'duke/src/class_reader.rs'
CC = 'duke/src/class_constants.rs'
CODE = 'duke/src/tree/method/code.rs'

# (opcode, variant, kind).  kinds: plain | i8 | i16 | ldc1 | ldc2 | lv1 (u1 local index) | lvn:<k> (implicit index k) | iinc | br16 | br32 | ret
#   | field | mvirtual | mspecial | mstatic | miface | indy | class | newarray | multi | tswitch | lswitch | wide
PLAIN = {
    0x00: 'Nop', 0x01: 'AConstNull', 0x02: 'IConstM1', 0x03: 'IConst0', 0x04: 'IConst1', 0x05: 'IConst2', 0x06: 'IConst3', 0x07: 'IConst4', 0x08: 'IConst5',
    0x09: 'LConst0', 0x0a: 'LConst1', 0x0b: 'FConst0', 0x0c: 'FConst1', 0x0d: 'FConst2', 0x0e: 'DConst0', 0x0f: 'DConst1',
    0x2e: 'IALoad', 0x2f: 'LALoad', 0x30: 'FALoad', 0x31: 'DALoad', 0x32: 'AALoad', 0x33: 'BALoad', 0x34: 'CALoad', 0x35: 'SALoad',
    0x4f: 'IAStore', 0x50: 'LAStore', 0x51: 'FAStore', 0x52: 'DAStore', 0x53: 'AAStore', 0x54: 'BAStore', 0x55: 'CAStore', 0x56: 'SAStore',
    0x57: 'Pop', 0x58: 'Pop2', 0x59: 'Dup', 0x5a: 'DupX1', 0x5b: 'DupX2', 0x5c: 'Dup2', 0x5d: 'Dup2X1', 0x5e: 'Dup2X2', 0x5f: 'Swap',
    0x60: 'IAdd', 0x61: 'LAdd', 0x62: 'FAdd', 0x63: 'DAdd', 0x64: 'ISub', 0x65: 'LSub', 0x66: 'FSub', 0x67: 'DSub',
    0x68: 'IMul', 0x69: 'LMul', 0x6a: 'FMul', 0x6b: 'DMul', 0x6c: 'IDiv', 0x6d: 'LDiv', 0x6e: 'FDiv', 0x6f: 'DDiv',
    0x70: 'IRem', 0x71: 'LRem', 0x72: 'FRem', 0x73: 'DRem', 0x74: 'INeg', 0x75: 'LNeg', 0x76: 'FNeg', 0x77: 'DNeg',
    0x78: 'IShl', 0x79: 'LShl', 0x7a: 'IShr', 0x7b: 'LShr', 0x7c: 'IUShr', 0x7d: 'LUShr', 0x7e: 'IAnd', 0x7f: 'LAnd',
    0x80: 'IOr', 0x81: 'LOr', 0x82: 'IXor', 0x83: 'LXor',
    0x85: 'I2L', 0x86: 'I2F', 0x87: 'I2D', 0x88: 'L2I', 0x89: 'L2F', 0x8a: 'L2D', 0x8b: 'F2I', 0x8c: 'F2L', 0x8d: 'F2D', 0x8e: 'D2I', 0x8f: 'D2L', 0x90: 'D2F',
    0x91: 'I2B', 0x92: 'I2C', 0x93: 'I2S', 0x94: 'LCmp', 0x95: 'FCmpL', 0x96: 'FCmpG', 0x97: 'DCmpL', 0x98: 'DCmpG',
    0xac: 'IReturn', 0xad: 'LReturn', 0xae: 'FReturn', 0xaf: 'DReturn', 0xb0: 'AReturn', 0xb1: 'Return',
    0xbe: 'ArrayLength', 0xbf: 'AThrow', 0xc2: 'MonitorEnter', 0xc3: 'MonitorExit',
}
OPS = [(op, v, 'plain') for op, v in PLAIN.items()]
OPS += [(0x10, 'BiPush', 'i8'), (0x11, 'SiPush', 'i16'), (0x12, 'Ldc', 'ldc1'), (0x13, 'Ldc', 'ldc2'), (0x14, 'Ldc', 'ldc2')]
LOADS = ['ILoad', 'LLoad', 'FLoad', 'DLoad', 'ALoad']
STORES = ['IStore', 'LStore', 'FStore', 'DStore', 'AStore']
for k, v in enumerate(LOADS):
    OPS.append((0x15 + k, v, 'lv1'))
    OPS += [(0x1a + 4 * k + n, v, f'lvn:{n}') for n in range(4)]
for k, v in enumerate(STORES):
    OPS.append((0x36 + k, v, 'lv1'))
    OPS += [(0x3b + 4 * k + n, v, f'lvn:{n}') for n in range(4)]
OPS.append((0x84, 'IInc', 'iinc'))
for k, v in enumerate(['IfEq', 'IfNe', 'IfLt', 'IfGe', 'IfGt', 'IfLe', 'IfICmpEq', 'IfICmpNe', 'IfICmpLt', 'IfICmpGe', 'IfICmpGt', 'IfICmpLe', 'IfACmpEq', 'IfACmpNe', 'Goto', 'Jsr']):
    OPS.append((0x99 + k, v, 'br16'))
OPS += [(0xa9, 'Ret', 'lv1'), (0xaa, 'TableSwitch', 'tswitch'), (0xab, 'LookupSwitch', 'lswitch'),
        (0xb2, 'GetStatic', 'field'), (0xb3, 'PutStatic', 'field'), (0xb4, 'GetField', 'field'), (0xb5, 'PutField', 'field'),
        (0xb6, 'InvokeVirtual', 'mvirtual'), (0xb7, 'InvokeSpecial', 'mspecial'), (0xb8, 'InvokeStatic', 'mspecial'),
        (0xb9, 'InvokeInterface', 'miface'), (0xba, 'InvokeDynamic', 'indy'),
        (0xbb, 'New', 'class'), (0xbc, 'NewArray', 'newarray'), (0xbd, 'ANewArray', 'class'), (0xc0, 'CheckCast', 'class'), (0xc1, 'InstanceOf', 'class'),
        (0xc4, None, 'wide'), (0xc5, 'MultiANewArray', 'multi'), (0xc6, 'IfNull', 'br16'), (0xc7, 'IfNonNull', 'br16'), (0xc8, 'Goto', 'br32'), (0xc9, 'Jsr', 'br32')]
WIDE = [(0x15 + k, v) for k, v in enumerate(LOADS)] + [(0x36 + k, v) for k, v in enumerate(STORES)] + [(0xa9, 'Ret')]


def lab(t):
    return f'(has_label(l, {t}) && {{LV}} == l.labels@[({t}) as u16])'


def cond_for(op, v, kind):
    I = 'Instruction'
    u1 = 'd[p + 1] as int'
    u2 = 'val16(d.subrange(p + 1, p + 3))'
    if kind == 'plain':
        return f'i == {I}::{v}'
    if kind == 'i8':
        return f'i matches {I}::{v}(x) && x as int == sval8(d.subrange(p + 1, p + 2))'
    if kind == 'i16':
        return f'i matches {I}::{v}(x) && x as int == sval16(d.subrange(p + 1, p + 3))'
    if kind == 'ldc1':
        return f'i matches {I}::{v}(x) && x == sp_loadable(pool, d[p + 1] as u16, bsm)'
    if kind == 'ldc2':
        return f'i matches {I}::{v}(x) && x == sp_loadable(pool, {u2} as u16, bsm)'
    if kind == 'lv1':
        return f'i matches {I}::{v}(x) && x.index as int == {u1}'
    if kind.startswith('lvn:'):
        return f'i matches {I}::{v}(x) && x.index == {kind[4:]}'
    if kind == 'iinc':
        return f'i matches {I}::{v}(x, c) && x.index as int == {u1} && c as int == sval8(d.subrange(p + 2, p + 3))'
    if kind == 'br16':
        return f'i matches {I}::{v}(x) && ' + lab('p + sval16(d.subrange(p + 1, p + 3))').replace('{LV}', 'x')
    if kind == 'br32':
        return f'i matches {I}::{v}(x) && ' + lab('p + sval32(d.subrange(p + 1, p + 5))').replace('{LV}', 'x')
    if kind == 'field':
        return f'i matches {I}::{v}(x) && x == sp_field_ref(pool, {u2} as u16)'
    if kind == 'mvirtual':
        return f'i matches {I}::{v}(x) && x == sp_method_ref(pool, {u2} as u16)'
    if kind == 'mspecial':
        return f'i matches {I}::{v}(x, b) && (x, b) == sp_method_or_iface_ref(pool, {u2} as u16)'
    if kind == 'miface':
        return f'i matches {I}::{v}(x) && x == sp_iface_method_ref(pool, {u2} as u16)'
    if kind == 'indy':
        return f'i matches {I}::{v}(x) && x == sp_invoke_dynamic(pool, {u2} as u16, bsm)'
    if kind == 'class':
        return f'i matches {I}::{v}(x) && x == sp_class(pool, {u2} as u16)'
    if kind == 'newarray':
        return f'i matches {I}::{v}(x) && jvms_atype({u1}) == Some(x)'
    if kind == 'multi':
        return f'i matches {I}::{v}(x, n) && x == sp_class(pool, {u2} as u16) && n == d[p + 3]'
    if kind == 'tswitch':
        q = 'sw_base(p)'
        n = f'(sval32(d.subrange({q} + 8, {q} + 12)) - sval32(d.subrange({q} + 4, {q} + 8)) + 1)'
        return (f'i matches {I}::TableSwitch {{ default, low, high, table }} && ' + lab(f'p + sval32(d.subrange({q}, {q} + 4))').replace('{LV}', 'default') +
                f' && low as int == sval32(d.subrange({q} + 4, {q} + 8)) && high as int == sval32(d.subrange({q} + 8, {q} + 12)) && table@.len() == {n}'
                f' && (forall|j: int| 0 <= j < table@.len() ==> has_label(l, #[trigger] sw_target(d, p, 12, 4, j)) && table@[j] == l.labels@[sw_target(d, p, 12, 4, j) as u16])')
    if kind == 'lswitch':
        q = 'sw_base(p)'
        return (f'i matches {I}::LookupSwitch {{ default, pairs }} && ' + lab(f'p + sval32(d.subrange({q}, {q} + 4))').replace('{LV}', 'default') +
                f' && pairs@.len() == sval32(d.subrange({q} + 4, {q} + 8))'
                f' && (forall|j: int| 0 <= j < pairs@.len() ==> has_label(l, #[trigger] sw_target(d, p, 8, 8, j)) && pairs@[j].1 == l.labels@[sw_target(d, p, 8, 8, j) as u16]'
                f' && pairs@[j].0 as int == sval32(d.subrange({q} + 8 + 8 * j, {q} + 12 + 8 * j)))')
    if kind == 'wide':
        w2 = 'val16(d.subrange(p + 2, p + 4))'
        alts = [f'(d[p + 1] == {wop:#x} && (i matches {I}::{wv}(x) && x.index as int == {w2}))' for wop, wv in WIDE]
        alts.append(f'(d[p + 1] == 0x84 && (i matches {I}::IInc(x, c) && x.index as int == {w2} && c as int == sval16(d.subrange(p + 4, p + 6))))')
        return '(' + ' || '.join(alts) + ')'
    raise ValueError(kind)


def gen_decodes():
    # split into several spec functions (by opcode range) so that each definition stays small
    groups = {}
    for op, v, kind in sorted(OPS):
        groups.setdefault(op >> 4, []).append((op, v, kind))
    out = []
    for g, items in sorted(groups.items()):
        body = ' else '.join(f'if op == {op:#04x} {{ {cond_for(op, v, kind)} }}' for op, v, kind in items) + ' else { false }'
        out.append(f'pub open spec fn decodes_{g:x}(d: Seq<u8>, p: int, i: Instruction, l: Labels, pool: PoolRead, bsm: Option<Vec<BootstrapMethodRead>>) -> bool {{\n    let op = d[p] as int;\n    {body}\n}}')
    disp = ' else '.join(f'if op / 16 == {g} {{ decodes_{g:x}(d, p, i, l, pool, bsm) }}' for g in sorted(groups)) + ' else { false }'
    out.append(f'pub open spec fn decodes(d: Seq<u8>, p: int, i: Instruction, l: Labels, pool: PoolRead, bsm: Option<Vec<BootstrapMethodRead>>) -> bool {{\n    let op = d[p] as int;\n    {disp}\n}}')
    return '\n'.join(out) + '\n'


STUBS = r'''
// ---- opaque stand-ins for the tree types the pool resolves to (external crate types / string newtypes), and the assumed pool accessors ----
// TRUSTED: VLoadable/VFieldRef/VMethodRef/VInvokeDynamic/VClassName stand in for duke's Loadable/FieldRef/MethodRef/InvokeDynamic/ClassName; PoolRead and BootstrapMethodRead are opaque here (unit rpool verifies the pool itself)
#[verifier::external_body] pub struct VLoadable { _p: () }
#[verifier::external_body] pub struct VFieldRef { _p: () }
#[verifier::external_body] pub struct VMethodRef { _p: () }
#[verifier::external_body] pub struct VInvokeDynamic { _p: () }
#[verifier::external_body] pub struct VClassName { _p: () }
#[verifier::external_body] pub struct PoolRead { _p: () }
#[verifier::external_body] pub struct BootstrapMethodRead { _p: () }
pub uninterp spec fn sp_loadable(pool: PoolRead, index: u16, bsm: Option<Vec<BootstrapMethodRead>>) -> VLoadable;
pub uninterp spec fn sp_field_ref(pool: PoolRead, index: u16) -> VFieldRef;
pub uninterp spec fn sp_method_ref(pool: PoolRead, index: u16) -> VMethodRef;
pub uninterp spec fn sp_iface_method_ref(pool: PoolRead, index: u16) -> VMethodRef;
pub uninterp spec fn sp_method_or_iface_ref(pool: PoolRead, index: u16) -> (VMethodRef, bool);
pub uninterp spec fn sp_invoke_dynamic(pool: PoolRead, index: u16, bsm: Option<Vec<BootstrapMethodRead>>) -> VInvokeDynamic;
pub uninterp spec fn sp_class(pool: PoolRead, index: u16) -> VClassName;
// TRUSTED: external_body PoolRead::get_* : constant-pool resolution is not verified here; assumed to be a function of (pool, index[, bootstrap methods])
impl PoolRead {
    #[verifier::external_body] pub fn get_loadable(&self, index: u16, bootstrap_methods: &Option<Vec<BootstrapMethodRead>>) -> (res: Result<VLoadable, VErr>)
        ensures res matches Ok(v) ==> v == sp_loadable(*self, index, *bootstrap_methods) { unimplemented!() }
    #[verifier::external_body] pub fn get_field_ref(&self, index: u16) -> (res: Result<VFieldRef, VErr>)
        ensures res matches Ok(v) ==> v == sp_field_ref(*self, index) { unimplemented!() }
    #[verifier::external_body] pub fn get_method_ref(&self, index: u16) -> (res: Result<VMethodRef, VErr>)
        ensures res matches Ok(v) ==> v == sp_method_ref(*self, index) { unimplemented!() }
    #[verifier::external_body] pub fn get_interface_method_ref(&self, index: u16) -> (res: Result<VMethodRef, VErr>)
        ensures res matches Ok(v) ==> v == sp_iface_method_ref(*self, index) { unimplemented!() }
    #[verifier::external_body] pub fn get_method_ref_or_interface_method_ref(&self, index: u16) -> (res: Result<(VMethodRef, bool), VErr>)
        ensures res matches Ok(v) ==> v == sp_method_or_iface_ref(*self, index) { unimplemented!() }
    #[verifier::external_body] pub fn get_invoke_dynamic(&self, index: u16, bootstrap_methods: &Option<Vec<BootstrapMethodRead>>) -> (res: Result<VInvokeDynamic, VErr>)
        ensures res matches Ok(v) ==> v == sp_invoke_dynamic(*self, index, *bootstrap_methods) { unimplemented!() }
    #[verifier::external_body] pub fn get_class(&self, index: u16) -> (res: Result<VClassName, VErr>)
        ensures res matches Ok(v) ==> v == sp_class(*self, index) { unimplemented!() }
}
// JVMS Table 6.5.newarray-A
pub open spec fn jvms_atype(a: int) -> Option<ArrayType> {
    if a == 4 { Some(ArrayType::Boolean) } else if a == 5 { Some(ArrayType::Char) } else if a == 6 { Some(ArrayType::Float) } else if a == 7 { Some(ArrayType::Double) }
    else if a == 8 { Some(ArrayType::Byte) } else if a == 9 { Some(ArrayType::Short) } else if a == 10 { Some(ArrayType::Int) } else if a == 11 { Some(ArrayType::Long) } else { None }
}
'''


def second_pass_closure(u):
    s = u.src(R)
    f = s.cut_fn('read_code')
    body = f['body']
    mask = code_mask(body)
    ms = list(re.finditer(r'\(\|\|\s*Ok\s*\(\s*match\s+r\.read_u8\(\)\?\s*\{', mask))
    if len(ms) != 1:
        raise CutError(f'read_code: expected exactly one decoding closure `(|| Ok(match r.read_u8()? {{`, found {len(ms)}')
    m = ms[0]
    okp = mask.find('(', mask.find('Ok', m.start()))
    okc = match_close(mask, okp)
    if not re.match(r'\s*\)\s*\(\s*\)', mask[okc + 1:okc + 12]):
        raise CutError('read_code: the decoding closure is not invoked in place')
    text = '{ ' + body[mask.find('Ok', m.start()):okc + 1] + ' }'
    u.drop('region of read_code lifted into a function: the decoding closure `(|| Ok(match r.read_u8()? {..}))()` of the second pass -> fn decode_instruction(r, labels, pool, bootstrap_methods, opcode_pos, code_length)')
    return dict(body=text, line=s.line_of(f['open'] + m.start()))


def split_arms(text):
    """arms of the single top-level `match` that forms `text` = `Ok(match r.read_u8()? { .. })`: [(pattern, body)], plus the offsets for rebuilding"""
    mask = code_mask(text)
    m = re.search(r'match\s+r\.read_u8\(\)\?\s*\{', mask)
    ob = m.end() - 1
    cb = match_close(mask, ob)
    arms = []
    i = ob + 1
    while True:
        a = mask.find('=>', i, cb)
        if a < 0:
            break
        pat = (i, a)
        j = a + 2
        while mask[j] in ' \t\n':
            j += 1
        if mask[j] == '{':
            e = match_close(mask, j)
            bs, be, k = j, e + 1, e + 1
            while k < cb and mask[k] in ' \t':
                k += 1
            if k < cb and mask[k] == ',':
                k += 1
        else:
            k = j
            while k < cb:
                if mask[k] in '([{':
                    k = match_close(mask, k)
                elif mask[k] == ',':
                    break
                k += 1
            bs, be = j, k
            k += 1
        arms.append(dict(pat=pat, body=(bs, be), end=k))
        i = k
    return m.start(), ob, cb, arms


def pattern_cond(pat, x):
    """boolean spec expression for `x matches pat` (constants, `|` alternatives, inclusive ranges)"""
    alts = []
    for alt in pat.split('|'):
        alt = alt.strip()
        if '..=' in alt:
            lo, hi = [s.strip() for s in alt.split('..=')]
            alts.append(f'({lo} <= {x} && {x} <= {hi})')
        else:
            alts.append(f'{x} == {alt}')
    return '(' + ' || '.join(alts) + ')'


def build(u):
    u.preamble('common.rs')
    u.preamble('bytes.rs')
    u.preamble('rbytes.rs')
    add_classread(u, [], with_pos=False)
    u.item(CC, 'mod', 'opcode')
    u.item(CC, 'mod', 'atype')
    add_reader_labels(u, [])
    add_branch_helpers(u, [])
    u.raw(SCAN_SPEC)
    u.item(CODE, 'enum', 'ArrayType', derives=['Copy', 'Clone', 'PartialEq', 'Eq'])
    u.raw(STUBS)
    u.item(CODE, 'enum', 'Instruction', derives=[],
           rewrites=[(r'\bLoadable\b', 'VLoadable'), (r'\bFieldRef\b', 'VFieldRef'), (r'\bMethodRef\b', 'VMethodRef'), (r'\(InvokeDynamic\)', '(VInvokeDynamic)'), (r'\bClassName\b', 'VClassName')])
    u.raw(gen_decodes())
    u.fn(CODE, 'ArrayType::from_atype', ret='res',
         ensures=[C('C01.atype.table', 'res matches Ok(t) ==> jvms_atype(atype as int) == Some(t)'),
                  C('C01.atype.ok-iff-in-table', 'res.is_ok() <==> jvms_atype(atype as int) is Some')])
    clo = second_pass_closure(u)
    text = clo['body']          # `{ Ok(match r.read_u8()? { arms }) }`
    mstart, ob, cb, arms = split_arms(text)
    line0 = clo['line']
    d0 = 'old(r).data()'
    P = '(opcode_pos as int)'
    q = f'sw_base({P})'
    ARGS = 'r, labels, pool, bootstrap_methods, opcode_pos, code_length'
    SIG = 'r: &mut Rd, labels: &Labels, pool: &PoolRead, bootstrap_methods: &Option<Vec<BootstrapMethodRead>>, opcode_pos: u16, code_length: u16'
    ghost = f'0 <= {P} && {d0}.len() <= 65535 && code_length as int == {d0}.len() && labels_wf(*labels) && r.data() == {d0}'
    opt = [(r'align_to_4_byte_boundary\(&mut r\)', 'align_to_4_byte_boundary(r)'),
           (r'for _ in 0\.\.n\b', 'for _i in iter: 0..n'),
           (r'let index = shifted & 0b11;', 'proof { assert(shifted & 0b11 == shifted % 4 && shifted >> 2 == shifted / 4) by (bit_vector); } let index = shifted & 0b11;'),
           (r'let mut pairs = Vec::with_capacity', 'let mut pairs: Vec<(i32, Label)> = Vec::with_capacity'),
           (r'let mut table = Vec::with_capacity', 'let mut table: Vec<Label> = Vec::with_capacity')]
    loops_for = {
        'TABLESWITCH': {0: dict(invariant=[
            C('C01.decode.tableswitch.inv.pos', f'r.pos() == {q} + 12 + 4 * iter.index@ && table@.len() == iter.index@'),
            C('C01.decode.tableswitch.inv.frame', ghost),
            C('C01.decode.tableswitch.inv.entries', f'forall|j: int| 0 <= j < iter.index@ ==> has_label(*labels, #[trigger] sw_target({d0}, {P}, 12, 4, j)) && table@[j] == labels.labels@[sw_target({d0}, {P}, 12, 4, j) as u16]'),
        ])},
        'LOOKUPSWITCH': {0: dict(invariant=[
            C('C01.decode.lookupswitch.inv.pos', f'r.pos() == {q} + 8 + 8 * iter.index@ && pairs@.len() == iter.index@'),
            C('C01.decode.lookupswitch.inv.frame', ghost),
            C('C01.decode.lookupswitch.inv.entries', f'forall|j: int| 0 <= j < iter.index@ ==> has_label(*labels, #[trigger] sw_target({d0}, {P}, 8, 8, j)) && pairs@[j].1 == labels.labels@[sw_target({d0}, {P}, 8, 8, j) as u16] '
                                                     f'&& pairs@[j].0 as int == sval32({d0}.subrange({q} + 8 + 8 * j, {q} + 12 + 8 * j))'),
        ])},
    }
    # ---- every arm `PATTERN => EXPR` becomes fn decode_arm_<name>(.., opcode) -> Result<Instruction> { Ok(EXPR) }; the match calls it
    disp = text
    lifted = 0
    names = set()
    for arm in reversed(arms):
        pat_txt = text[arm['pat'][0]:arm['pat'][1]].strip().lstrip(',').strip()
        bind = None
        mb = re.match(r'^([a-z_][a-z0-9_]*)\s*@\s*(.*)$', pat_txt, re.S)
        if mb:
            bind, pat_core = mb.group(1), mb.group(2).strip()
        else:
            pat_core = pat_txt
        if re.match(r'^[a-z_][a-z0-9_]*$', pat_core):
            continue            # catch-all arm binding the opcode (`opcode => bail!(..)`): stays in the dispatcher
        body_txt = text[arm['body'][0]:arm['body'][1]]
        if re.fullmatch(r'\s*bail!\s*\(.*\)\s*', body_txt, re.S):
            continue            # reserved opcodes rejected in place
        name = re.sub(r'[^A-Za-z0-9]+', '_', pat_core.replace('opcode::', '')).strip('_')
        if name in names:
            raise CutError(f'read_code: two arms of the decoding match are both named {name}')
        names.add(name)
        key = name.split('_')[0] if name in ('TABLESWITCH', 'LOOKUPSWITCH') else name
        line = line0 + text.count('\n', 0, arm['body'][0])
        cond = pattern_cond(pat_core, 'opcode')
        u.fn(R, f'read_code::decode_arm_{name}', ret='res',
             synth=dict(sig=f'pub fn decode_arm_{name}<Rd: CodeReadHelper>({SIG}, {bind or "opcode"}: u8) -> Result<Instruction>', body='{ Ok(' + body_txt + ') }', line=line),
             sig_rewrites=[] if not bind or bind == 'opcode' else [],
             requires=[f'old(r).pos() == {P} + 1', f'{P} < {d0}.len()', f'{d0}.len() <= 65535', f'code_length as int == {d0}.len()', 'labels_wf(*labels)',
                       f'{bind or "opcode"} == {d0}[{P}]', cond.replace('opcode ==', f'{bind or "opcode"} ==').replace('<= opcode &&', f'<= {bind or "opcode"} &&').replace('&& opcode <=', f'&& {bind or "opcode"} <=')],
             opt_rewrites=opt, loops=loops_for.get(name, None),
             ensures=[C(f'C01.decode.{name}.instruction-per-jvms', f'res matches Ok(i) ==> decodes({d0}, {P}, i, *labels, *pool, *bootstrap_methods)'),
                      C(f'C01.decode.{name}.advances-by-the-instruction-length', f'res.is_ok() ==> final(r).pos() == {P} + insn_len({d0}, {P})'),
                      C(f'C01.decode.{name}.frame', f'final(r).data() == {d0}')])
        call = f'decode_arm_{name}({ARGS}, opcode_byte)?'
        nl = '\n' * text[arm['pat'][0]:arm['body'][1]].count('\n')
        lead = re.match(r'^[\s,]*', text[arm['pat'][0]:arm['pat'][1]]).group(0)
        disp = disp[:arm['pat'][0]] + lead + pat_core + ' => ' + call + nl + disp[arm['body'][1]:]
        lifted += 1
    if lifted < 150:
        raise CutError(f'read_code: only {lifted} arms of the decoding match could be lifted')
    disp = re.sub(r'match\s+r\.read_u8\(\)\?\s*\{', 'match opcode_byte {', disp, count=1)
    disp = '{ let opcode_byte = r.read_u8()?; ' + disp[1:]
    u.drop(f'decoding match of read_code: {lifted} arms lifted to functions decode_arm_<OPCODE>(r, labels, pool, bootstrap_methods, opcode_pos, code_length, opcode) {{ Ok(<arm expression>) }}; '
           'the match (scrutinee bound to opcode_byte first) calls them and is verified against the whole-instruction contract')
    p0 = 'old(r).pos()'
    u.fn(R, 'read_code::decode_instruction', ret='res', canary=True,
         synth=dict(sig=f'pub fn decode_instruction<Rd: CodeReadHelper>({SIG}) -> Result<Instruction>', body=disp, line=clo['line']),
         requires=[f'0 <= {p0}', f'{d0}.len() <= 65535', f'opcode_pos as int == {p0}', f'code_length as int == {d0}.len()', 'labels_wf(*labels)'],
         ensures=[
             C('C01.decode.instruction-per-jvms', f'res matches Ok(i) ==> decodes({d0}, {p0}, i, *labels, *pool, *bootstrap_methods)'),
             C('C01.decode.advances-by-the-instruction-length', f'res.is_ok() ==> final(r).pos() == {p0} + insn_len({d0}, {p0})'),
             C('C01.decode.frame', f'final(r).data() == {d0}'),
         ])
