"""wencode -- instruction emission of the class writer (duke/src/simple_class_writer.rs write_code): the closure
`(|| -> Result<()> { match &instruction.instruction { .. }; Ok(()) })()` lifted mechanically into
`encode_instruction(w, insn, pool, labels, wide, unwritten, opcode_pos, instruction_index)`.

Specification `enc_ok`, generated from the same opcode table as unit rdecode (JVMS chapter 6/7): for every instruction the bytes appended are the
JVMS encoding - opcode, operand widths and order, shortest form selection (xload_n / xload / wide xload, iinc / wide iinc, ret / wide ret,
ldc / ldc_w / ldc2_w by pool index and constant kind), constant-pool operands are exactly the index the pool handed out for that operand,
invokeinterface carries the argument-slot count and a zero, invokedynamic two zeros; every conditional branch calls the jump helper with the
JVMS opcode and its logical negation (the pair used for the inverted-if trampoline), goto/jsr with their wide forms.
The jump helpers themselves are verified in unit wjump; here they are stubs related to their arguments by an uninterpreted predicate."""
import re

from vx.unit import C
from vx.rustcut import CutError, code_mask, match_close
from vx.units._cwrite import add_classwrite
from vx.units.rdecode import PLAIN, LOADS, STORES

PROPS = ['C02']
RLIMIT = 300
MULTIPLE_ERRORS = 2
W = 'duke/src/simple_class_writer.rs'
CC = 'duke/src/class_constants.rs'
CODE = 'duke/src/tree/method/code.rs'

IFS = [('IfEq', 0x99, 0x9a), ('IfNe', 0x9a, 0x99), ('IfLt', 0x9b, 0x9c), ('IfGe', 0x9c, 0x9b), ('IfGt', 0x9d, 0x9e), ('IfLe', 0x9e, 0x9d),
       ('IfICmpEq', 0x9f, 0xa0), ('IfICmpNe', 0xa0, 0x9f), ('IfICmpLt', 0xa1, 0xa2), ('IfICmpGe', 0xa2, 0xa1), ('IfICmpGt', 0xa3, 0xa4), ('IfICmpLe', 0xa4, 0xa3),
       ('IfACmpEq', 0xa5, 0xa6), ('IfACmpNe', 0xa6, 0xa5), ('IfNull', 0xc6, 0xc7), ('IfNonNull', 0xc7, 0xc6)]   # JVMS: opcode, opcode of the negated condition
GOTOS = [('Goto', 0xa7, 0xc8), ('Jsr', 0xa8, 0xc9)]
POOLED = [('GetStatic', 0xb2, 'field'), ('PutStatic', 0xb3, 'field'), ('GetField', 0xb4, 'field'), ('PutField', 0xb5, 'field'), ('InvokeVirtual', 0xb6, 'method'),
          ('New', 0xbb, 'class'), ('ANewArray', 0xbd, 'class'), ('CheckCast', 0xc0, 'class'), ('InstanceOf', 0xc1, 'class')]

STUBS = r'''
// ---- opaque stand-ins and assumed contracts (the pool is unit wpool / not verified; the jump helpers are unit wjump) ----
// TRUSTED: VLoadable/VFieldRef/VMethodRef/VInvokeDynamic/VClassName stand in for duke's tree types; PoolWrite is opaque; put_* are assumed to return the index the pool assigns to the operand (a function of the pool state and the operand)
#[verifier::external_body] pub struct VLoadable { _p: () }
#[verifier::external_body] pub struct VFieldRef { _p: () }
#[verifier::external_body] pub struct VMethodRef { _p: () }
#[verifier::external_body] pub struct VInvokeDynamic { _p: () }
#[verifier::external_body] pub struct VClassName { _p: () }
#[verifier::external_body] pub struct PoolWrite { _p: () }
#[verifier::external_body] pub struct Labels { _p: () }
#[verifier::external_body] pub struct UnwrittenLabel { _p: () }
pub uninterp spec fn ix_loadable(p: PoolWrite, v: VLoadable) -> u16;
pub uninterp spec fn ix_field(p: PoolWrite, v: VFieldRef) -> u16;
pub uninterp spec fn ix_method(p: PoolWrite, v: VMethodRef) -> u16;
pub uninterp spec fn ix_iface_method(p: PoolWrite, v: VMethodRef) -> u16;
pub uninterp spec fn ix_method_or_iface(p: PoolWrite, v: VMethodRef, is_interface: bool) -> u16;
pub uninterp spec fn ix_indy(p: PoolWrite, v: VInvokeDynamic) -> u16;
pub uninterp spec fn ix_class(p: PoolWrite, v: VClassName) -> u16;
pub uninterp spec fn ld_is_wide(v: VLoadable) -> bool;      // long, double, or a dynamic constant of descriptor J / D (JVMS 6.5.ldc2_w)
pub uninterp spec fn args_size(m: VMethodRef) -> u8;        // argument slots incl. the receiver (JVMS 6.5.invokeinterface count)
impl PoolWrite {
    #[verifier::external_body] pub fn put_loadable(&mut self, v: &VLoadable) -> (res: Result<u16, VErr>) ensures res matches Ok(i) ==> i == ix_loadable(*old(self), *v) { unimplemented!() }
    #[verifier::external_body] pub fn put_field_ref(&mut self, v: &VFieldRef) -> (res: Result<u16, VErr>) ensures res matches Ok(i) ==> i == ix_field(*old(self), *v) { unimplemented!() }
    #[verifier::external_body] pub fn put_method_ref(&mut self, v: &VMethodRef) -> (res: Result<u16, VErr>) ensures res matches Ok(i) ==> i == ix_method(*old(self), *v) { unimplemented!() }
    #[verifier::external_body] pub fn put_interface_method_ref(&mut self, v: &VMethodRef) -> (res: Result<u16, VErr>) ensures res matches Ok(i) ==> i == ix_iface_method(*old(self), *v) { unimplemented!() }
    #[verifier::external_body] pub fn put_method_ref_or_interface_method_ref(&mut self, v: (&VMethodRef, bool)) -> (res: Result<u16, VErr>) ensures res matches Ok(i) ==> i == ix_method_or_iface(*old(self), *v.0, v.1) { unimplemented!() }
    #[verifier::external_body] pub fn put_invoke_dynamic(&mut self, v: &VInvokeDynamic) -> (res: Result<u16, VErr>) ensures res matches Ok(i) ==> i == ix_indy(*old(self), *v) { unimplemented!() }
    #[verifier::external_body] pub fn put_class(&mut self, v: &VClassName) -> (res: Result<u16, VErr>) ensures res matches Ok(i) ==> i == ix_class(*old(self), *v) { unimplemented!() }
}
// TRUSTED: loadable_is_wide / mref_arguments_size: the sub-expressions `match loadable { Double|Long => true, Dynamic(x) => x.descriptor starts with D or J, _ => false }` and `method_ref.desc.get_arguments_size()` (string code) are replaced by these stubs
#[verifier::external_body] pub fn loadable_is_wide(v: &VLoadable) -> (b: bool) ensures b == ld_is_wide(*v) { unimplemented!() }
#[verifier::external_body] pub fn mref_arguments_size(m: &VMethodRef) -> (res: Result<u8, VErr>) ensures res matches Ok(n) ==> n == args_size(*m) { unimplemented!() }
// TRUSTED: pairs_sorted_by_key: the iterator expression `pairs.windows(2).all(|x| ..)` (closures over slices: outside the Verus subset) is replaced by this stub
#[verifier::external_body] pub fn pairs_sorted_by_key(p: &Vec<(i32, Label)>) -> (b: bool) { unimplemented!() }
// the jump helpers (verified in unit wjump): what matters here is with which opcodes they are called
pub uninterp spec fn if_emitted(w0: Seq<u8>, w1: Seq<u8>, u0: Seq<UnwrittenLabel>, u1: Seq<UnwrittenLabel>, l: Labels, wide: Set<usize>, opcode_pos: u16, idx: usize, label: Label, opcode: u8, opposite: u8) -> bool;
pub uninterp spec fn goto_emitted(w0: Seq<u8>, w1: Seq<u8>, u0: Seq<UnwrittenLabel>, u1: Seq<UnwrittenLabel>, l: Labels, wide: Set<usize>, opcode_pos: u16, idx: usize, label: Label, opcode: u8, wide_opcode: u8) -> bool;
#[verifier::external_body]
pub fn if_helper(w: &mut Vec<u8>, labels: &Labels, wide: &HashSet<usize>, unwritten: &mut Vec<UnwrittenLabel>, opcode_pos: u16, instruction_index: usize, label: &Label, opcode: u8, opposite_opcode: u8) -> (res: Result<(), VErr>)
    ensures res.is_ok() ==> if_emitted(old(w)@, final(w)@, old(unwritten)@, final(unwritten)@, *labels, wide@, opcode_pos, instruction_index, *label, opcode, opposite_opcode),
        res.is_ok() ==> final(w)@.len() >= old(w)@.len() && final(w)@.subrange(0, old(w)@.len() as int) == old(w)@,
{ unimplemented!() }
#[verifier::external_body]
pub fn goto_helper(w: &mut Vec<u8>, labels: &Labels, wide: &HashSet<usize>, unwritten: &mut Vec<UnwrittenLabel>, opcode_pos: u16, instruction_index: usize, label: &Label, opcode: u8, wide_opcode: u8) -> (res: Result<(), VErr>)
    ensures res.is_ok() ==> goto_emitted(old(w)@, final(w)@, old(unwritten)@, final(unwritten)@, *labels, wide@, opcode_pos, instruction_index, *label, opcode, wide_opcode),
        res.is_ok() ==> final(w)@.len() >= old(w)@.len() && final(w)@.subrange(0, old(w)@.len() as int) == old(w)@,
{ unimplemented!() }
#[verifier::external_body]
pub fn switch_helper(w: &mut Vec<u8>, labels: &Labels, unwritten: &mut Vec<UnwrittenLabel>, opcode_pos: u16, instruction_index: usize, label: &Label) -> (res: Result<(), VErr>)
    ensures res.is_ok() ==> final(w)@.len() == old(w)@.len() + 4 && final(w)@.subrange(0, old(w)@.len() as int) == old(w)@,
{ unimplemented!() }
#[verifier::external_body]
pub fn align_to_4_byte_boundary(writer: &mut Vec<u8>) -> (res: Result<(), VErr>)
    ensures res.is_ok(), final(writer)@.len() % 4 == 0, old(writer)@.len() <= final(writer)@.len() < old(writer)@.len() + 4,
        final(writer)@.subrange(0, old(writer)@.len() as int) == old(writer)@,
{ unimplemented!() }
// JVMS Table 6.5.newarray-A
pub open spec fn jvms_atype_code(t: ArrayType) -> u8 {
    match t { ArrayType::Boolean => 4, ArrayType::Char => 5, ArrayType::Float => 6, ArrayType::Double => 7, ArrayType::Byte => 8, ArrayType::Short => 9, ArrayType::Int => 10, ArrayType::Long => 11 }
}
'''


def cat(*pieces):
    """bytes appended, as the left-nested concatenation of one piece per JVMS item (opcode, operand, ..)"""
    return 'w1 == w0 + ' + ' + '.join(pieces)


def b1(x):
    return f'seq![{x}]'


def lv_form(base, nbase):
    return (f'(if x.index < 4 {{ {cat(b1(f"({nbase} + x.index) as u8"))} }} else if x.index <= 255 {{ {cat(b1(f"{base}u8"), b1("x.index as u8"))} }} '
            f'else {{ {cat(b1("0xc4u8"), b1(f"{base}u8"), "be16(x.index)")} }})')


def gen_enc():
    I = 'Instruction'
    arms = []
    for op, v in sorted(PLAIN.items()):
        arms.append((v, None, cat(b1(f'{op:#04x}u8'))))
    arms.append(('BiPush', '(x)', cat(b1('0x10u8'), 'be_i8(x)')))
    arms.append(('SiPush', '(x)', cat(b1('0x11u8'), 'be_i16(x)')))
    arms.append(('Ldc', '(x)', '({ let ix = ix_loadable(p0, x); if ld_is_wide(x) { ' + cat(b1('0x14u8'), 'be16(ix)') + ' } else if ix <= 255 { ' + cat(b1('0x12u8'), b1('ix as u8')) + ' } else { ' + cat(b1('0x13u8'), 'be16(ix)') + ' } })'))
    for k, v in enumerate(LOADS):
        arms.append((v, '(x)', lv_form(0x15 + k, 0x1a + 4 * k)))
    for k, v in enumerate(STORES):
        arms.append((v, '(x)', lv_form(0x36 + k, 0x3b + 4 * k)))
    arms.append(('IInc', '(x, c)', '(if x.index <= 255 && -128 <= c <= 127 { ' + cat(b1('0x84u8'), b1('x.index as u8'), 'be_i8(c as i8)') + ' } else { ' + cat(b1('0xc4u8'), b1('0x84u8'), 'be16(x.index)', 'be_i16(c)') + ' })'))
    arms.append(('Ret', '(x)', '(if x.index <= 255 { ' + cat(b1('0xa9u8'), b1('x.index as u8')) + ' } else { ' + cat(b1('0xc4u8'), b1('0xa9u8'), 'be16(x.index)') + ' })'))
    for v, op, opp in IFS:
        arms.append((v, '(x)', f'if_emitted(w0, w1, u0, u1, l, wide, opcode_pos, idx, x, {op:#04x}, {opp:#04x})'))
    for v, op, wop in GOTOS:
        arms.append((v, '(x)', f'goto_emitted(w0, w1, u0, u1, l, wide, opcode_pos, idx, x, {op:#04x}, {wop:#04x})'))
    for v, op, kind in POOLED:
        arms.append((v, '(x)', cat(b1(f'{op:#04x}u8'), f'be16(ix_{kind}(p0, x))')))
    arms.append(('InvokeSpecial', '(x, b)', cat(b1('0xb7u8'), 'be16(ix_method_or_iface(p0, x, b))')))
    arms.append(('InvokeStatic', '(x, b)', cat(b1('0xb8u8'), 'be16(ix_method_or_iface(p0, x, b))')))
    arms.append(('InvokeInterface', '(x)', cat(b1('0xb9u8'), 'be16(ix_iface_method(p0, x))', b1('args_size(x)'), b1('0u8'))))
    arms.append(('InvokeDynamic', '(x)', cat(b1('0xbau8'), 'be16(ix_indy(p0, x))', b1('0u8'), b1('0u8'))))
    arms.append(('NewArray', '(x)', cat(b1('0xbcu8'), b1('jvms_atype_code(x)'))))
    arms.append(('MultiANewArray', '(x, n)', cat(b1('0xc5u8'), 'be16(ix_class(p0, x))', b1('n'))))
    arms.append(('TableSwitch', ' { default, low, high, table }', 'w1.len() == w0.len() + 1 + (3 - w0.len() % 4) + 12 + 4 * table@.len() && w1.subrange(0, w0.len() as int + 1) == w0 + seq![0xaau8]'))
    arms.append(('LookupSwitch', ' { default, pairs }', 'w1.len() == w0.len() + 1 + (3 - w0.len() % 4) + 8 + 8 * pairs@.len() && w1.subrange(0, w0.len() as int + 1) == w0 + seq![0xabu8]'))
    # split into chunks so that each spec function stays small
    out, names = [], []
    chunk = 24
    sig = 'i: Instruction, w0: Seq<u8>, w1: Seq<u8>, p0: PoolWrite, u0: Seq<UnwrittenLabel>, u1: Seq<UnwrittenLabel>, l: Labels, wide: Set<usize>, opcode_pos: u16, idx: usize'
    args = 'i, w0, w1, p0, u0, u1, l, wide, opcode_pos, idx'
    for c in range(0, len(arms), chunk):
        part = arms[c:c + chunk]
        body = '\n'.join(f'        {I}::{v}{pat or ""} => Some({cond}),' for v, pat, cond in part)
        out.append(f'pub open spec fn enc_part{c // chunk}({sig}) -> Option<bool> {{\n    match i {{\n{body}\n        _ => None,\n    }}\n}}')
        names.append(f'enc_part{c // chunk}')
    return '\n'.join(out) + '\n', names


def emit_closure(u):
    s = u.src(W)
    f = s.cut_fn('write_code')
    body = f['body']
    mask = code_mask(body)
    ms = list(re.finditer(r'\(\|\|\s*->\s*Result<\(\)>\s*\{\s*match\s+&instruction\.instruction\s*\{', mask))
    if len(ms) != 1:
        raise CutError(f'write_code: expected exactly one emitting closure `(|| -> Result<()> {{ match &instruction.instruction {{`, found {len(ms)}')
    m = ms[0]
    ob = mask.find('{', m.start())
    cb = match_close(mask, ob)
    if not re.match(r'\s*\)\s*\(\s*\)', mask[cb + 1:cb + 12]):
        raise CutError('write_code: the emitting closure is not invoked in place')
    u.drop('region of write_code lifted into a function: the emitting closure `(|| -> Result<()> { match &instruction.instruction {..}; Ok(()) })()` -> fn encode_instruction(w, insn, pool, labels, wide, unwritten, opcode_pos, instruction_index)')
    return dict(body=body[ob:cb + 1], line=s.line_of(f['open'] + ob))


def desugar_ref_patterns(body, u):
    """`&Instruction::V(a, ref b) => {` -> `Instruction::V(a, b) => { let a = *a;`  (Verus: "ref patterns" unsupported; match ergonomics make both forms equivalent)"""
    n = 0
    while True:
        mask = code_mask(body)
        m = re.search(r'&Instruction::(\w+)\s*([({])', mask)
        if not m:
            break
        ob = m.end() - 1
        cb = match_close(mask, ob)
        binds = [b.strip() for b in body[ob + 1:cb].split(',') if b.strip()]
        copied = [b for b in binds if not b.startswith('ref ')]
        newpat = 'Instruction::' + m.group(1) + body[ob] + ', '.join(b[4:] if b.startswith('ref ') else b for b in binds) + body[cb]
        arrow = mask.find('=>', cb)
        brace = mask.find('{', arrow)
        if mask[arrow + 2:brace].strip():
            raise CutError('ref-pattern arm without a block body')
        lets = ''.join(f' let {b} = *{b};' for b in copied)
        body = body[:m.start()] + newpat + body[cb + 1:brace + 1] + lets + body[brace + 1:]
        n += 1
    u.drop('`&Instruction::V(a, ref b) => {` -> `Instruction::V(a, b) => { let a = *a;` (ref patterns desugared)', n)
    return body


ARGS = '*insn, old(w)@, final(w)@, *old(pool), old(unwritten)@, final(unwritten)@, *labels, wide@, opcode_pos, instruction_index'


def build(u):
    u.preamble('common.rs')
    u.preamble('bytes.rs')
    add_classwrite(u, [], with_usize=False)
    u.item(CC, 'mod', 'opcode')
    u.item(CC, 'mod', 'atype')
    u.item(CODE, 'struct', 'Label', derives=['Copy', 'Clone', 'PartialEq', 'Eq', 'Hash'])
    u.item(CODE, 'struct', 'LvIndex', derives=['Copy', 'Clone', 'PartialEq', 'Eq'])
    u.item(CODE, 'enum', 'ArrayType', derives=['Copy', 'Clone', 'PartialEq', 'Eq'])
    u.raw(STUBS)
    u.item(CODE, 'enum', 'Instruction', derives=[],
           rewrites=[(r'\bLoadable\b', 'VLoadable'), (r'\bFieldRef\b', 'VFieldRef'), (r'\bMethodRef\b', 'VMethodRef'), (r'\(InvokeDynamic\)', '(VInvokeDynamic)'), (r'\bClassName\b', 'VClassName')])
    spec, parts = gen_enc()
    u.raw(spec)
    u.fn(CODE, 'ArrayType::to_atype', ret='r',
         ensures=[C('C02.atype.table', 'r == jvms_atype_code(self)')])
    clo = emit_closure(u)
    u.fn(W, 'write_code::encode_instruction', ret='res', canary=True,
         synth=dict(sig='pub fn encode_instruction(w: &mut Vec<u8>, insn: &Instruction, pool: &mut PoolWrite, labels: &Labels, wide: &HashSet<usize>, unwritten: &mut Vec<UnwrittenLabel>, '
                        'opcode_pos: u16, instruction_index: usize) -> Result<()>', body=clo['body'], line=clo['line']),
         rewrites=[(r'match\s+&instruction\.instruction\s*\{', 'match insn {'),
                   (r'&mut w\b', 'w'), (r'&labels\b', 'labels'), (r'&wide\b', 'wide'), (r'&mut unwritten\b', 'unwritten'),

                   (r'let opcode = \(\(opcode - opcode::ILOAD\) << 2 \| index\) \+ opcode::ILOAD_0;',
                    'proof { let a: u8 = (opcode - opcode::ILOAD) as u8; assert(a <= 4 && index < 4 ==> ((a << 2) | index) == a * 4 + index) by (bit_vector); } let opcode = ((opcode - opcode::ILOAD) << 2 | index) + opcode::ILOAD_0;'),
                   (r'let opcode = \(\(opcode - opcode::ISTORE\) << 2 \| index\) \+ opcode::ISTORE_0;',
                    'proof { let a: u8 = (opcode - opcode::ISTORE) as u8; assert(a <= 4 && index < 4 ==> ((a << 2) | index) == a * 4 + index) by (bit_vector); } let opcode = ((opcode - opcode::ISTORE) << 2 | index) + opcode::ISTORE_0;'),
                   (r'for entry in table \{', 'for entry in iter: table {'),
                   (r'for &\(key, ref value\) in pairs \{', 'for kv in iter: pairs { let key = kv.0; let value = &kv.1;')],
         requires=['insn matches Instruction::TableSwitch { low, high, .. } ==> high as int - low as int + 1 <= 65535'],
         loops={0: dict(invariant=[C('C02.encode.tableswitch.inv.len', 'w@.len() == old(w)@.len() + 1 + (3 - old(w)@.len() % 4) + 12 + 4 * iter.index@'),
                                   C('C02.encode.tableswitch.inv.prefix', 'w@.subrange(0, old(w)@.len() as int + 1) == old(w)@ + seq![0xaau8]')]),
                1: dict(invariant=[C('C02.encode.lookupswitch.inv.len', 'w@.len() == old(w)@.len() + 1 + (3 - old(w)@.len() % 4) + 8 + 8 * iter.index@'),
                                   C('C02.encode.lookupswitch.inv.prefix', 'w@.subrange(0, old(w)@.len() as int + 1) == old(w)@ + seq![0xabu8]')])},
         opt_rewrites=[(r'let is_long_or_double = match loadable \{[^}]*\};', 'let is_long_or_double = loadable_is_wide(loadable);'),
                       (r'method_ref\.desc\.get_arguments_size\(\)', 'mref_arguments_size(method_ref)'),
                       (r'let sorted = pairs\.windows\(2\)[^;]*;', 'let sorted = pairs_sorted_by_key(pairs);')],
         transform=lambda b: desugar_ref_patterns(b, u),
         ensures=[
         ] + [C(f'C02.encode.bytes-per-jvms.{n}', f'res.is_ok() && {n}(' + ARGS + f') is Some ==> {n}(' + ARGS + ').unwrap()') for n in parts] + [
             C('C02.encode.appends-only', 'res.is_ok() ==> final(w)@.len() >= old(w)@.len() && final(w)@.subrange(0, old(w)@.len() as int) =~= old(w)@'),
         ])
