"""rannot -- the annotation content parsers of the class reader (duke/src/class_reader.rs): read_element_values_named,
read_element_values_unnamed, read_element_value_unnamed (mutually recursive, JVMS 4.7.16 / 4.7.16.1), read_annotations_attribute (4.7.16)
and read_type_annotations_attribute_code / the class-, field-, method-level read_type_annotations_attribute (4.7.20).

C01: "... annotations ... Nothing is invented, dropped or attached to the wrong member".  The visitor receives exactly the element values the
bytes encode, in order, nested exactly as encoded (an annotation value inside an annotation, arrays of values), every constant resolved from
the pool index at its JVMS offset with the tag's type (B C D F I J S Z s e c @ [), and the parser consumes exactly the encoded structure.
C16: the recursion terminates (every level consumes input) and nothing overflows.

Verus rejects duke's visitor traits for annotations as they stand (`Self::AnnotationVisitor: NamedElementValuesVisitor` inside the trait that
NamedElementValuesVisitor extends: "cyclic self-reference in a definition"), so the generic visitor parameter is instantiated at *recording
visitors* NV / UV / AV / TV (one per trait; assumed contracts: the ghost log grows by exactly the call made; a call may fail).  The functions
only ever call trait methods on the visitor, so what they hand to the recording visitor is what they hand to any visitor (parametricity;
stated assumption).  Function bodies are the text of /repo; only the signatures and the `A::` paths are rewritten."""
from vx.unit import C
from vx.units._cread import add_classread
from vx.units.rlabels import add_reader_labels
from vx.units.rbranch import add_branch_helpers

PROPS = ['C01']
R = 'duke/src/class_reader.rs'
T = 'duke/src/tree/'
RLIMIT = 120

STUBS = r'''
// TRUSTED: JavaString / FieldDescriptor / ReturnDescriptor / PoolRead are opaque; pool accessors and try_from conversions are opaque partial functions of their arguments (units rpool / rpoolres / desc verify them)
#[verifier::external_body] pub struct JavaString { _p: () }
#[verifier::external_body] pub struct FieldDescriptor { _p: () }
#[verifier::external_body] pub struct ReturnDescriptor { _p: () }
#[verifier::external_body] pub struct PoolRead { _p: () }
pub uninterp spec fn sp_utf8(pool: PoolRead, i: u16) -> Option<JavaString>;
pub uninterp spec fn sp_integer(pool: PoolRead, i: u16) -> Option<i32>;
pub uninterp spec fn sp_long(pool: PoolRead, i: u16) -> Option<i64>;
pub uninterp spec fn sp_float(pool: PoolRead, i: u16) -> Option<f32>;
pub uninterp spec fn sp_double(pool: PoolRead, i: u16) -> Option<f64>;
pub uninterp spec fn sp_fd(s: JavaString) -> Option<FieldDescriptor>;
pub uninterp spec fn sp_rd(s: JavaString) -> Option<ReturnDescriptor>;
impl PoolRead {
    #[verifier::external_body] pub fn get_utf8(&self, index: u16) -> (res: Result<JavaString, VErr>) ensures res matches Ok(v) ==> Some(v) == sp_utf8(*self, index) { unimplemented!() }
    #[verifier::external_body] pub fn get_integer(&self, index: u16) -> (res: Result<i32, VErr>) ensures res matches Ok(v) ==> Some(v) == sp_integer(*self, index) { unimplemented!() }
    #[verifier::external_body] pub fn get_integer_as_byte(&self, index: u16) -> (res: Result<i8, VErr>) ensures res matches Ok(v) ==> (sp_integer(*self, index) matches Some(n) && v == n as i8) { unimplemented!() }
    #[verifier::external_body] pub fn get_integer_as_char(&self, index: u16) -> (res: Result<u16, VErr>) ensures res matches Ok(v) ==> (sp_integer(*self, index) matches Some(n) && v == n as u16) { unimplemented!() }
    #[verifier::external_body] pub fn get_integer_as_short(&self, index: u16) -> (res: Result<i16, VErr>) ensures res matches Ok(v) ==> (sp_integer(*self, index) matches Some(n) && v == n as i16) { unimplemented!() }
    #[verifier::external_body] pub fn get_integer_as_boolean(&self, index: u16) -> (res: Result<bool, VErr>) ensures res matches Ok(v) ==> (sp_integer(*self, index) matches Some(n) && v == (n != 0)) { unimplemented!() }
    #[verifier::external_body] pub fn get_long(&self, index: u16) -> (res: Result<i64, VErr>) ensures res matches Ok(v) ==> Some(v) == sp_long(*self, index) { unimplemented!() }
    #[verifier::external_body] pub fn get_float(&self, index: u16) -> (res: Result<f32, VErr>) ensures res matches Ok(v) ==> Some(v) == sp_float(*self, index) { unimplemented!() }
    #[verifier::external_body] pub fn get_double(&self, index: u16) -> (res: Result<f64, VErr>) ensures res matches Ok(v) ==> Some(v) == sp_double(*self, index) { unimplemented!() }
}
impl FieldDescriptor { #[verifier::external_body] pub fn try_from(s: JavaString) -> (res: Result<Self, VErr>) ensures res matches Ok(v) ==> Some(v) == sp_fd(s) { unimplemented!() } }
impl ReturnDescriptor { #[verifier::external_body] pub fn try_from(s: JavaString) -> (res: Result<Self, VErr>) ensures res matches Ok(v) ==> Some(v) == sp_rd(s) { unimplemented!() } }
pub open spec fn u8_at(d: Seq<u8>, p: int) -> int { d[p] as int }
pub open spec fn u16_at(d: Seq<u8>, p: int) -> int { val16(d.subrange(p, p + 2)) }
'''

SPEC = r'''
// ---- what a visitor is told (specification values): JVMS 4.7.16.1 element_value ----
pub enum EvV {
    Const(Object),
    Enum(FieldDescriptor, JavaString),
    Class(ReturnDescriptor),
    Annotation(FieldDescriptor, Seq<(JavaString, EvV)>),
    Array(Seq<EvV>),
}
pub type Pairs = Seq<(JavaString, EvV)>;

// encoded sizes
pub open spec fn ev_size(v: EvV) -> int decreases v, 0int {
    match v {
        EvV::Const(_) => 3, EvV::Enum(_, _) => 5, EvV::Class(_) => 3,
        EvV::Annotation(_, ps) => 5 + pairs_size_to(ps, ps.len() as int),
        EvV::Array(vs) => 3 + vals_size_to(vs, vs.len() as int),
    }
}
pub open spec fn pairs_size_to(ps: Pairs, k: int) -> int decreases ps, k {
    if 0 < k <= ps.len() { pairs_size_to(ps, k - 1) + 2 + ev_size(ps[k - 1].1) } else { 0 }
}
pub open spec fn vals_size_to(vs: Seq<EvV>, k: int) -> int decreases vs, k {
    if 0 < k <= vs.len() { vals_size_to(vs, k - 1) + ev_size(vs[k - 1]) } else { 0 }
}
// const_value_index forms: tag -> the constant of that type at the pool index found at p + 1
pub open spec fn const_is(d: Seq<u8>, p: int, pool: PoolRead, o: Object) -> bool {
    let t = u8_at(d, p);
    let i = u16_at(d, p + 1) as u16;
    match o {
        Object::Byte(v) => t == 66 && (sp_integer(pool, i) matches Some(n) && v == n as i8),
        Object::Char(v) => t == 67 && (sp_integer(pool, i) matches Some(n) && v == n as u16),
        Object::Double(v) => t == 68 && Some(v) == sp_double(pool, i),
        Object::Float(v) => t == 70 && Some(v) == sp_float(pool, i),
        Object::Integer(v) => t == 73 && Some(v) == sp_integer(pool, i),
        Object::Long(v) => t == 74 && Some(v) == sp_long(pool, i),
        Object::Short(v) => t == 83 && (sp_integer(pool, i) matches Some(n) && v == n as i16),
        Object::Boolean(v) => t == 90 && (sp_integer(pool, i) matches Some(n) && v == (n != 0)),
        Object::String(v) => t == 115 && Some(v) == sp_utf8(pool, i),
    }
}
pub open spec fn desc_at(d: Seq<u8>, p: int, pool: PoolRead, ty: FieldDescriptor) -> bool {
    (sp_utf8(pool, u16_at(d, p) as u16) matches Some(s) && Some(ty) == sp_fd(s))
}
// the element_value at d[p..] encodes v
pub open spec fn ev_is(d: Seq<u8>, p: int, pool: PoolRead, v: EvV) -> bool decreases v, 0int {
    match v {
        EvV::Const(o) => const_is(d, p, pool, o),
        EvV::Enum(ty, c) => u8_at(d, p) == 101 && desc_at(d, p + 1, pool, ty) && Some(c) == sp_utf8(pool, u16_at(d, p + 3) as u16),
        EvV::Class(r) => u8_at(d, p) == 99 && (sp_utf8(pool, u16_at(d, p + 1) as u16) matches Some(s) && Some(r) == sp_rd(s)),
        EvV::Annotation(ty, ps) => u8_at(d, p) == 64 && desc_at(d, p + 1, pool, ty) && u16_at(d, p + 3) == ps.len() && pairs_are_to(d, p + 5, pool, ps, ps.len() as int),
        EvV::Array(vs) => u8_at(d, p) == 91 && u16_at(d, p + 1) == vs.len() && vals_are_to(d, p + 3, pool, vs, vs.len() as int),
    }
}
// the first k element_value_pairs laid out from q encode ps[0..k)
pub open spec fn pairs_are_to(d: Seq<u8>, q: int, pool: PoolRead, ps: Pairs, k: int) -> bool decreases ps, k {
    if 0 < k <= ps.len() {
        pairs_are_to(d, q, pool, ps, k - 1)
        && Some(ps[k - 1].0) == sp_utf8(pool, u16_at(d, q + pairs_size_to(ps, k - 1)) as u16)
        && ev_is(d, q + pairs_size_to(ps, k - 1) + 2, pool, ps[k - 1].1)
    } else { true }
}
pub open spec fn vals_are_to(d: Seq<u8>, q: int, pool: PoolRead, vs: Seq<EvV>, k: int) -> bool decreases vs, k {
    if 0 < k <= vs.len() { vals_are_to(d, q, pool, vs, k - 1) && ev_is(d, q + vals_size_to(vs, k - 1), pool, vs[k - 1]) } else { true }
}
// prefix stability: what is said about the first k elements does not depend on later ones
pub proof fn lemma_pairs_prefix(d: Seq<u8>, q: int, pool: PoolRead, a: Pairs, b: Pairs, k: int)
    requires 0 <= k <= a.len(), k <= b.len(), forall|j: int| 0 <= j < k ==> a[j] == b[j],
    ensures pairs_size_to(a, k) == pairs_size_to(b, k), pairs_are_to(d, q, pool, a, k) == pairs_are_to(d, q, pool, b, k),
    decreases k,
{ if k > 0 { lemma_pairs_prefix(d, q, pool, a, b, k - 1); } }
pub proof fn lemma_vals_prefix(d: Seq<u8>, q: int, pool: PoolRead, a: Seq<EvV>, b: Seq<EvV>, k: int)
    requires 0 <= k <= a.len(), k <= b.len(), forall|j: int| 0 <= j < k ==> a[j] == b[j],
    ensures vals_size_to(a, k) == vals_size_to(b, k), vals_are_to(d, q, pool, a, k) == vals_are_to(d, q, pool, b, k),
    decreases k,
{ if k > 0 { lemma_vals_prefix(d, q, pool, a, b, k - 1); } }
pub proof fn lemma_sizes_nonneg(v: EvV)
    ensures ev_size(v) >= 3,
    decreases v, 0int,
{
    match v { EvV::Annotation(_, ps) => { lemma_pairs_size_nonneg(ps, ps.len() as int); }, EvV::Array(vs) => { lemma_vals_size_nonneg(vs, vs.len() as int); }, _ => {} }
}
pub proof fn lemma_pairs_size_nonneg(ps: Pairs, k: int)
    ensures pairs_size_to(ps, k) >= 0,
    decreases ps, k,
{ if 0 < k <= ps.len() { lemma_pairs_size_nonneg(ps, k - 1); lemma_sizes_nonneg(ps[k - 1].1); } }
pub proof fn lemma_vals_size_nonneg(vs: Seq<EvV>, k: int)
    ensures vals_size_to(vs, k) >= 0,
    decreases vs, k,
{ if 0 < k <= vs.len() { lemma_vals_size_nonneg(vs, k - 1); lemma_sizes_nonneg(vs[k - 1]); } }

// ---- recording visitors (assumed contracts: the ghost log grows by exactly the call made) ----
// TRUSTED: recording visitors NV / UV / AV: duke's annotation visitor traits (cyclic associated-type bounds, rejected by Verus) instantiated at visitors whose only state is the ghost log of the calls made on them; by parametricity the generic reader functions make the same calls on every visitor
pub struct NV { pub log: Ghost<Pairs> }
pub struct NVResA { pub log: Ghost<Pairs>, pub name: Ghost<JavaString>, pub ty: Ghost<FieldDescriptor> }
pub struct NVResR { pub log: Ghost<Pairs>, pub name: Ghost<JavaString> }
pub struct UV { pub log: Ghost<Seq<EvV>> }
pub struct UVResA { pub log: Ghost<Seq<EvV>>, pub ty: Ghost<FieldDescriptor> }
pub struct UVResR { pub log: Ghost<Seq<EvV>> }
impl NV {
    #[verifier::external_body] pub fn visit(&mut self, name: JavaString, value: Object) -> (res: Result<(), VErr>)
        ensures res is Ok ==> final(self).log@ == old(self).log@.push((name, EvV::Const(value))) { unimplemented!() }
    #[verifier::external_body] pub fn visit_enum(&mut self, name: JavaString, type_name: FieldDescriptor, const_name: JavaString) -> (res: Result<(), VErr>)
        ensures res is Ok ==> final(self).log@ == old(self).log@.push((name, EvV::Enum(type_name, const_name))) { unimplemented!() }
    #[verifier::external_body] pub fn visit_class(&mut self, name: JavaString, class: ReturnDescriptor) -> (res: Result<(), VErr>)
        ensures res is Ok ==> final(self).log@ == old(self).log@.push((name, EvV::Class(class))) { unimplemented!() }
    #[verifier::external_body] pub fn visit_annotation(self, name: JavaString, annotation_type: FieldDescriptor) -> (res: Result<(NVResA, NV), VErr>)
        ensures res matches Ok(p) ==> p.0.log@ == self.log@ && p.0.name@ == name && p.0.ty@ == annotation_type && p.1.log@ == Seq::<(JavaString, EvV)>::empty() { unimplemented!() }
    #[verifier::external_body] pub fn finish_annotation(this: NVResA, annotation_visitor: NV) -> (res: Result<NV, VErr>)
        ensures res matches Ok(r) ==> r.log@ == this.log@.push((this.name@, EvV::Annotation(this.ty@, annotation_visitor.log@))) { unimplemented!() }
    #[verifier::external_body] pub fn visit_array(self, name: JavaString) -> (res: Result<(NVResR, UV), VErr>)
        ensures res matches Ok(p) ==> p.0.log@ == self.log@ && p.0.name@ == name && p.1.log@ == Seq::<EvV>::empty() { unimplemented!() }
    #[verifier::external_body] pub fn finish_array(this: NVResR, annotation_array_visitor: UV) -> (res: Result<NV, VErr>)
        ensures res matches Ok(r) ==> r.log@ == this.log@.push((this.name@, EvV::Array(annotation_array_visitor.log@))) { unimplemented!() }
}
impl UV {
    #[verifier::external_body] pub fn visit(&mut self, value: Object) -> (res: Result<(), VErr>)
        ensures res is Ok ==> final(self).log@ == old(self).log@.push(EvV::Const(value)) { unimplemented!() }
    #[verifier::external_body] pub fn visit_enum(&mut self, type_name: FieldDescriptor, const_name: JavaString) -> (res: Result<(), VErr>)
        ensures res is Ok ==> final(self).log@ == old(self).log@.push(EvV::Enum(type_name, const_name)) { unimplemented!() }
    #[verifier::external_body] pub fn visit_class(&mut self, class: ReturnDescriptor) -> (res: Result<(), VErr>)
        ensures res is Ok ==> final(self).log@ == old(self).log@.push(EvV::Class(class)) { unimplemented!() }
    #[verifier::external_body] pub fn visit_annotation(self, annotation_type: FieldDescriptor) -> (res: Result<(UVResA, NV), VErr>)
        ensures res matches Ok(p) ==> p.0.log@ == self.log@ && p.0.ty@ == annotation_type && p.1.log@ == Seq::<(JavaString, EvV)>::empty() { unimplemented!() }
    #[verifier::external_body] pub fn finish_annotation(this: UVResA, annotation_visitor: NV) -> (res: Result<UV, VErr>)
        ensures res matches Ok(r) ==> r.log@ == this.log@.push(EvV::Annotation(this.ty@, annotation_visitor.log@)) { unimplemented!() }
    #[verifier::external_body] pub fn visit_array(self) -> (res: Result<(UVResR, UV), VErr>)
        ensures res matches Ok(p) ==> p.0.log@ == self.log@ && p.1.log@ == Seq::<EvV>::empty() { unimplemented!() }
    #[verifier::external_body] pub fn finish_array(this: UVResR, annotation_array_visitor: UV) -> (res: Result<UV, VErr>)
        ensures res matches Ok(r) ==> r.log@ == this.log@.push(EvV::Array(annotation_array_visitor.log@)) { unimplemented!() }
}
// JVMS 4.7.16 annotation: u2 type_index, u2 num_element_value_pairs, pairs
pub type Annots = Seq<(FieldDescriptor, Pairs)>;
pub open spec fn annots_size_to(xs: Annots, k: int) -> int decreases k {
    if 0 < k <= xs.len() { annots_size_to(xs, k - 1) + 4 + pairs_size_to(xs[k - 1].1, xs[k - 1].1.len() as int) } else { 0 }
}
pub open spec fn annots_are_to(d: Seq<u8>, q: int, pool: PoolRead, xs: Annots, k: int) -> bool decreases k {
    if 0 < k <= xs.len() {
        let off = q + annots_size_to(xs, k - 1);
        annots_are_to(d, q, pool, xs, k - 1) && desc_at(d, off, pool, xs[k - 1].0) && u16_at(d, off + 2) == xs[k - 1].1.len()
        && pairs_are_to(d, off + 4, pool, xs[k - 1].1, xs[k - 1].1.len() as int)
    } else { true }
}
pub proof fn lemma_annots_prefix(d: Seq<u8>, q: int, pool: PoolRead, a: Annots, b: Annots, k: int)
    requires 0 <= k <= a.len(), k <= b.len(), forall|j: int| 0 <= j < k ==> a[j] == b[j],
    ensures annots_size_to(a, k) == annots_size_to(b, k), annots_are_to(d, q, pool, a, k) == annots_are_to(d, q, pool, b, k),
    decreases k,
{ if k > 0 { lemma_annots_prefix(d, q, pool, a, b, k - 1); } }
pub proof fn lemma_annots_size_nonneg(xs: Annots, k: int)
    ensures annots_size_to(xs, k) >= 0,
    decreases k,
{ if 0 < k <= xs.len() { lemma_annots_size_nonneg(xs, k - 1); lemma_pairs_size_nonneg(xs[k - 1].1, xs[k - 1].1.len() as int); } }
pub struct AV { pub log: Ghost<Annots> }
pub struct AVRes { pub log: Ghost<Annots>, pub ty: Ghost<FieldDescriptor> }
impl AV {
    #[verifier::external_body] pub fn visit_annotation(self, annotation_descriptor: FieldDescriptor) -> (res: Result<(AVRes, NV), VErr>)
        ensures res matches Ok(p) ==> p.0.log@ == self.log@ && p.0.ty@ == annotation_descriptor && p.1.log@ == Seq::<(JavaString, EvV)>::empty() { unimplemented!() }
    #[verifier::external_body] pub fn finish_annotation(this: AVRes, named_element_values_visitor: NV) -> (res: Result<AV, VErr>)
        ensures res matches Ok(r) ==> r.log@ == this.log@.push((this.ty@, named_element_values_visitor.log@)) { unimplemented!() }
}
// ---- JVMS 4.7.20 type_annotation: target_type + target_info, type_path, then an annotation (type_index, pairs) ----
// TRUSTED: TypePath / TargetInfoCode / Labels are opaque here; read_type_path and read_type_reference_code carry the contracts unit rtypes proves for them, through the opaque relations path_is / path_size / tgt_code_is / tgt_code_size (tgt_code_is only looks labels up, so it is stable under labels_kept: rtypes lemma_tt_code_is_stable)
#[verifier::external_body] pub struct TypePath { _p: () }
#[verifier::external_body] pub struct TargetInfoCode { _p: () }
#[verifier::external_body] pub struct Labels { _p: () }
pub uninterp spec fn path_is(d: Seq<u8>, p: int, v: TypePath) -> bool;
pub uninterp spec fn path_size(d: Seq<u8>, p: int) -> int;
pub uninterp spec fn tgt_code_is(d: Seq<u8>, p: int, l: Labels, v: TargetInfoCode) -> bool;
pub uninterp spec fn tgt_code_size(d: Seq<u8>, p: int) -> int;
pub uninterp spec fn labels_kept(a: Labels, b: Labels) -> bool;
#[verifier::external_body] pub proof fn axiom_labels_kept(a: Labels, b: Labels, c: Labels)
    ensures labels_kept(a, a), labels_kept(a, b) && labels_kept(b, c) ==> labels_kept(a, c) { }
#[verifier::external_body] pub proof fn axiom_tgt_code_stable(d: Seq<u8>, p: int, a: Labels, b: Labels, v: TargetInfoCode)
    ensures labels_kept(a, b) && tgt_code_is(d, p, a, v) ==> tgt_code_is(d, p, b, v) { }
#[verifier::external_body]
pub fn read_type_path<Rd: ClassRead>(reader: &mut Rd) -> (res: Result<TypePath, VErr>)
    ensures final(reader).data() == old(reader).data(),
        res matches Ok(v) ==> path_is(old(reader).data(), old(reader).pos(), v) && path_size(old(reader).data(), old(reader).pos()) >= 1 && final(reader).pos() == old(reader).pos() + path_size(old(reader).data(), old(reader).pos())
{ unimplemented!() }
#[verifier::external_body]
pub fn read_type_reference_code<Rd: ClassRead>(reader: &mut Rd, labels: &mut Labels) -> (res: Result<TargetInfoCode, VErr>)
    ensures final(reader).data() == old(reader).data(), labels_kept(*old(labels), *final(labels)),
        res matches Ok(v) ==> tgt_code_is(old(reader).data(), old(reader).pos(), *final(labels), v) && tgt_code_size(old(reader).data(), old(reader).pos()) >= 1 && final(reader).pos() == old(reader).pos() + tgt_code_size(old(reader).data(), old(reader).pos())
{ unimplemented!() }
// targets outside Code: the real trait TargetInfoRead with the same kind of contract
pub trait TargetInfoRead: Sized {
    spec fn tgt_is(d: Seq<u8>, p: int, v: Self) -> bool;
    spec fn tgt_size(d: Seq<u8>, p: int) -> int;
    fn read_type_reference<Rd: ClassRead>(reader: &mut Rd) -> (res: Result<Self, VErr>)
        ensures final(reader).data() == old(reader).data(),
            res matches Ok(v) ==> Self::tgt_is(old(reader).data(), old(reader).pos(), v) && Self::tgt_size(old(reader).data(), old(reader).pos()) >= 1 && final(reader).pos() == old(reader).pos() + Self::tgt_size(old(reader).data(), old(reader).pos());
}
pub type TAnnots<T> = Seq<(T, TypePath, FieldDescriptor, Pairs)>;
pub struct TV<T> { pub log: Ghost<TAnnots<T>> }
pub struct TVRes<T> { pub log: Ghost<TAnnots<T>>, pub target: Ghost<T>, pub path: Ghost<TypePath>, pub ty: Ghost<FieldDescriptor> }
impl<T> TV<T> {
    #[verifier::external_body] pub fn visit_type_annotation(self, type_reference: T, type_path: TypePath, annotation_descriptor: FieldDescriptor) -> (res: Result<(TVRes<T>, NV), VErr>)
        ensures res matches Ok(p) ==> p.0.log@ == self.log@ && p.0.target@ == type_reference && p.0.path@ == type_path && p.0.ty@ == annotation_descriptor && p.1.log@ == Seq::<(JavaString, EvV)>::empty() { unimplemented!() }
    #[verifier::external_body] pub fn finish_type_annotation(this: TVRes<T>, named_element_values_visitor: NV) -> (res: Result<TV<T>, VErr>)
        ensures res matches Ok(r) ==> r.log@ == this.log@.push((this.target@, this.path@, this.ty@, named_element_values_visitor.log@)) { unimplemented!() }
}
// offsets of entry k: target at `off`, path after it, annotation after the path
pub open spec fn ta_size_at<T: TargetInfoRead>(d: Seq<u8>, off: int, x: (T, TypePath, FieldDescriptor, Pairs)) -> int {
    T::tgt_size(d, off) + path_size(d, off + T::tgt_size(d, off)) + 4 + pairs_size_to(x.3, x.3.len() as int)
}
pub open spec fn tas_size_to<T: TargetInfoRead>(d: Seq<u8>, q: int, xs: TAnnots<T>, k: int) -> int decreases k {
    if 0 < k <= xs.len() { tas_size_to(d, q, xs, k - 1) + ta_size_at(d, q + tas_size_to(d, q, xs, k - 1), xs[k - 1]) } else { 0 }
}
pub open spec fn tas_are_to<T: TargetInfoRead>(d: Seq<u8>, q: int, pool: PoolRead, xs: TAnnots<T>, k: int) -> bool decreases k {
    if 0 < k <= xs.len() {
        let off = q + tas_size_to(d, q, xs, k - 1);
        let a = off + T::tgt_size(d, off) + path_size(d, off + T::tgt_size(d, off));
        tas_are_to(d, q, pool, xs, k - 1) && T::tgt_is(d, off, xs[k - 1].0) && path_is(d, off + T::tgt_size(d, off), xs[k - 1].1)
        && desc_at(d, a, pool, xs[k - 1].2) && u16_at(d, a + 2) == xs[k - 1].3.len() && pairs_are_to(d, a + 4, pool, xs[k - 1].3, xs[k - 1].3.len() as int)
    } else { true }
}
pub proof fn lemma_tas_prefix<T: TargetInfoRead>(d: Seq<u8>, q: int, pool: PoolRead, a: TAnnots<T>, b: TAnnots<T>, k: int)
    requires 0 <= k <= a.len(), k <= b.len(), forall|j: int| 0 <= j < k ==> a[j] == b[j],
    ensures tas_size_to(d, q, a, k) == tas_size_to(d, q, b, k), tas_are_to(d, q, pool, a, k) == tas_are_to(d, q, pool, b, k),
    decreases k,
{ if k > 0 { lemma_tas_prefix(d, q, pool, a, b, k - 1); } }
// inside Code: the target is resolved through the label table
pub type TCAnnots = Seq<(TargetInfoCode, TypePath, FieldDescriptor, Pairs)>;
pub open spec fn tc_size_at(d: Seq<u8>, off: int, x: (TargetInfoCode, TypePath, FieldDescriptor, Pairs)) -> int {
    tgt_code_size(d, off) + path_size(d, off + tgt_code_size(d, off)) + 4 + pairs_size_to(x.3, x.3.len() as int)
}
pub open spec fn tcs_size_to(d: Seq<u8>, q: int, xs: TCAnnots, k: int) -> int decreases k {
    if 0 < k <= xs.len() { tcs_size_to(d, q, xs, k - 1) + tc_size_at(d, q + tcs_size_to(d, q, xs, k - 1), xs[k - 1]) } else { 0 }
}
pub open spec fn tcs_are_to(d: Seq<u8>, q: int, pool: PoolRead, l: Labels, xs: TCAnnots, k: int) -> bool decreases k {
    if 0 < k <= xs.len() {
        let off = q + tcs_size_to(d, q, xs, k - 1);
        let a = off + tgt_code_size(d, off) + path_size(d, off + tgt_code_size(d, off));
        tcs_are_to(d, q, pool, l, xs, k - 1) && tgt_code_is(d, off, l, xs[k - 1].0) && path_is(d, off + tgt_code_size(d, off), xs[k - 1].1)
        && desc_at(d, a, pool, xs[k - 1].2) && u16_at(d, a + 2) == xs[k - 1].3.len() && pairs_are_to(d, a + 4, pool, xs[k - 1].3, xs[k - 1].3.len() as int)
    } else { true }
}
pub proof fn lemma_tcs_prefix(d: Seq<u8>, q: int, pool: PoolRead, l: Labels, a: TCAnnots, b: TCAnnots, k: int)
    requires 0 <= k <= a.len(), k <= b.len(), forall|j: int| 0 <= j < k ==> a[j] == b[j],
    ensures tcs_size_to(d, q, a, k) == tcs_size_to(d, q, b, k), tcs_are_to(d, q, pool, l, a, k) == tcs_are_to(d, q, pool, l, b, k),
    decreases k,
{ if k > 0 { lemma_tcs_prefix(d, q, pool, l, a, b, k - 1); } }
pub proof fn lemma_tcs_stable(d: Seq<u8>, q: int, pool: PoolRead, l1: Labels, l2: Labels, xs: TCAnnots, k: int)
    requires labels_kept(l1, l2), tcs_are_to(d, q, pool, l1, xs, k),
    ensures tcs_are_to(d, q, pool, l2, xs, k),
    decreases k,
{
    if 0 < k <= xs.len() {
        lemma_tcs_stable(d, q, pool, l1, l2, xs, k - 1);
        axiom_tgt_code_stable(d, q + tcs_size_to(d, q, xs, k - 1), l1, l2, xs[k - 1].0);
    }
}
pub struct TVC { pub log: Ghost<TCAnnots> }
pub struct TVCRes { pub log: Ghost<TCAnnots>, pub target: Ghost<TargetInfoCode>, pub path: Ghost<TypePath>, pub ty: Ghost<FieldDescriptor> }
impl TVC {
    #[verifier::external_body] pub fn visit_type_annotation(self, type_reference: TargetInfoCode, type_path: TypePath, annotation_descriptor: FieldDescriptor) -> (res: Result<(TVCRes, NV), VErr>)
        ensures res matches Ok(p) ==> p.0.log@ == self.log@ && p.0.target@ == type_reference && p.0.path@ == type_path && p.0.ty@ == annotation_descriptor && p.1.log@ == Seq::<(JavaString, EvV)>::empty() { unimplemented!() }
    #[verifier::external_body] pub fn finish_type_annotation(this: TVCRes, named_element_values_visitor: NV) -> (res: Result<TVC, VErr>)
        ensures res matches Ok(r) ==> r.log@ == this.log@.push((this.target@, this.path@, this.ty@, named_element_values_visitor.log@)) { unimplemented!() }
}
// the suffix a visitor received during a call
pub open spec fn grew_by<A>(before: Seq<A>, after: Seq<A>) -> Seq<A> { after.subrange(before.len() as int, after.len() as int) }
pub open spec fn extends<A>(before: Seq<A>, after: Seq<A>) -> bool { before.len() <= after.len() && after.subrange(0, before.len() as int) =~= before }
'''

D0, P0 = 'old(reader).data()', 'old(reader).pos()'
MEASURE = f'{D0}.len() - {P0}'
KEEP = f'final(reader).data() == {D0}'


def build(u):
    u.preamble('common.rs')
    u.preamble('bytes.rs')
    u.preamble('rbytes.rs')
    add_classread(u, [], with_pos=False)
    u.raw(STUBS)
    u.item(T + 'annotation.rs', 'enum', 'Object', derives=[])
    u.raw(SPEC)
    u.drop('generic visitor parameter `A: NamedElementValuesVisitor / UnnamedElementValuesVisitor` instantiated at the recording visitors NV / UV (signature and `A::` paths rewritten; bodies unchanged)')

    gen = (r'reader: &mut impl ClassRead', 'reader: &mut Rd')
    L0n, L0u = 'outer.log@', 'outer.log@'
    # ---------------------------------------------------------------- named pairs
    NEW = f'grew_by({L0n}, o.log@)'
    named_post = [
        C('C01.annot.named.frame', KEEP),
        C('C01.annot.named.visitor-receives-exactly-the-encoded-pairs-in-order',
          f'res matches Ok(o) ==> extends({L0n}, o.log@) && {NEW}.len() == u16_at({D0}, {P0}) && pairs_are_to({D0}, {P0} + 2, *pool, {NEW}, {NEW}.len() as int)'),
        C('C01.annot.named.consumes-exactly-the-encoded-pairs', f'res matches Ok(o) ==> final(reader).pos() == {P0} + 2 + pairs_size_to({NEW}, {NEW}.len() as int) && final(reader).pos() <= {D0}.len()'),
    ]
    cur = 'grew_by(log0, outer.log@)'
    inv_named = (f'reader.data() == {D0} && 0 <= {P0} && n_ as int == u16_at({D0}, {P0}) && extends(log0, outer.log@) && {cur}.len() == iter.index@ '
                 f'&& pairs_are_to({D0}, {P0} + 2, *pool, {cur}, iter.index@ as int) && reader.pos() == {P0} + 2 + pairs_size_to({cur}, iter.index@ as int) && reader.pos() <= {D0}.len()')
    step_named = (f'proof {{ let a = grew_by(log0, lg); let b = {cur}; let k = iter.index@ as int; '
                  f'assert(b =~= a.push(b[k])); lemma_pairs_prefix({D0}, {P0} + 2, *pool, a, b, k); lemma_sizes_nonneg(b[k].1); '
                  f'match b[k].1 {{ EvV::Annotation(ty, ps) => {{ assert(grew_by(Seq::<(JavaString, EvV)>::empty(), ps) =~= ps); }}, EvV::Array(vs) => {{ assert(grew_by(Seq::<EvV>::empty(), vs) =~= vs); }}, _ => {{}} }} '
                  f'assert(ev_is({D0}, {P0} + 2 + pairs_size_to(b, k) + 2, *pool, b[k].1)); assert(pairs_are_to({D0}, {P0} + 2, *pool, b, k + 1)); }}')
    u.fn(R, 'read_element_values_named', ret='res', canary=True,
         sig_rewrites=[gen, (r'fn read_element_values_named<A: NamedElementValuesVisitor>\(', 'fn read_element_values_named<Rd: ClassRead>('), (r'mut outer: A\) -> Result<A', 'mut outer: NV) -> Result<NV')],
         rewrites=[(r'for _ in 0\.\.reader\.read_u16\(\)\?', 'let n_ = reader.read_u16()?; for _i in iter: 0..n_'), (r'\bA::finish_', 'NV::finish_')],
         requires=[f'0 <= {P0}'], decreases=MEASURE,
         head_proof='let ghost log0 = outer.log@;',
         loops={0: dict(invariant=[C(f'C01.annot.named.inv.{i}', t) for i, t in enumerate(inv_named.split(' && '))], body_start=f'let ghost lg = outer.log@; proof {{ lemma_pairs_size_nonneg({cur}, iter.index@ as int); }}', body_end=step_named)},
         ensures=named_post)
    # ---------------------------------------------------------------- unnamed values
    NEWU = f'grew_by({L0u}, o.log@)'
    curu = 'grew_by(log0, outer.log@)'
    inv_un = (f'reader.data() == {D0} && 0 <= {P0} && n_ as int == u16_at({D0}, {P0}) && extends(log0, outer.log@) && {curu}.len() == iter.index@ '
              f'&& vals_are_to({D0}, {P0} + 2, *pool, {curu}, iter.index@ as int) && reader.pos() == {P0} + 2 + vals_size_to({curu}, iter.index@ as int) && reader.pos() <= {D0}.len()')
    step_un = (f'proof {{ let a = grew_by(log0, lg); let b = {curu}; let k = iter.index@ as int; '
               f'assert(b =~= a.push(b[k])); lemma_vals_prefix({D0}, {P0} + 2, *pool, a, b, k); lemma_sizes_nonneg(b[k]); }}')
    u.fn(R, 'read_element_values_unnamed', ret='res',
         sig_rewrites=[gen, (r'fn read_element_values_unnamed<A: UnnamedElementValuesVisitor>\(', 'fn read_element_values_unnamed<Rd: ClassRead>('), (r'mut outer: A\) -> Result<A', 'mut outer: UV) -> Result<UV')],
         rewrites=[(r'for _ in 0\.\.reader\.read_u16\(\)\?', 'let n_ = reader.read_u16()?; for _i in iter: 0..n_')],
         requires=[f'0 <= {P0}'], decreases=MEASURE,
         head_proof='let ghost log0 = outer.log@;',
         loops={0: dict(invariant=[C(f'C01.annot.unnamed.inv.{i}', t) for i, t in enumerate(inv_un.split(' && '))], body_start=f'let ghost lg = outer.log@; proof {{ lemma_vals_size_nonneg({curu}, iter.index@ as int); }}', body_end=step_un)},
         ensures=[
             C('C01.annot.unnamed.frame', KEEP),
             C('C01.annot.unnamed.visitor-receives-exactly-the-encoded-values-in-order',
               f'res matches Ok(o) ==> extends({L0u}, o.log@) && {NEWU}.len() == u16_at({D0}, {P0}) && vals_are_to({D0}, {P0} + 2, *pool, {NEWU}, {NEWU}.len() as int)'),
             C('C01.annot.unnamed.consumes-exactly-the-encoded-values', f'res matches Ok(o) ==> final(reader).pos() == {P0} + 2 + vals_size_to({NEWU}, {NEWU}.len() as int) && final(reader).pos() <= {D0}.len()'),
         ])
    u.fn(R, 'read_element_value_unnamed', ret='res',
         sig_rewrites=[gen, (r'fn read_element_value_unnamed<A: UnnamedElementValueVisitor>\(', 'fn read_element_value_unnamed<Rd: ClassRead>('), (r'mut outer: A\) -> Result<A', 'mut outer: UV) -> Result<UV')],
         rewrites=[(r'\bA::finish_', 'UV::finish_')],
         requires=[f'0 <= {P0}'], decreases=MEASURE,
         proof_before=[(r'^\s*Ok\(outer\)\s*$', '    proof { let v = outer.log@.last(); lemma_sizes_nonneg(v); '
                        'match v { EvV::Annotation(ty, ps) => { assert(grew_by(Seq::<(JavaString, EvV)>::empty(), ps) =~= ps); }, EvV::Array(vs) => { assert(grew_by(Seq::<EvV>::empty(), vs) =~= vs); }, _ => {} } }')],
         ensures=[
             C('C01.annot.value.frame', KEEP),
             C('C01.annot.value.visitor-receives-exactly-the-encoded-value', f'res matches Ok(o) ==> o.log@.len() == {L0u}.len() + 1 && extends({L0u}, o.log@) && ev_is({D0}, {P0}, *pool, o.log@.last())'),
             C('C01.annot.value.consumes-exactly-the-encoded-value', f'res matches Ok(o) ==> final(reader).pos() == {P0} + ev_size(o.log@.last()) && final(reader).pos() <= {D0}.len()'),
         ])

    # ---------------------------------------------------------------- RuntimeVisible/InvisibleAnnotations body
    V0 = 'annotations_visitor.log@'
    NEWA = f'grew_by({V0}, o.log@)'
    cura = 'grew_by(log0, annotations_visitor.log@)'
    inv_a = (f'reader.data() == {D0} && 0 <= {P0} && num_annotations as int == u16_at({D0}, {P0}) && extends(log0, annotations_visitor.log@) && {cura}.len() == iter.index@ '
             f'&& annots_are_to({D0}, {P0} + 2, *pool, {cura}, iter.index@ as int) && reader.pos() == {P0} + 2 + annots_size_to({cura}, iter.index@ as int) && reader.pos() <= {D0}.len()')
    step_a = (f'proof {{ let a = grew_by(log0, lg); let b = {cura}; let k = iter.index@ as int; assert(b =~= a.push(b[k])); lemma_annots_prefix({D0}, {P0} + 2, *pool, a, b, k); '
              f'lemma_pairs_size_nonneg(b[k].1, b[k].1.len() as int); assert(grew_by(Seq::<(JavaString, EvV)>::empty(), b[k].1) =~= b[k].1); assert(annots_are_to({D0}, {P0} + 2, *pool, b, k + 1)); }}')
    u.fn(R, 'read_annotations_attribute', ret='res',
         sig_rewrites=[gen, (r'fn read_annotations_attribute<A: AnnotationsVisitor>\(', 'fn read_annotations_attribute<Rd: ClassRead>('), (r'mut annotations_visitor: A,', 'mut annotations_visitor: AV,'), (r'-> Result<A', '-> Result<AV')],
         rewrites=[(r'for _ in 0\.\.num_annotations', 'for _i in iter: 0..num_annotations'), (r'\bAnnotationsVisitor::finish_annotation', 'AV::finish_annotation')],
         requires=[f'0 <= {P0}'],
         head_proof='let ghost log0 = annotations_visitor.log@;',
         loops={0: dict(invariant=[C(f'C01.annot.attribute.inv.{i}', t) for i, t in enumerate(inv_a.split(' && '))],
                        body_start=f'let ghost lg = annotations_visitor.log@; proof {{ lemma_annots_size_nonneg({cura}, iter.index@ as int); }}', body_end=step_a)},
         ensures=[
             C('C01.annot.attribute.frame', KEEP),
             C('C01.annot.attribute.visitor-receives-exactly-the-encoded-annotations-in-order',
               f'res matches Ok(o) ==> extends({V0}, o.log@) && {NEWA}.len() == u16_at({D0}, {P0}) && annots_are_to({D0}, {P0} + 2, *pool, {NEWA}, {NEWA}.len() as int)'),
             C('C01.annot.attribute.consumes-exactly-the-encoded-annotations', f'res matches Ok(o) ==> final(reader).pos() == {P0} + 2 + annots_size_to({NEWA}, {NEWA}.len() as int)'),
         ])

    # ---------------------------------------------------------------- RuntimeVisible/InvisibleTypeAnnotations body (class / field / method level)
    V0 = 'type_annotations_visitor.log@'
    NEWT = f'grew_by({V0}, o.log@)'
    curt = 'grew_by(log0, type_annotations_visitor.log@)'
    inv_t = (f'reader.data() == {D0} && 0 <= {P0} && num_annotations as int == u16_at({D0}, {P0}) && extends(log0, type_annotations_visitor.log@) && {curt}.len() == iter.index@ '
             f'&& tas_are_to::<T>({D0}, {P0} + 2, *pool, {curt}, iter.index@ as int) && reader.pos() == {P0} + 2 + tas_size_to::<T>({D0}, {P0} + 2, {curt}, iter.index@ as int) && reader.pos() <= {D0}.len() && reader.pos() >= {P0} + 2')
    step_t = (f'proof {{ let a = grew_by(log0, lg); let b = {curt}; let k = iter.index@ as int; assert(b =~= a.push(b[k])); lemma_tas_prefix::<T>({D0}, {P0} + 2, *pool, a, b, k); '
              f'lemma_pairs_size_nonneg(b[k].3, b[k].3.len() as int); assert(grew_by(Seq::<(JavaString, EvV)>::empty(), b[k].3) =~= b[k].3); assert(tas_are_to::<T>({D0}, {P0} + 2, *pool, b, k + 1)); }}')
    u.fn(R, 'read_type_annotations_attribute', ret='res',
         sig_rewrites=[(r'fn read_type_annotations_attribute<A: TypeAnnotationsVisitor<T>, T: TargetInfoRead>\(', 'fn read_type_annotations_attribute<Rd: ClassRead, T: TargetInfoRead>('),
                       (r'reader: &mut impl ClassRead', 'reader: &mut Rd'), (r'mut type_annotations_visitor: A,', 'mut type_annotations_visitor: TV<T>,'), (r'-> Result<A', '-> Result<TV<T>')],
         rewrites=[(r'for _ in 0\.\.num_annotations', 'for _i in iter: 0..num_annotations'), (r'\bTargetInfoRead::read_type_reference\(reader\)', 'T::read_type_reference(reader)'),
                   (r'\bTypeAnnotationsVisitor::finish_type_annotation', 'TV::finish_type_annotation')],
         requires=[f'0 <= {P0}'],
         head_proof='let ghost log0 = type_annotations_visitor.log@;',
         loops={0: dict(invariant=[C(f'C01.annot.type-attribute.inv.{i}', t) for i, t in enumerate(inv_t.split(' && '))],
                        body_start='let ghost lg = type_annotations_visitor.log@;', body_end=step_t)},
         ensures=[
             C('C01.annot.type-attribute.frame', KEEP),
             C('C01.annot.type-attribute.visitor-receives-target-path-type-and-pairs-of-every-encoded-type-annotation-in-order',
               f'res matches Ok(o) ==> extends({V0}, o.log@) && {NEWT}.len() == u16_at({D0}, {P0}) && tas_are_to::<T>({D0}, {P0} + 2, *pool, {NEWT}, {NEWT}.len() as int)'),
             C('C01.annot.type-attribute.consumes-exactly-the-encoded-type-annotations', f'res matches Ok(o) ==> final(reader).pos() == {P0} + 2 + tas_size_to::<T>({D0}, {P0} + 2, {NEWT}, {NEWT}.len() as int)'),
         ])

    # ---------------------------------------------------------------- the same inside Code (targets resolved through the label table)
    curc = 'grew_by(log0, type_annotations_visitor.log@)'
    NEWC = f'grew_by({V0}, o.log@)'
    inv_c = (f'reader.data() == {D0} && 0 <= {P0} && num_annotations as int == u16_at({D0}, {P0}) && extends(log0, type_annotations_visitor.log@) && {curc}.len() == iter.index@ '
             f'&& labels_kept(*old(labels), *labels) && tcs_are_to({D0}, {P0} + 2, *pool, *labels, {curc}, iter.index@ as int) '
             f'&& reader.pos() == {P0} + 2 + tcs_size_to({D0}, {P0} + 2, {curc}, iter.index@ as int) && reader.pos() <= {D0}.len() && reader.pos() >= {P0} + 2')
    step_c = (f'proof {{ let a = grew_by(log0, lg); let b = {curc}; let k = iter.index@ as int; assert(b =~= a.push(b[k])); lemma_tcs_prefix({D0}, {P0} + 2, *pool, lb, a, b, k); '
              f'axiom_labels_kept(*old(labels), lb, *labels); lemma_tcs_stable({D0}, {P0} + 2, *pool, lb, *labels, b, k); '
              f'lemma_pairs_size_nonneg(b[k].3, b[k].3.len() as int); assert(grew_by(Seq::<(JavaString, EvV)>::empty(), b[k].3) =~= b[k].3); assert(tcs_are_to({D0}, {P0} + 2, *pool, *labels, b, k + 1)); }}')
    u.fn(R, 'read_type_annotations_attribute_code', ret='res',
         sig_rewrites=[(r'fn read_type_annotations_attribute_code<A: TypeAnnotationsVisitor<TargetInfoCode>>\(', 'fn read_type_annotations_attribute_code<Rd: ClassRead>('),
                       (r'reader: &mut impl ClassRead', 'reader: &mut Rd'), (r'mut type_annotations_visitor: A,', 'mut type_annotations_visitor: TVC,'), (r'-> Result<A', '-> Result<TVC')],
         rewrites=[(r'for _ in 0\.\.num_annotations', 'for _i in iter: 0..num_annotations'), (r'\bTypeAnnotationsVisitor::finish_type_annotation', 'TVC::finish_type_annotation')],
         requires=[f'0 <= {P0}'],
         head_proof='let ghost log0 = type_annotations_visitor.log@; proof { axiom_labels_kept(*labels, *labels, *labels); }',
         loops={0: dict(invariant=[C(f'C01.annot.type-attribute-code.inv.{i}', t) for i, t in enumerate(inv_c.split(' && '))],
                        body_start='let ghost lg = type_annotations_visitor.log@; let ghost lb = *labels;', body_end=step_c)},
         ensures=[
             C('C01.annot.type-attribute-code.frame', KEEP + ' && (res.is_ok() ==> labels_kept(*old(labels), *final(labels)))'),
             C('C01.annot.type-attribute-code.visitor-receives-target-path-type-and-pairs-of-every-encoded-type-annotation-in-order',
               f'res matches Ok(o) ==> extends({V0}, o.log@) && {NEWC}.len() == u16_at({D0}, {P0}) && tcs_are_to({D0}, {P0} + 2, *pool, *final(labels), {NEWC}, {NEWC}.len() as int)'),
             C('C01.annot.type-attribute-code.consumes-exactly-the-encoded-type-annotations', f'res matches Ok(o) ==> final(reader).pos() == {P0} + 2 + tcs_size_to({D0}, {P0} + 2, {NEWC}, {NEWC}.len() as int)'),
         ])
