"""c20ser -- every macro-generated `_write` / `_len` of raw_class_file against the byte layout of JVMS chapter 4.

Verified on the `rustc -Zunpretty=expanded` text of the crate (what notation! really generates), whole functions, no arm lifting.
The specification `ser_T` (one spec function per structure) is generated from the table JVMS below, which is written from the
Java Virtual Machine Specification (sections quoted per entry), NOT from the notation! invocations: a field in the wrong order, a
wrong tag, a count of the wrong width or a wrong attribute_length in /repo fails a postcondition.

Contracts (for every type T of the table):
  T::_write  requires wf_T(*self)  ensures res.is_ok() && final(writer)@ == old(writer)@ + ser_T(*self)
  T::_len    requires wf_T(*self)  ensures r == ser_T(*self).len()
wf_T: every vector fits its JVMS count field, the structure-specific range conditions of JVMS 4.7.4 hold and the total length
fits u32 (the type of `_len`).
"""
import re

from vx.unit import C
from vx.rustcut import CutError, code_mask, match_close, loop_headers
from vx.units.c20len import expand, rewrite_sink, SRC, EXP

PROPS = ['C20']
RLIMIT = 200
VERUS_ARGS = ['--num-threads', '16']

# ----------------------------------------------------------------------------------------------------------------------
# JVMS table.  Entry kinds:
#   K(width, spec_expr)     a constant / computed item of `width` bytes
#   F(width, field)         a u1/u2/u4 field stored in the value
#   N(field, Type)          a nested structure
#   V(cw, field, elem)      `count` of width cw (0 = no count item) followed by the elements; elem = 1 | 2 (u1/u2) or a type name
#   ALEN                    u4 attribute_length = number of bytes of everything after it (JVMS 4.7)


def K(w, e):
    return ('K', w, e)


def F(w, f):
    return ('F', w, f)


def N(f, t):
    return ('N', f, t)


def V(cw, f, elem, count=None):
    return ('V', cw, f, elem, count)


ALEN = ('ALEN',)
U2 = lambda *fs: [F(2, f) for f in fs]  # noqa: E731

ATTR = lambda *rest: [F(2, 'attribute_name_index'), ALEN] + list(rest)  # noqa: E731  JVMS 4.7: u2 attribute_name_index; u4 attribute_length; info

JVMS = {
    # 4.1 ClassFile
    'ClassFile': ('struct', [K(4, '0xCAFEBABEu32'), F(2, 'minor_version'), F(2, 'major_version'),
                             V(2, 'constant_pool', 'CpInfo', count='{n} + 1'),   # constant_pool_count = number of entries + 1
                             F(2, 'access_flags'), F(2, 'this_class'), F(2, 'super_class'), V(2, 'interfaces', 2),
                             V(2, 'fields', 'FieldInfo'), V(2, 'methods', 'MethodInfo'), V(2, 'attributes', 'AttributeInfo')], None),
    # 4.4 cp_info: u1 tag + info
    'CpInfo': ('enum', {
        'Class': [K(1, '7u8')] + U2('name_index'),
        'Fieldref': [K(1, '9u8')] + U2('class_index', 'name_and_type_index'),
        'Methodref': [K(1, '10u8')] + U2('class_index', 'name_and_type_index'),
        'InterfaceMethodref': [K(1, '11u8')] + U2('class_index', 'name_and_type_index'),
        'String': [K(1, '8u8')] + U2('string_index'),
        'Integer': [K(1, '3u8'), F(4, 'bytes')],
        'Float': [K(1, '4u8'), F(4, 'bytes')],
        'Long': [K(1, '5u8'), F(4, 'high_bytes'), F(4, 'low_bytes')],
        'Double': [K(1, '6u8'), F(4, 'high_bytes'), F(4, 'low_bytes')],
        'NameAndType': [K(1, '12u8')] + U2('name_index', 'descriptor_index'),
        'Utf8': [K(1, '1u8'), V(2, 'bytes', 1)],
        'MethodHandle': [K(1, '15u8'), F(1, 'reference_kind'), F(2, 'reference_index')],
        'MethodType': [K(1, '16u8')] + U2('descriptor_index'),
        'Dynamic': [K(1, '17u8')] + U2('bootstrap_method_attr_index', 'name_and_type_index'),
        'InvokeDynamic': [K(1, '18u8')] + U2('bootstrap_method_attr_index', 'name_and_type_index'),
        'Module': [K(1, '19u8')] + U2('name_index'),
        'Package': [K(1, '20u8')] + U2('name_index'),
    }, None),
    # 4.5 / 4.6
    'FieldInfo': ('struct', U2('access_flags', 'name_index', 'descriptor_index') + [V(2, 'attributes', 'AttributeInfo')], None),
    'MethodInfo': ('struct', U2('access_flags', 'name_index', 'descriptor_index') + [V(2, 'attributes', 'AttributeInfo')], None),
    # 4.7.x
    'AttributeInfo': ('enum', {
        'ConstantValue': ATTR(*U2('constantvalue_index')),                                                       # 4.7.2
        'Code': ATTR(F(2, 'max_stack'), F(2, 'max_locals'), V(4, 'code', 1), V(2, 'exception_table', 'ExceptionTableEntry'),
                     V(2, 'attributes', 'AttributeInfo')),                                                       # 4.7.3
        'StackMapTable': ATTR(V(2, 'entries', 'StackMapFrame')),                                                 # 4.7.4
        'Exceptions': ATTR(V(2, 'exception_index_table', 2)),                                                    # 4.7.5
        'InnerClasses': ATTR(V(2, 'classes', 'InnerClassesEntry')),                                              # 4.7.6
        'EnclosingMethod': ATTR(*U2('class_index', 'method_index')),                                             # 4.7.7
        'Synthetic': ATTR(),                                                                                     # 4.7.8
        'Signature': ATTR(*U2('signature_index')),                                                               # 4.7.9
        'SourceFile': ATTR(*U2('sourcefile_index')),                                                             # 4.7.10
        'SourceDebugExtension': ATTR(V(0, 'debug_extension', 1)),                                                # 4.7.11 u1 debug_extension[attribute_length]
        'LineNumberTable': ATTR(V(2, 'line_number_table', 'LineNumberTableEntry')),                              # 4.7.12
        'LocalVariableTable': ATTR(V(2, 'local_variable_table', 'LocalVariableTableEntry')),                     # 4.7.13
        'LocalVariableTypeTable': ATTR(V(2, 'local_variable_type_table', 'LocalVariableTypeTableEntry')),        # 4.7.14
        'Deprecated': ATTR(),                                                                                    # 4.7.15
        'RuntimeVisibleAnnotations': ATTR(V(2, 'annotations', 'Annotation')),                                    # 4.7.16
        'RuntimeInvisibleAnnotations': ATTR(V(2, 'annotations', 'Annotation')),                                  # 4.7.17
        'RuntimeVisibleParameterAnnotations': ATTR(V(1, 'parameter_annotations', 'ParameterAnnotationEntry')),   # 4.7.18 u1 num_parameters
        'RuntimeInvisibleParameterAnnotations': ATTR(V(1, 'parameter_annotations', 'ParameterAnnotationEntry')), # 4.7.19 u1 num_parameters
        'AnnotationDefault': ATTR(N('default_value', 'ElementValue')),                                           # 4.7.22
        'BootstrapMethods': ATTR(V(2, 'bootstrap_methods', 'BootstrapMethodsEntry')),                            # 4.7.23
        'MethodParameters': ATTR(V(1, 'parameters', 'MethodParametersEntry')),                                   # 4.7.24 u1 parameters_count
        'Module': ATTR(F(2, 'module_name_index'), F(2, 'module_flags'), F(2, 'module_version_index'), V(2, 'requires', 'ModuleRequiresEntry'),
                       V(2, 'exports', 'ModuleExportsEntry'), V(2, 'opens', 'ModuleOpensEntry'), V(2, 'uses_index', 2),
                       V(2, 'provides', 'ModuleProvidesEntry')),                                                 # 4.7.25
        'ModulePackages': ATTR(V(2, 'package_index', 2)),                                                        # 4.7.26
        'ModuleMainClass': ATTR(*U2('main_class_index')),                                                        # 4.7.27
        'NestHost': ATTR(*U2('host_class_index')),                                                               # 4.7.28
        'NestMembers': ATTR(V(2, 'classes', 2)),                                                                 # 4.7.29
        'Record': ATTR(V(2, 'components', 'RecordComponentInfo')),                                               # 4.7.30
        'PermittedSubclasses': ATTR(V(2, 'classes', 2)),                                                         # 4.7.31
        'Other': ATTR(V(0, 'info', 1)),                                                                          # 4.7 u1 info[attribute_length]
    }, None),
    'ExceptionTableEntry': ('struct', U2('start_pc', 'end_pc', 'handler_pc', 'catch_type'), None),               # 4.7.3
    # 4.7.4 verification_type_info: ITEM_Top 0, Integer 1, Float 2, Double 3, Long 4, Null 5, UninitializedThis 6, Object 7, Uninitialized 8
    'VerificationTypeInfo': ('enum', {
        'Top': [K(1, '0u8')], 'Integer': [K(1, '1u8')], 'Float': [K(1, '2u8')], 'Double': [K(1, '3u8')], 'Long': [K(1, '4u8')],
        'Null': [K(1, '5u8')], 'UnintializedThis': [K(1, '6u8')], 'Object': [K(1, '7u8'), F(2, 'cpool_index')],
        'Unintialized': [K(1, '8u8'), F(2, 'offset')],
    }, None),
    # 4.7.4 stack_map_frame: frame_type selects the shape; same_frame 0-63, same_locals_1_stack_item 64-127, ..._extended 247,
    # chop 248-250 (k = 251 - frame_type), same_frame_extended 251, append 252-254 (k = frame_type - 251), full_frame 255
    'StackMapFrame': ('enum', {
        'SameFrame': [K(1, 'offset_delta')],
        'SameLocals1StackItemFrame': [K(1, '(offset_delta + 64) as u8'), N('stack', 'VerificationTypeInfo')],
        'SameLocals1StackItemFrameExtended': [K(1, '247u8'), F(2, 'offset_delta'), N('stack', 'VerificationTypeInfo')],
        'ChopFrame': [K(1, '(251 - k) as u8'), F(2, 'offset_delta')],
        'SameFrameExtended': [K(1, '251u8'), F(2, 'offset_delta')],
        'AppendFrame': [K(1, '(251 + locals@.len()) as u8'), F(2, 'offset_delta'), V(0, 'locals', 'VerificationTypeInfo')],
        'FullFrame': [K(1, '255u8'), F(2, 'offset_delta'), V(2, 'locals', 'VerificationTypeInfo'), V(2, 'stack', 'VerificationTypeInfo')],
    }, {
        'SameFrame': 'offset_delta <= 63', 'SameLocals1StackItemFrame': 'offset_delta <= 63',
        'ChopFrame': '1 <= k <= 3', 'AppendFrame': '1 <= locals@.len() <= 3',
    }),
    'InnerClassesEntry': ('struct', U2('inner_class_info_index', 'outer_class_info_index', 'inner_name_index', 'inner_class_access_flags'), None),  # 4.7.6
    'LineNumberTableEntry': ('struct', U2('start_pc', 'line_number'), None),                                                                      # 4.7.12
    'LocalVariableTableEntry': ('struct', U2('start_pc', 'length', 'name_index', 'descriptor_index', 'index'), None),                             # 4.7.13
    'LocalVariableTypeTableEntry': ('struct', U2('start_pc', 'length', 'name_index', 'signature_index', 'index'), None),                          # 4.7.14
    # 4.7.16 annotation / element_value
    'Annotation': ('struct', [F(2, 'type_index'), V(2, 'element_value_pairs', 'ElementValuePairsEntry')], None),
    'ElementValuePairsEntry': ('struct', [F(2, 'element_name_index'), N('value', 'ElementValue')], None),
    'ElementValue': ('enum', {
        'Byte': [K(1, '66u8'), F(2, 'const_value_index')],      # 'B'
        'Char': [K(1, '67u8'), F(2, 'const_value_index')],      # 'C'
        'Double': [K(1, '68u8'), F(2, 'const_value_index')],    # 'D'
        'Float': [K(1, '70u8'), F(2, 'const_value_index')],     # 'F'
        'Integer': [K(1, '73u8'), F(2, 'const_value_index')],   # 'I'
        'Long': [K(1, '74u8'), F(2, 'const_value_index')],      # 'J'
        'Short': [K(1, '83u8'), F(2, 'const_value_index')],     # 'S'
        'Boolean': [K(1, '90u8'), F(2, 'const_value_index')],   # 'Z'
        'String': [K(1, '115u8'), F(2, 'const_value_index')],   # 's'
        'Enum': [K(1, '101u8'), F(2, 'type_name_index'), F(2, 'const_name_index')],   # 'e'
        'Class': [K(1, '99u8'), F(2, 'class_info_index')],      # 'c'
        'Annotation': [K(1, '64u8'), N('annotation_value', 'Annotation')],            # '@'
        'Array': [K(1, '91u8'), V(2, 'values', 'ElementValue')],                      # '['
    }, None),
    'ParameterAnnotationEntry': ('struct', [V(2, 'annotations', 'Annotation')], None),                            # 4.7.18
    'BootstrapMethodsEntry': ('struct', [F(2, 'bootstrap_method_ref'), V(2, 'boostrap_arguments', 2)], None),      # 4.7.23
    'MethodParametersEntry': ('struct', U2('name_index', 'access_flags'), None),                                  # 4.7.24
    'ModuleRequiresEntry': ('struct', U2('requires_index', 'requires_flags', 'requires_version_index'), None),    # 4.7.25
    'ModuleExportsEntry': ('struct', U2('exports_index', 'exports_flags') + [V(2, 'exports_to_index', 2)], None),
    'ModuleOpensEntry': ('struct', U2('opens_index', 'opens_flags') + [V(2, 'opens_to_index', 2)], None),
    'ModuleProvidesEntry': ('struct', [F(2, 'provides_index'), V(2, 'provides_with_index', 2)], None),
    'RecordComponentInfo': ('struct', U2('name_index', 'descriptor_index') + [V(2, 'attributes', 'AttributeInfo')], None),  # 4.7.30
}

BE = {1: 'seq![{e}]', 2: 'be16({e})', 4: 'be32({e})'}
UTY = {1: 'u8', 2: 'u16', 4: 'u32'}
CMAX = {1: '255', 2: '65535', 4: '0xffff_ffff'}
EMPTY = 'Seq::<u8>::empty()'


def elem_name(e):
    return {1: 'u8', 2: 'u16'}.get(e, e)


def elem_ty(e):
    return elem_name(e)


def fields_of(entries):
    out = []
    for e in entries:
        if e[0] == 'K':
            out.extend(re.findall(r'\b(offset_delta|k|locals)\b', e[2]))
        elif e[0] in ('F',):
            out.append(e[2])
        elif e[0] == 'N':
            out.append(e[1])
        elif e[0] == 'V':
            out.append(e[2])
    return list(dict.fromkeys(out))


def ser_terms(entries, acc):
    """list of spec terms (Seq<u8> expressions) for the entries; `acc(f)` renders access to field f"""
    terms = []
    for i, e in enumerate(entries):
        if e[0] == 'K':
            terms.append(BE[e[1]].format(e=subst_fields(e[2], acc)))
        elif e[0] == 'F':
            terms.append(BE[e[1]].format(e=acc(e[2])))
        elif e[0] == 'N':
            terms.append(f'ser_{e[2]}({acc(e[1])})')
        elif e[0] == 'V':
            _, cw, f, elem, count = e
            n = f'{acc(f)}@.len()'
            if cw:
                cnt = count.format(n=n) if count else n
                terms.append(BE[cw].format(e=f'(({cnt}) as {UTY[cw]})'))
            terms.append(f'flat_{elem_name(elem)}({acc(f)}, {n})')
        elif e[0] == 'ALEN':
            rest = ser_terms(entries[i + 1:], acc)
            terms.append('be32(((' + ' + '.join([EMPTY] + rest) + ').len()) as u32)')
    return terms


def subst_fields(expr, acc):
    return re.sub(r'\b(offset_delta|k|locals)\b', lambda m: acc(m.group(1)), expr)


def gen_specs():
    """spec functions ser_T / wf_T / flat_E + lemmas, generated from JVMS"""
    out = []
    elems = set()
    for t, (kind, body, extra) in JVMS.items():
        variants = body.items() if kind == 'enum' else [(None, body)]
        for _, entries in variants:
            for e in entries:
                if e[0] == 'V':
                    elems.add(e[3])
    out.append('// ===== generated from the JVMS table of vx/units/c20ser.py =====')
    for t, (kind, body, extra) in JVMS.items():
        if kind == 'struct':
            acc = lambda f: f'x.{f}'  # noqa: E731
            out.append(f'#[verifier::opaque]\npub open spec fn ser_{t}(x: {t}) -> Seq<u8> decreases x {{\n    ' + ' + '.join([EMPTY] + ser_terms(body, acc)) + '\n}')
            out.append(f'#[verifier::opaque]\npub open spec fn wf_{t}(x: {t}) -> bool decreases x {{\n    ' + ' && '.join(wf_terms(t, body, acc, None)) + '\n}')
        else:
            arms_s, arms_w = [], []
            for v, entries in body.items():
                fs = fields_of(entries)
                pat = f'{t}::{v} {{ ' + ', '.join(fs + ['..']) + ' }'
                acc = lambda f: f  # noqa: E731
                arms_s.append(f'        {pat} => ' + ' + '.join([EMPTY] + ser_terms(entries, acc)) + ',')
                arms_w.append(f'        {pat} => ' + ' && '.join(wf_terms(t, entries, acc, (extra or {}).get(v))) + ',')
            out.append(f'#[verifier::opaque]\npub open spec fn ser_{t}(x: {t}) -> Seq<u8> decreases x {{\n    match x {{\n' + '\n'.join(arms_s) + '\n    }\n}')
            out.append(f'#[verifier::opaque]\npub open spec fn wf_{t}(x: {t}) -> bool decreases x {{\n    ser_{t}(x).len() <= 0xffff_ffff && match x {{\n' + '\n'.join(arms_w) + '\n    }\n}')
    for e in sorted(elems, key=str):
        n, ty = elem_name(e), elem_ty(e)
        one = {1: 'seq![v@[k - 1]]', 2: 'be16(v@[k - 1])'}.get(e, f'ser_{n}(v@[k - 1])')
        SCCREV = ''.join(f'reveal({f}); ' for f in scc_reveal(e))
        out.append(f'''#[verifier::opaque]
pub open spec fn flat_{n}(v: Vec<{ty}>, k: nat) -> Seq<u8> decreases v, k {{
    if k == 0 || k > v@.len() {{ {EMPTY} }} else {{ flat_{n}(v, (k - 1) as nat) + {one} }}
}}
pub proof fn lemma_flat_{n}_zero(v: Vec<{ty}>)
    ensures flat_{n}(v, 0) == {EMPTY}
{{ {SCCREV} }}
pub proof fn lemma_flat_{n}_step(v: Vec<{ty}>, k: nat)
    requires 0 < k <= v@.len()
    ensures flat_{n}(v, k) == flat_{n}(v, (k - 1) as nat) + {one}
{{ {SCCREV} }}
pub proof fn lemma_flat_{n}_mono(v: Vec<{ty}>, k: nat, n: nat)
    requires k <= n <= v@.len()
    ensures flat_{n}(v, k).len() <= flat_{n}(v, n).len()
    decreases n
{{ {SCCREV} if k < n {{ lemma_flat_{n}_mono(v, k, (n - 1) as nat); }} }}''')
        if e in (1, 2):
            out.append(f'''pub proof fn lemma_flat_{n}_len(v: Vec<{ty}>, k: nat)
    requires k <= v@.len()
    ensures flat_{n}(v, k).len() == {e} * k
    decreases k
{{ {SCCREV} if k > 0 {{ lemma_flat_{n}_len(v, (k - 1) as nat); }} }}''')
    return '\n'.join(out) + '\n'


def wf_terms(t, entries, acc, extra):
    terms = []
    if extra:
        terms.append('(' + subst_fields(extra, acc) + ')')
    for e in entries:
        if e[0] == 'N':
            terms.append(f'wf_{e[2]}({acc(e[1])})')
        elif e[0] == 'V':
            _, cw, f, elem, count = e
            n = f'{acc(f)}@.len()'
            if cw:
                cnt = count.format(n=n) if count else n
                terms.append(f'{cnt} <= {CMAX[cw]}')
            if elem not in (1, 2):
                terms.append(f'(forall|i: int| 0 <= i < {n} ==> wf_{elem}(#[trigger] {acc(f)}@[i]))')
    if not terms or JVMS[t][0] == 'struct':
        terms.insert(0, f'ser_{t}(x).len() <= 0xffff_ffff' if JVMS[t][0] == 'struct' else 'true')
    return terms


# ----------------------------------------------------------------------------------------------------------------------
# instrumentation of the extracted functions (proof text only; the executable statements are untouched)

def field_of_loop_expr(expr):
    """`for X in EXPR`: EXPR is `&self.f`, a binding `f`, or `_i` (the macro's `let _i = f;` alias)"""
    expr = expr.strip()
    m = re.fullmatch(r'&\s*self\.(\w+)', expr)
    if m:
        return m.group(1), f'self.{m.group(1)}'
    m = re.fullmatch(r'(\w+)', expr)
    if m:
        return m.group(1), f'(*{m.group(1)})'
    raise CutError(f'loop over unexpected expression `{expr}`')


def arm_of(body, pos, t):
    """the enum arm (variant, bindings) that contains offset pos of a `match self` body"""
    mask = code_mask(body)
    best = None
    for m in re.finditer(r'(?:this\s*@\s*)?' + re.escape(t) + r'::(\w+)\s*\{', mask):
        if m.start() > pos:
            break
        pb = m.end() - 1
        pe = match_close(mask, pb)
        arrow = mask.find('=>', pe)
        ob = mask.find('{', arrow)
        cb = match_close(mask, ob)
        if ob < pos < cb:
            binds = [b.strip() for b in body[pb + 1:pe].split(',') if b.strip()]
            best = (m.group(1), binds, ob, cb)
    return best


def entry_for(t, variant, field):
    kind, body, _ = JVMS[t]
    entries = body[variant] if kind == 'enum' else body
    for e in entries:
        if e[0] == 'V' and e[2] == field:
            return e
        if e[0] == 'N' and e[1] == field:
            return e
    raise CutError(f'{t}::{variant or ""}: the code iterates/nests field `{field}`, which the JVMS table does not list as a table or nested structure')


def type_graph():
    g = {}
    for t, (kind, body, _) in JVMS.items():
        variants = body.values() if kind == 'enum' else [body]
        g[t] = sorted({e[2] for ents in variants for e in ents if e[0] == 'N'} | {e[3] for ents in variants for e in ents if e[0] == 'V' and e[3] not in (1, 2)})
    return g


def reach(g, a):
    seen, todo = set(), [a]
    while todo:
        x = todo.pop()
        for y in g.get(x, []):
            if y not in seen:
                seen.add(y)
                todo.append(y)
    return seen


_FLATS = None


def flats():
    global _FLATS
    if _FLATS is None:
        _FLATS = set()
        for t, (kind, body, _) in JVMS.items():
            for ents in (body.values() if kind == 'enum' else [body]):
                _FLATS |= {elem_name(e[3]) for e in ents if e[0] == 'V'}
    return _FLATS


def cycle_of(x):
    g = type_graph()
    return {y for y in reach(g, x) if x in reach(g, y)} if x in reach(g, x) else set()


def scc_reveal(e):
    """what a lemma about flat_E has to reveal: flat_E itself and, if E is recursive, every member of its recursion group
    (Verus only unfolds a member of a mutually recursive group when the whole group has fuel)"""
    if e in (1, 2):
        return [f'flat_{elem_name(e)}']
    out = [f'flat_{e}']
    for x in sorted(cycle_of(e)):
        out += [f'ser_{x}', f'wf_{x}'] + ([f'flat_{x}'] if x in flats() and x != e else [])
    return out


def reveal_set(t):
    """the spec functions are opaque; a function of type T reveals ser_T and wf_T (and the rest of T's recursion group, if any).
    flat_E is never revealed in the extracted functions: they use lemma_flat_E_zero / _step / _mono / _len."""
    out = [f'ser_{t}', f'wf_{t}']
    for x in sorted(cycle_of(t)):
        if x != t:
            out += [f'ser_{x}', f'wf_{x}']
    for x in sorted(cycle_of(t)):
        if x in flats():
            out.append(f'flat_{x}')
    return out


def shape_eq(t, arm, SELF='self'):
    """the arm's bindings are the fields of *self (stated with `matches`, which gives the solver the variant test and the projections)"""
    if not arm:
        return None
    v, binds = arm[0], arm[1]
    return (f'(*{SELF}) matches {t}::{v} {{ ' + ', '.join(f'{b}: sh_{b}' for b in binds) + ' } && ' + ' && '.join(f'sh_{b} == *{b}' for b in binds)) if binds else f'(*{SELF}) is {v}'


LIFT = {'AttributeInfo'}   # enums whose arms are verified one function per arm (keeps every SMT query small)


def arms_of_fn(body, t):
    """all arms of the `match self` of an enum method: (variant, binds, has_this, pattern_start, open_brace, close_brace)"""
    mask = code_mask(body)
    res = []
    for m in re.finditer(r'(this\s*@\s*)?' + re.escape(t) + r'::(\w+)\s*\{', mask):
        pb = m.end() - 1
        pe = match_close(mask, pb)
        arrow = mask.find('=>', pe)
        if arrow < 0 or mask[pe + 1:arrow].strip():
            continue
        ob = mask.find('{', arrow)
        cb = match_close(mask, ob)
        if res and m.start() < res[-1][5]:
            continue   # nested inside the previous arm (cannot happen in generated code)
        binds = [b.strip() for b in body[pb + 1:pe].split(',') if b.strip()]
        res.append((m.group(2), binds, bool(m.group(1)), m.start(), ob, cb))
    return res


def variant_field_types(s, t, variant):
    en = s.cut_item('enum', t)
    vm = re.compile(r'\b' + re.escape(variant) + r'\s*\{').search(s.mask, en['open'], en['close'])
    if not vm:
        raise CutError(f'enum variant {t}::{variant} not found')
    vb = vm.end() - 1
    ve = match_close(s.mask, vb)
    return {fm.group(1): re.sub(r'\s+', ' ', fm.group(2)) for fm in re.finditer(r'([a-z_][a-z0-9_]*)\s*:\s*([^,]+?)\s*(?:,|$)', s.text[vb + 1:ve].strip(), re.S)}


def build_fn(u, t, fname, canary=False):
    s = u.src(EXP)
    kind = JVMS[t][0]
    impl_which = 1 if t == 'ClassFile' else 0
    imp = s.cut_item('impl', re.escape(t), which=impl_which)
    f = s.cut_fn(fname, within=(imp['open'] + 1, imp['close']))
    if kind == 'enum' and t in LIFT:
        arms = arms_of_fn(f['body'], t)
        if len(arms) != len(JVMS[t][1]):
            raise CutError(f'{t}::{fname}: {len(arms)} arms found, the JVMS table lists {len(JVMS[t][1])} variants')
        for (v, binds, has_this, ps, ob, cb) in arms:
            ftypes = variant_field_types(s, t, v)
            params = ''.join(f', {b}: &{ftypes[b]}' for b in binds)
            body = f['body'][ob:cb + 1]
            line = s.line_of(f['open'] + ob)
            if fname == '_write':
                sig = f'pub fn {t}_write_arm_{v}(this: &{t}, writer: &mut Vec<u8>{params}) -> Result<(), VErr>'
                k = body.rfind('}')
                body = body[:k] + ' Ok(()) ' + body[k:]
            else:
                sig = f'pub fn {t}_len_arm_{v}(this: &{t}{params}) -> u32'
            emit_fn(u, t, fname, body, SELF='this', fixed_arm=(v, binds), key=f'{t}::{fname}[{v}]', synth=dict(sig=sig, body=body, line=line))
        u.drop(f'each match arm of {t}::{fname} lifted into its own function (parameters = `this` and the arm bindings); the match of {t}::{fname} dispatches to them (mechanical extract-function refactoring)', len(arms))

        def dispatch(body):
            for (v, binds, has_this, ps, ob, cb) in sorted(arms_of_fn(body, t), key=lambda a: -a[4]):
                args = ''.join(f', {b}' for b in binds)
                call = (f'{{ {t}_write_arm_{v}(self, writer{args})?; }}' if fname == '_write' else f'{{ {t}_len_arm_{v}(self{args}) }}')
                body = body[:ob] + call + '\n' * body[ob:cb + 1].count('\n') + body[cb + 1:]
            return body
        emit_fn(u, t, fname, f['body'], dispatcher=dispatch, canary=canary)
    else:
        emit_fn(u, t, fname, f['body'], canary=canary)


def emit_fn(u, t, fname, body_src, SELF='self', fixed_arm=None, key=None, synth=None, dispatcher=None, canary=False):
    kind = JVMS[t][0]
    impl_which = 1 if t == 'ClassFile' else 0
    body0 = body_src
    if dispatcher:
        body0 = dispatcher(body0)
    if fname == '_write':
        body0 = rewrite_sink(body0, u) if not dispatcher else body0
    lh = loop_headers(body0)
    mask0 = code_mask(body0)
    loops = {}

    def get_arm(body, pos):
        if fixed_arm:
            return fixed_arm
        return arm_of(body, pos, t) if kind == 'enum' else None

    for k, (kwpos, brace) in enumerate(lh):
        hdr = body0[kwpos:brace]
        m = re.match(r'for\s+(\w+)\s+in\s+(.*)$', hdr.strip(), re.S)
        if not m:
            raise CutError(f'{t}::{fname}: loop #{k} is not a `for x in e` loop')
        var, expr = m.group(1), m.group(2)
        arm = get_arm(body0, kwpos)
        alias = expr.strip() == '_i'
        if alias:
            # the macro's alias: `let _i = <field>;` directly in front of the block that holds the loop
            mm = list(re.finditer(r'let\s+_i\s*=\s*(&\s*self\.\w+|\w+)\s*;', mask0[:kwpos]))
            if not mm:
                raise CutError(f'{t}::{fname}: loop #{k} iterates `_i` but no `let _i = <field>;` precedes it')
            expr = mm[-1].group(1)
        field, fexpr = field_of_loop_expr(expr)
        ent = entry_for(t, arm[0] if arm else None, field)
        if ent[0] != 'V':
            raise CutError(f'{t}::{fname}: loop over `{field}`, which is not a table in the JVMS table')
        _, cw, _, elem, _ = ent
        en = elem_name(elem)
        lab = f'C20.{t}{"." + arm[0] if arm else ""}.{fname}.loop{k}'
        inv = []
        if fname == '_len':
            mm = list(re.finditer(r'let\s+mut\s+len\s*=\s*([^;]+);', mask0[:kwpos]))
            if not mm:
                raise CutError(f'{t}::_len: loop #{k} without `let mut len = ..;`')
            base = mm[-1].group(1).strip()
            inv.append(C(lab + '.sum', f'len == ({base}) + flat_{en}({fexpr}, iter.index@ as nat).len()'))
            inv.append(C(lab + '.fits', f'({base}) + flat_{en}({fexpr}, {fexpr}@.len()).len() <= 0xffff_ffff'))
        else:
            inv.append(C(lab + '.bytes', f'writer@ == w0 + acc + flat_{en}({fexpr}, iter.index@ as nat)'))
        if elem not in (1, 2):
            inv.append(C(lab + '.elems-wf', f'forall|i: int| 0 <= i < {fexpr}@.len() ==> wf_{en}(#[trigger] {fexpr}@[i])'))
        if alias:
            inv.append(C(lab + '.alias', f'iter.snapshot@.remaining().len() == {fexpr}@.len() && (forall|i: int| 0 <= i < {fexpr}@.len() ==> *(#[trigger] iter.snapshot@.remaining()[i]) == {fexpr}@[i])'))
        se = shape_eq(t, arm, SELF)
        if se:
            inv.append(C(lab + '.shape', se))
        spec = dict(invariant=inv, before=f'proof {{ lemma_flat_{en}_zero({fexpr}); }}')
        if fname == '_len':
            spec['body_start'] = f'proof {{ lemma_flat_{en}_step({fexpr}, (iter.index@ + 1) as nat); lemma_flat_{en}_mono({fexpr}, (iter.index@ + 1) as nat, {fexpr}@.len() as nat); }}'
        else:
            spec['body_end'] = f'proof {{ lemma_flat_{en}_step({fexpr}, (iter.index@ + 1) as nat); assert(writer@ =~= w0 + acc + flat_{en}({fexpr}, (iter.index@ + 1) as nat)); }}'
            after = f'proof {{ acc = acc + flat_{en}({fexpr}, {fexpr}@.len() as nat); assert(writer@ =~= w0 + acc); '
            if elem in (1, 2):
                after += f'lemma_flat_{en}_len({fexpr}, {fexpr}@.len() as nat); '
            spec['after'] = after + '}'
        loops[k] = spec
    rewrites = [(r'\bfor\s+(\w+)\s+in\s+', r'for \1 in iter: ')] if lh else []
    reveals = ''.join(f'reveal({f}); ' for f in reveal_set(t)) if not dispatcher else ''

    def cur_ranges(body):
        mask = code_mask(body)
        return [(b, match_close(mask, b)) for _, b in loop_headers(body)]

    def instrument(body):
        """after every top-level sink call / nested _write call outside loops: extend the ghost accumulator"""
        if fname != '_write' or dispatcher:
            return body
        if kind == 'enum' and not fixed_arm:
            # at the end of every arm: the bytes accumulated are the JVMS layout of this variant
            for (v, binds, has_this, ps, ob, cb) in sorted(arms_of_fn(body, t), key=lambda a: -a[5]):
                body = body[:cb] + f' proof {{ assert(acc =~= ser_{t}(*{SELF})); }} ' + body[cb:]
        pos = 0
        while True:
            mask = code_mask(body)
            m = re.compile(r'\bvw_write(?:_le)?\s*\(|(\(?&?\s*[\w.]+\)?)\s*\.\s*_write\s*\(\s*writer\s*\)').search(mask, pos)
            if not m:
                break
            in_loop = any(a < m.start() < b for a, b in cur_ranges(body))
            arm = get_arm(body, m.start())
            if m.group(1) is None:
                op = m.end() - 1
                cl = match_close(mask, op)
                arg = body[op + 1:cl].split(',', 1)[1].strip()
                arg = re.sub(r'\bthis\s*\.\s*_len\s*\(\s*\)', f'(ser_{t}(*{SELF}).len())', arg)
                if arm:
                    # the arm's bindings are references; spec expressions need the values
                    for b in arm[1]:
                        arg = re.sub(r'(?<![\w.*])' + re.escape(b) + r'(?![\w.(])', f'(*{b})', arg)
                piece = f'({arg}).be()' if 'vw_write_le' not in m.group(0) else f'rev(({arg}).be())'
                end = cl + 1
            else:
                recv = body[m.start(1):m.end(1)].strip()
                fm = re.fullmatch(r'\(?&?\s*(?:self\.)?(\w+)\)?', recv)
                if not fm:
                    raise CutError(f'{t}::_write: nested _write on unexpected receiver `{recv}`')
                end = m.end()
                if in_loop:
                    pos = end
                    continue
                ent = entry_for(t, arm[0] if arm else None, fm.group(1))
                if ent[0] != 'N':
                    raise CutError(f'{t}::_write: `{recv}._write` but the JVMS table has no nested structure there')
                val = f'self.{fm.group(1)}' if 'self.' in recv else f'*{fm.group(1)}'
                piece = f'ser_{ent[2]}({val})'
            # expect `?` `;` after the call
            mm = re.compile(r'\s*\?\s*;').match(mask, end)
            if not mm:
                raise CutError(f'{t}::_write: sink call not followed by `?;`')
            if not in_loop:
                ins = f' proof {{ acc = acc + {piece}; assert(writer@ =~= w0 + acc); }}'
                body = body[:mm.end()] + ins + body[mm.end():]
                pos = mm.end() + len(ins)
            else:
                pos = mm.end()
        return body

    sig_rw = [(r'writer\s*:\s*&mut\s+impl\s+std::io::Write', 'writer: &mut Vec<u8>'), (r'std::io::Result<\(\), VErr>', 'Result<(), VErr>')] if fname == '_write' and not synth else []
    requires = [f'wf_{t}(*{SELF})']
    if fixed_arm:
        requires.append(shape_eq(t, fixed_arm, SELF))
    dec = 'self' if t not in LIFT else (f'{SELF}, 0int' if fixed_arm else 'self, 1int')
    common = dict(requires=requires, decreases=dec, loops=loops, rewrites=rewrites, safety_props=['C20'])
    where = dict(synth=synth) if synth else dict(impl=re.escape(t), impl_which=impl_which, impl_header=f'impl {t}')
    key = key or f'{t}::{fname}'
    suffix = f'.{fixed_arm[0]}' if fixed_arm else ''
    # one module per function: Verus verifies modules in parallel (--num-threads)
    modname = f'vm_{t}{fname}{"_" + fixed_arm[0] if fixed_arm else ""}'
    u.open_block(f'pub mod {modname} {{ use super::*;')
    if fname == '_write':
        ens = [C(f'C20.{t}{suffix}._write.ok', 'res.is_ok()'),
               C(f'C20.{t}{suffix}._write.bytes-per-jvms', f'final(writer)@ == old(writer)@ + ser_{t}(*{SELF})')]
        pb = []
        if not dispatcher and (kind == 'struct' or fixed_arm):
            pb = [(r'^\s*Ok\(\(\)\)\s*$' if not fixed_arm else r'Ok\(\(\)\) \}\s*$', f'        proof {{ assert(acc =~= ser_{t}(*{SELF})); }}')]
        u.fn(EXP, key, ret='res', ensures=ens, sig_rewrites=sig_rw,
             transform=(lambda b: instrument(rewrite_sink(b, u))) if not dispatcher else dispatcher,
             head_proof=None if dispatcher else ('proof { ' + reveals + '} let ghost w0 = writer@; let ghost mut acc = Seq::<u8>::empty();'),
             proof_before=pb, canary=canary, proof_label=f'C20.{t}{suffix}._write.bytes-per-jvms', **common, **where)
    else:
        ens = [C(f'C20.{t}{suffix}._len.announced-length-is-bytes-written', f'r as int == ser_{t}(*{SELF}).len()')]
        u.fn(EXP, key, ret='r', ensures=ens, transform=dispatcher,
             head_proof=None if dispatcher else ('proof { ' + reveals + '}'), **common, **where)
    u.close_block()
    if fixed_arm:
        u.raw(f'pub use {modname}::*;')


TYPES = list(JVMS)


def build(u):
    u.preamble('common.rs')
    u.preamble('bytes.rs')
    u.preamble('c20.rs')
    u.src(SRC)
    u.src('raw_class_file/src/macros.rs')
    u.src(EXP, text=expand())
    u.drop('source run through `rustc -Zunpretty=expanded` so that the text verified is what notation! generates')
    for t, (kind, _, _) in JVMS.items():
        u.item(EXP, kind, t, derives=None)
    u.raw(gen_specs())
    for t in TYPES:
        # one module per type: Verus verifies modules in parallel (--num-threads)
        build_fn(u, t, '_len')
        build_fn(u, t, '_write', canary=(t == 'ExceptionTableEntry'))
