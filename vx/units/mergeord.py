"""mergeord -- the order preserving list merge of the client/server class merger (dukebox/src/merge.rs, fn `merge_preserve_order`): the routine
that decides which interfaces, fields and methods the merged class holds and in which order (merge_slice maps its result through the two
key tables; class_merger_merge uses it directly for the interfaces).

C13: "... contains every field, method and interface of either side exactly once ... and the relative order of members within each side
preserved whenever the two orders are compatible."  Contract, for ALL pairs of lists of any length:
  * union_once: every element of either list occurs in the result, the result holds nothing else, and duplicate-free inputs give a
    duplicate-free result (exactly once);
  * the client list is a subsequence of the result (client order is always preserved);
  * the server list is a subsequence of the result whenever both inputs are duplicate free and order compatible (no two shared
    elements occur in opposite orders);
  * the routine terminates (decreases on every loop; the outer loop needs "an iteration that pushed nothing leaves").

What the extraction changes (every rule is the definition of the std adaptor it removes, stated as an assumption):
  * `T: Clone + PartialEq` is instantiated at `Key = u64` (the routine uses nothing of T but `==`; derive(PartialEq) of the real key types
    is structural equality);
  * `Peekable<slice::Iter<T>>` -> mirror `PeekIter` (slice + position; peek / next verified against that model);
  * `while let Some(x) = it.next_if(|x| C) { B }` -> `loop { let x = match it.peek() { Some(x) => x, None => break }; if !(C) { break; } it.next(); B }`
    (core::iter::Peekable::next_if: take the next element iff the predicate accepts it, otherwise leave it peeked);
  * `o.is_some_and(|b| E)` -> `match o { Some(b) => E, None => false }`;
  * `s.contains(x)` -> `slice_contains(s, x)` (verified linear search with `ensures r == s@.contains(*x)`);
  * `r.extend(it)` / `r.extend(it.filter(|x| C))` -> `loop { let x = match it.next() {..}; [if C] { r.push(x); } }` (Extend for Vec pushes each item in turn);
  * the result is returned as the vector itself instead of `vec.into_iter()`.
Ghost state: for every consumed index of either list the position it was pushed to (or -1: a server element of the tail phase that the
client list holds), and for every result position the index it came from; `links` ties the three together and the six clauses follow by
`lemma_merged`."""
from vx.unit import C

PROPS = ['C13']
F = 'dukebox/src/merge.rs'

MIRROR = r'''
pub type Key = u64;
// TRUSTED MODEL of core::iter::Peekable<core::slice::Iter<'a, Key>>: a slice and the position of the next element
pub struct PeekIter<'a> { pub data: &'a [Key], pub pos: usize }
impl<'a> PeekIter<'a> {
    pub open spec fn wf(&self) -> bool { self.pos <= self.data@.len() }
    pub fn new(data: &'a [Key]) -> (r: Self) ensures r.data@ == data@, r.pos == 0, r.wf() { PeekIter { data, pos: 0 } }
    pub fn peek(&self) -> (r: Option<&'a Key>) requires self.wf()
        ensures r == (if self.pos < self.data@.len() { Some(&self.data@[self.pos as int]) } else { None::<&Key> })
    { if self.pos < self.data.len() { Some(&self.data[self.pos]) } else { None } }
    pub fn next(&mut self) -> (r: Option<&'a Key>) requires old(self).wf()
        ensures final(self).wf(), final(self).data == old(self).data,
            r == (if old(self).pos < old(self).data@.len() { Some(&old(self).data@[old(self).pos as int]) } else { None::<&Key> }),
            final(self).pos == (if old(self).pos < old(self).data@.len() { old(self).pos + 1 } else { old(self).pos as int }),
    { if self.pos < self.data.len() { let x = &self.data[self.pos]; self.pos = self.pos + 1; Some(x) } else { None } }
}
pub fn slice_contains(s: &[Key], x: &Key) -> (r: bool) ensures r == s@.contains(*x)
{
    let mut i = 0;
    while i < s.len() invariant i <= s.len(), forall|k: int| 0 <= k < i ==> s@[k] != *x, decreases s.len() - i
    { if s[i] == *x { return true; } i += 1; }
    false
}
pub open spec fn vals(r: Seq<&Key>) -> Seq<Key> { Seq::new(r.len(), |i: int| *r[i]) }

// ---- the property's vocabulary
pub open spec fn embeds(f: Seq<int>, s: Seq<Key>, r: Seq<Key>) -> bool {
    f.len() == s.len() && (forall|k: int| 0 <= k < s.len() ==> 0 <= #[trigger] f[k] < r.len() && r[f[k]] == s[k])
    && (forall|k1: int, k2: int| 0 <= k1 < k2 < s.len() ==> f[k1] < f[k2])
}
// s is a subsequence of r: the elements of s occur in r in the order of s
pub open spec fn subseq(s: Seq<Key>, r: Seq<Key>) -> bool { exists|f: Seq<int>| embeds(f, s, r) }
pub open spec fn union_once(a: Seq<Key>, b: Seq<Key>, r: Seq<Key>) -> bool {
    (forall|k: int| 0 <= k < a.len() ==> r.contains(#[trigger] a[k]))
    && (forall|m: int| 0 <= m < b.len() ==> r.contains(#[trigger] b[m]))
    && (forall|p: int| 0 <= p < r.len() ==> a.contains(#[trigger] r[p]) || b.contains(r[p]))
    && (a.no_duplicates() && b.no_duplicates() ==> r.no_duplicates())
}
// the two orders are compatible: no two shared elements occur in opposite orders
pub open spec fn compat(a: Seq<Key>, b: Seq<Key>) -> bool {
    forall|k1: int, k2: int, m1: int, m2: int| 0 <= k1 < k2 < a.len() && 0 <= m1 < b.len() && 0 <= m2 < b.len() && a[k1] == b[m1] && a[k2] == b[m2] ==> m1 < m2
}
pub open spec fn hyp(a: Seq<Key>, b: Seq<Key>) -> bool { a.no_duplicates() && b.no_duplicates() && compat(a, b) }

// ---- ghost bookkeeping
pub open spec fn links(a: Seq<Key>, b: Seq<Key>, r: Seq<Key>, i: int, j: int, ia: Seq<int>, ib: Seq<int>, orig: Seq<int>) -> bool {
  0 <= i <= a.len() && 0 <= j <= b.len() && ia.len() == i && ib.len() == j && orig.len() == r.len()
  && (forall|k:int| 0<=k<i ==> 0 <= #[trigger] ia[k] < r.len() && r[ia[k]] == a[k])
  && (forall|k1:int,k2:int| 0<=k1<k2<i ==> ia[k1] < ia[k2])
  && (forall|m:int| 0<=m<j ==> -1 <= #[trigger] ib[m] < r.len() && (ib[m] >= 0 ==> r[ib[m]] == b[m]) && (ib[m] == -1 ==> a.contains(b[m])))
  && (forall|m1:int,m2:int| 0<=m1<m2<j && ib[m1]>=0 && ib[m2] >= 0 ==> ib[m1] < ib[m2])
  && (forall|p:int| 0<=p<r.len() ==> (0 <= #[trigger] orig[p] < i && ia[orig[p]] == p) || (-j <= orig[p] < 0 && ib[-1-orig[p]] == p && !a.contains(b[-1-orig[p]])))
}
pub open spec fn sync(a: Seq<Key>, b: Seq<Key>, i: int, j: int) -> bool {
    (forall|m: int, k: int| 0 <= m < j && 0 <= k < a.len() && a[k] == b[m] ==> k < i)
    && (forall|k: int, m: int| 0 <= k < i && 0 <= m < b.len() && a[k] == b[m] ==> m < j)
}
pub open spec fn bfull(ib: Seq<int>) -> bool { forall|m: int| 0 <= m < ib.len() ==> ib[m] >= 0 }
pub open spec fn st(a: Seq<Key>, b: Seq<Key>, i: int, j: int, ib: Seq<int>) -> bool { bfull(ib) && (hyp(a, b) ==> sync(a, b, i, j)) }
'''

LEMMA = r'''
pub proof fn lemma_merged(a: Seq<Key>, b: Seq<Key>, r: Seq<Key>, ia: Seq<int>, ib: Seq<int>, orig: Seq<int>)
    requires links(a, b, r, a.len() as int, b.len() as int, ia, ib, orig), hyp(a, b) ==> bfull(ib),
    ensures union_once(a, b, r), subseq(a, r), hyp(a, b) ==> subseq(b, r),
{
    assert(embeds(ia, a, r));
    if hyp(a, b) { assert(embeds(ib, b, r)); }
    assert forall|k: int| 0 <= k < a.len() implies r.contains(#[trigger] a[k]) by { assert(r[ia[k]] == a[k]); }
    assert forall|m: int| 0 <= m < b.len() implies r.contains(#[trigger] b[m]) by {
        if ib[m] >= 0 { assert(r[ib[m]] == b[m]); } else {
            let k = choose|k: int| 0 <= k < a.len() && a[k] == b[m];
            assert(r[ia[k]] == a[k]);
        }
    }
    assert forall|p: int| 0 <= p < r.len() implies a.contains(#[trigger] r[p]) || b.contains(r[p]) by {
        if orig[p] >= 0 { assert(a[orig[p]] == r[p]); } else { assert(b[-1 - orig[p]] == r[p]); }
    }
    if a.no_duplicates() && b.no_duplicates() {
        assert forall|p: int, q: int| 0 <= p < r.len() && 0 <= q < r.len() && p != q implies r[p] != r[q] by {
            if r[p] == r[q] {
                if orig[p] >= 0 && orig[q] >= 0 { assert(a[orig[p]] == a[orig[q]]); }
                else if orig[p] < 0 && orig[q] < 0 { assert(b[-1 - orig[p]] == b[-1 - orig[q]]); }
                else if orig[p] >= 0 { assert(a[orig[p]] == r[q]); assert(b[-1 - orig[q]] == r[q]); }
                else { assert(a[orig[q]] == r[p]); assert(b[-1 - orig[p]] == r[p]); }
            }
        }
    }
}
'''

BASE = 'ai.wf() && bi.wf() && ai.data@ == a@ && bi.data@ == b@'
LINKS = 'links(a@, b@, vals(r@), ai.pos as int, bi.pos as int, ia, ib, orig)'
ST = 'st(a@, b@, ai.pos as int, bi.pos as int, ib)'


ROLES = {
    # role -> (decreases, fact that holds when the loop is left, ghost update after a pushed element)
    'shared': ('a@.len() - ai.pos', '!(ai.pos < a@.len() && bi.pos < b@.len() && a@[ai.pos as int] == b@[bi.pos as int])',
               'proof { ia = ia.push(r@.len() - 1); ib = ib.push(r@.len() - 1); orig = orig.push(ai.pos - 1); }'),
    'client-only': ('a@.len() - ai.pos', '!(ai.pos < a@.len() && !b@.contains(a@[ai.pos as int]))',
                    'proof { ia = ia.push(r@.len() - 1); orig = orig.push(ai.pos - 1); }'),
    'server-only': ('b@.len() - bi.pos', '!(bi.pos < b@.len() && !a@.contains(b@[bi.pos as int]))',
                    'proof { ib = ib.push(r@.len() - 1); orig = orig.push(-(bi.pos as int)); }'),
}


def roles_in_source_order(u):
    """the three consuming loops of one round may stand in any order (each order satisfies the property): the invariants are attached by what
    a loop consumes, not by its position"""
    import re
    from vx.rustcut import CutError
    text = u.src(F).text
    m = re.search(r'fn merge_preserve_order\b.*?\n}\n', text, re.S)
    if not m:
        raise CutError(f'{F}: fn merge_preserve_order not found')
    roles = []
    for it, cond in re.findall(r'while let Some\(\w+\) = (\w+)\.next_if\(\|\w+\| (.*)\) \{', m.group(0)):
        if it == 'ai' and re.fullmatch(r'bi\.peek\(\)\.is_some_and\(\|(\w+)\| \1 == x\)', cond):
            roles.append('shared')
        elif it == 'ai' and cond == '!b.contains(x)':
            roles.append('client-only')
        elif it == 'bi' and cond == '!a.contains(x)':
            roles.append('server-only')
        elif it == 'ai' and 'peek()' not in cond:
            roles.append('client-only')     # an unfamiliar condition: the verifier decides whether the loop still does what its place requires
        elif it == 'bi' and 'peek()' not in cond:
            roles.append('server-only')
        else:
            raise CutError(f'{F}: fn merge_preserve_order: consuming loop `{it}.next_if(|x| {cond})` is none of the three loops the contract knows')
    if sorted(roles) != ['client-only', 'server-only', 'shared']:
        raise CutError(f'{F}: fn merge_preserve_order: expected one loop of each kind, found {roles}')
    return roles


def inner(k, role, last):
    """invariants of the k-th consuming loop of one round (k = 1..3)"""
    dec, brk, upd = ROLES[role]
    nc = 'true' if k == 1 else f'nc{k - 1}'
    d = dict(
        invariant=[C(f'C13.order.{role}.bookkeeping', f'{BASE} && {LINKS} && {ST}'),
                   C(f'C13.order.{role}.progress', f'ai.pos >= i0 && bi.pos >= j0 && (no_change ==> ai.pos == i0 && bi.pos == j0) && (!no_change ==> ai.pos + bi.pos > i0 + j0) && (no_change ==> {nc})')],
        ensures=[C(f'C13.order.{role}.left-because-the-condition-failed', brk)],
        decreases=dec, body_end=upd)
    if not last:
        d['after'] = f'let ghost nc{k} = no_change;'
    return d


def build(u):
    u.preamble('common.rs')
    u.raw(MIRROR, trusted=['PeekIter models core::iter::Peekable<core::slice::Iter<T>> (peek, next); next_if / is_some_and / Vec::extend / Iterator::filter / slice::contains '
                           'are replaced by their std definitions; T instantiated at u64 (parametricity in T: only == is used)'])
    u.lemma('C13.lemma.bookkeeping-gives-union-once-and-both-orders', LEMMA)
    roles = roles_in_source_order(u)
    u.fn(F, 'merge_preserve_order', ret='r', canary=True,
         sig_rewrites=[(r"<'a, T: Clone \+ PartialEq>", "<'a>"), (r"std::vec::IntoIter<&'a T>", "Vec<&'a Key>"), (r'\[T\]', '[Key]')],
         rewrites=[
             (r'(\w+)\.iter\(\)\.peekable\(\)', r'PeekIter::new(\1)'),
             (r'let mut r = Vec::', "let mut r: Vec<&'a Key> = Vec::"),
             (r'while let Some\((\w+)\) = (\w+)\.next_if\(\|(\w+)\| (.*)\) \{',
              r'loop { let \1 = match \2.peek() { Some(\3) => \3, None => break }; if !(\4) { break; } \2.next();'),
             (r'(\w+)\.peek\(\)\.is_some_and\(\|(\w+)\| ([^()|]*)\)', r'(match \1.peek() { Some(\2) => \3, None => false })'),
             (r'r\.extend\((\w+)\);', r'loop { let x = match \1.next() { Some(x) => x, None => break }; r.push(x); }'),
             (r'r\.extend\((\w+)\.filter\(\|(\w+)\| (.*)\)\);', r'loop { let \2 = match \1.next() { Some(x) => x, None => break }; if \3 { r.push(\2); } }'),
             (r'\b([ab])\.contains\((\w+)\)', r'slice_contains(\1, \2)'),
             (r'r\.into_iter\(\)', 'r'),
         ],
         requires=['a@.len() + b@.len() <= usize::MAX'],
         head_proof='let ghost mut ia: Seq<int> = Seq::empty(); let ghost mut ib: Seq<int> = Seq::empty(); let ghost mut orig: Seq<int> = Seq::empty();',
         loops={
             0: dict(invariant=[C('C13.order.round.bookkeeping', f'{BASE} && {LINKS} && {ST}')],
                     ensures=[C('C13.order.round.compatible-orders-consume-the-whole-server-list',
                                f'{BASE} && {LINKS} && bfull(ib) && (hyp(a@, b@) ==> bi.pos == b@.len())')],
                     decreases='(a@.len() - ai.pos) + (b@.len() - bi.pos)',
                     body_start='let ghost i0 = ai.pos; let ghost j0 = bi.pos;'),
             1: inner(1, roles[0], False), 2: inner(2, roles[1], False), 3: inner(3, roles[2], True),
             4: dict(invariant=[C('C13.order.tail-client.bookkeeping', f'{BASE} && {LINKS} && bfull(ib) && (hyp(a@, b@) ==> bi.pos == b@.len())')],
                     ensures=[C('C13.order.tail-client.consumes-the-client-list', f'ai.pos == a@.len() && {BASE} && {LINKS}')],
                     decreases='a@.len() - ai.pos',
                     body_end='proof { ia = ia.push(r@.len() - 1); orig = orig.push(ai.pos - 1); }'),
             5: dict(invariant=[C('C13.order.tail-server.bookkeeping', f'{BASE} && ai.pos == a@.len() && {LINKS} && (hyp(a@, b@) ==> bfull(ib) && bi.pos == b@.len())')],
                     ensures=[C('C13.order.tail-server.consumes-the-server-list', f'bi.pos == b@.len() && ai.pos == a@.len() && {LINKS} && (hyp(a@, b@) ==> bfull(ib))')],
                     decreases='b@.len() - bi.pos',
                     body_start='let ghost n0 = r@.len();',
                     body_end='proof { if r@.len() > n0 { ib = ib.push(n0 as int); orig = orig.push(-(bi.pos as int)); } else { ib = ib.push(-1); } }'),
         },
         proof_before=[(r'^\tr$', '    proof { lemma_merged(a@, b@, vals(r@), ia, ib, orig); }')],
         ensures=[C('C13.order.every-element-of-either-side-exactly-once-and-nothing-else', 'union_once(a@, b@, vals(r@))'),
                  C('C13.order.client-order-preserved', 'subseq(a@, vals(r@))'),
                  C('C13.order.server-order-preserved-when-the-orders-are-compatible', 'hyp(a@, b@) ==> subseq(b@, vals(r@))')])
