"""shared builder: the real `trait ClassRead` of duke/src/lib.rs with contracts.
Default methods (read_uN/read_iN/read_*_as_usize/with_pos) are verified; the five required methods
(marker, skip, goto, read_n, read_u8_vec) carry *assumed* contracts that describe std::io::Cursor."""
from vx.unit import C

LIB = 'duke/src/lib.rs'
TR = ('trait', 'ClassRead')

P0 = 'old(self).pos()'
D0 = 'old(self).data()'
KEEP = 'final(self).data() == old(self).data()'

VAL = dict(u8='v == {s}[0]', u16='v as int == val16({s})', u32='v as int == val32({s})', u64='v as int == val64({s})',
           i8='v as int == sval8({s})', i16='v as int == sval16({s})', i32='v as int == sval32({s})', i64='v as int == sval64({s})')
SIZE = dict(u8=1, u16=2, u32=4, u64=8, i8=1, i16=2, i32=4, i64=8)


def add_classread(u, props, types=('u8', 'u16', 'u32', 'u64', 'i8', 'i16', 'i32', 'i64'), with_pos=True):
    u.open_block('pub trait ClassRead {\n    // ghost view of the source (added; spec only): the bytes and the current position\n'
                 '    spec fn data(&self) -> Seq<u8>;\n    spec fn pos(&self) -> int;')
    u.fn(LIB, 'ClassRead::marker', container=TR, ret='res', no_body=True, props=props,
         ensures=[C('assumed.cr.marker', f'res matches Ok(p) ==> p as int == {P0}'),
                  C('assumed.cr.marker.frame', f'final(self).pos() == {P0} && {KEEP}'),
                  C('assumed.cr.marker.ok', f'{P0} <= u64::MAX ==> res.is_ok()')])
    u.fn(LIB, 'ClassRead::skip', container=TR, ret='res', no_body=True, props=props,
         ensures=[C('assumed.cr.skip.ok', f'res.is_ok() <==> 0 <= {P0} + n <= u64::MAX'),
                  C('assumed.cr.skip.moves', f'res.is_ok() ==> final(self).pos() == {P0} + n'),
                  C('assumed.cr.skip.frame', KEEP)])
    u.fn(LIB, 'ClassRead::goto', container=TR, ret='res', no_body=True, props=props,
         ensures=[C('assumed.cr.goto', f'res.is_ok() && final(self).pos() == pos as int && {KEEP}')])
    if with_pos:
        u.fn(LIB, 'ClassRead::with_pos', container=TR, ret='res', props=props,
             requires=['forall|s: &mut Self| f.requires((s,))', f'0 <= {P0} <= u64::MAX'],
             ensures=[C('C17.with_pos.restores-position', f'res.is_ok() ==> final(self).pos() == {P0}')])
    u.fn(LIB, 'ClassRead::read_n', container=TR, ret='res', no_body=True, props=props,
         ensures=[C('assumed.cr.read_n.frame', KEEP),
                  C('assumed.cr.read_n.ok', f'res matches Ok(a) ==> 0 <= {P0} && {P0} + N <= {D0}.len() && a@ == {D0}.subrange({P0}, {P0} + N) && final(self).pos() == {P0} + N'),
                  C('assumed.cr.read_n.ok-iff', f'res.is_ok() <==> (0 <= {P0} && {P0} + N <= {D0}.len())')])
    for ty in types:
        n = SIZE[ty]
        s = f'{D0}.subrange({P0}, {P0} + {n})'
        u.fn(LIB, f'ClassRead::read_{ty}', container=TR, ret='res', props=props,
             rewrites=[(rf'\b{ty}::from_be_bytes\(', f'from_be_bytes_{ty}(')],
             ensures=[C(f'cr.read_{ty}.ok-iff-available', f'res.is_ok() <==> (0 <= {P0} && {P0} + {n} <= {D0}.len())'),
                      C(f'cr.read_{ty}.big-endian-value', 'res matches Ok(v) ==> ' + VAL[ty].format(s=s)),
                      C(f'cr.read_{ty}.advances', f'res.is_ok() ==> final(self).pos() == {P0} + {n}'),
                      C(f'cr.read_{ty}.frame', KEEP)])
    for ty in ('u8', 'u16', 'u32'):
        if ty not in types:
            continue
        n = SIZE[ty]
        s = f'{D0}.subrange({P0}, {P0} + {n})'
        val = {'u8': f'v as int == {s}[0] as int', 'u16': f'v as int == val16({s})', 'u32': f'v as int == val32({s})'}[ty]
        u.fn(LIB, f'ClassRead::read_{ty}_as_usize', container=TR, ret='res', props=props,
             ensures=[C(f'cr.read_{ty}_as_usize.ok-iff-available', f'res.is_ok() <==> (0 <= {P0} && {P0} + {n} <= {D0}.len())'),
                      C(f'cr.read_{ty}_as_usize.value', f'res matches Ok(v) ==> {val}'),
                      C(f'cr.read_{ty}_as_usize.advances', f'res.is_ok() ==> final(self).pos() == {P0} + {n}'),
                      C(f'cr.read_{ty}_as_usize.frame', KEEP)])
    u.fn(LIB, 'ClassRead::read_u8_vec', container=TR, ret='res', no_body=True, props=props,
         ensures=[C('assumed.cr.read_u8_vec.frame', KEEP),
                  C('assumed.cr.read_u8_vec.ok', f'res matches Ok(v) ==> 0 <= {P0} && {P0} + size <= {D0}.len() && v@ == {D0}.subrange({P0}, {P0} + size) && final(self).pos() == {P0} + size'),
                  C('assumed.cr.read_u8_vec.ok-iff', f'res.is_ok() <==> (0 <= {P0} && {P0} + size <= {D0}.len())')])
    u.close_block()
    u.trusted.append('trait-level contracts of ClassRead::{marker,skip,goto,read_n,read_u8_vec} describe std::io::Cursor<bytes> under the blanket `impl<T: Read + Seek> ClassRead for T` (read_exact fails iff fewer than N bytes remain and otherwise returns exactly those bytes; seek(Current(n)) fails iff the position would be negative; seeking past the end is allowed); the blanket impl itself is not verified')
