"""Unit builder: assembles one Verus file from /repo's current working tree.

A unit = preamble files + raw (hand written, spec-only or trusted) text + items cut
from /repo with contracts spliced in.  See DESIGN.md 2.1.
"""
import os
import re
import json
import subprocess
import time
import hashlib

from .rustcut import Source, CutError, code_mask, match_close, replace_macro_calls, remove_method_calls, loop_headers

REPO = os.environ.get('VERIF_REPO', '/repo')
HERE = os.path.dirname(os.path.abspath(__file__))


class Clause:
    """one labelled contract clause"""

    def __init__(self, label, text, props=None):
        self.label = label
        self.text = text.strip().rstrip(',')
        self.props = props  # None => props of the function


def C(label, text, props=None):
    return Clause(label, text, props)


class FnSpec:
    def __init__(self, key, file, name, **kw):
        self.key = key            # e.g. Labels::create
        self.file = file
        self.name = name
        self.kw = kw


class Unit:
    def __init__(self, name, props, doc=''):
        self.name = name
        self.props = list(props)
        self.doc = doc
        self.segments = []        # (text, origin) origin = None | dict(file,line,fn)
        self.fns = {}             # key -> dict(info)
        self.drops = {}           # rewrite name -> count
        self.trusted = []         # declared trusted items (strings)
        self.sources = {}
        self.canaries = []
        self.clauses = {}         # label -> dict(fn, kind, text, props)
        self.errors = []          # extraction problems (=> UNDECIDED)
        self.blob = {}            # repo file -> sha1 of contents

    # ------------------------------------------------------------------ sources
    def src(self, relpath, text=None):
        if relpath not in self.sources:
            p = os.path.join(REPO, relpath)
            if text is None:
                try:
                    with open(p, encoding='utf-8') as f:
                        text = f.read()
                except OSError as e:
                    raise CutError(f'cannot read {p}: {e}')
            self.sources[relpath] = Source(relpath, text)
            self.blob[relpath] = hashlib.sha1(text.encode()).hexdigest()
        return self.sources[relpath]

    def drop(self, what, n=1):
        if n:
            self.drops[what] = self.drops.get(what, 0) + n

    # ------------------------------------------------------------------ emission
    def raw(self, text, trusted=None):
        """hand-written Verus text (spec functions, lemmas, assumed specs)."""
        self.segments.append((text.rstrip('\n') + '\n', None))
        if trusted:
            self.trusted.extend(trusted)

    def preamble(self, fname):
        with open(os.path.join(HERE, 'preamble', fname), encoding='utf-8') as f:
            t = f.read()
        # a preamble declares its trusted items in lines  `// TRUSTED: text`
        tr = re.findall(r'^// TRUSTED: (.*)$', t, re.M)
        self.raw(t, trusted=tr)

    # ------------------------------------------------------------------ rewrites
    def common_rewrites(self, text, ctx_ok_or=(), keep_ctx=False, ctx_sites=()):
        """the fixed list of DESIGN 2.1; every rule preserves the number of newlines."""
        text, n = replace_macro_calls(text, 'bail', 'return Err(VErr)')
        self.drop('bail!(..) -> return Err(VErr)', n)
        text, n = replace_macro_calls(text, 'anyhow', 'VErr')
        self.drop('anyhow!(..) -> VErr', n)
        # .with_context(|| ..) / .context(..): on Option -> ok_or(VErr) for listed sites, else removed
        for meth in ('with_context', 'context'):
            cnt = [0]

            def repl(inner, meth=meth):
                cnt[0] += 1
                return ''
            sites = [(x, '.ok_or(VErr)') for x in ctx_ok_or] + list(ctx_sites)
            if sites:
                # per-site: sites are identified by the text preceding the call (regex)
                for site_re, site_rep in sites:
                    pat = re.compile(r'(' + site_re + r')\s*\.\s*' + meth + r'\s*\(')
                    while True:
                        mask = code_mask(text)
                        m = pat.search(mask)
                        if not m:
                            break
                        op = m.end() - 1
                        cl = match_close(mask, op)
                        nl = '\n' * text[m.end(1):cl + 1].count('\n')
                        text = text[:m.end(1)] + site_rep + nl + text[cl + 1:]
                        self.drop('.' + meth + '(..) -> ' + site_rep)
            text = self._context_by_callee(text, meth)
        # Result<T> -> Result<T, VErr>
        def fix_result(t):
            out = []
            i = 0
            mask = code_mask(t)
            for m in re.finditer(r'\bResult<', mask):
                pass
            pos = 0
            res = ''
            while True:
                mask = code_mask(t)
                m = re.compile(r'\bResult<').search(mask, pos)
                if not m:
                    break
                # find matching '>'
                depth, j = 0, m.end() - 1
                top_comma = False
                while j < len(mask):
                    ch = mask[j]
                    if ch == '<':
                        depth += 1
                    elif ch == '>' and mask[j - 1] != '-':
                        depth -= 1
                        if depth == 0:
                            break
                    elif ch == ',' and depth == 1:
                        top_comma = True
                    elif ch in '([':
                        j = match_close(mask, j)
                    j += 1
                if not top_comma:
                    t = t[:j] + ', VErr' + t[j:]
                    self.drop('Result<T> -> Result<T, VErr>')
                pos = m.end()
            return t
        text = fix_result(text)
        n = len(re.findall(r'\bpub\s*\(\s*(?:crate|super)\s*\)', text))
        text = re.sub(r'\bpub\s*\(\s*(?:crate|super)\s*\)', 'pub', text)
        self.drop('pub(crate) -> pub', n)
        return text

    OPTION_METHODS = {'checked_add', 'checked_sub', 'checked_mul', 'checked_add_signed', 'checked_sub_unsigned', 'get', 'get_mut',
                      'first', 'last', 'pop', 'next', 'copied', 'cloned', 'take', 'remove', 'as_ref', 'as_deref', 'ok'}
    FOREIGN_RESULT_METHODS = {'try_from', 'try_into'}

    def _context_by_callee(self, text, meth):
        """`.context(..)`/`.with_context(..)`: decided by the name of the call it is applied to:
        Option-returning std method -> `.ok_or(VErr)`; try_from/try_into (foreign error type) -> `.ok().ok_or(VErr)`;
        anything else is taken to be an anyhow::Result and the call is removed."""
        pos = 0
        pat = re.compile(r'\s*\.\s*' + meth + r'\s*\(')
        while True:
            mask = code_mask(text)
            m = pat.search(mask, pos)
            if not m:
                return text
            op = m.end() - 1
            cl = match_close(mask, op)
            # callee name of the receiver expression
            j = m.start() - 1
            while j >= 0 and mask[j] in ' \t\n':
                j -= 1
            callee = None
            if j >= 0 and mask[j] == ')':
                depth, k = 0, j
                while k >= 0:
                    if mask[k] == ')':
                        depth += 1
                    elif mask[k] == '(':
                        depth -= 1
                        if depth == 0:
                            break
                    k -= 1
                mm = re.search(r'([A-Za-z_][A-Za-z0-9_]*)\s*(?:::<[^()]*>)?\s*$', mask[:k])
                callee = mm.group(1) if mm else None
            if callee in self.OPTION_METHODS:
                rep = '.ok_or(VErr)'
                self.drop(f'Option.{meth}(..) -> .ok_or(VErr)  [receiver ends in .{callee}(..)]')
            elif callee in self.FOREIGN_RESULT_METHODS:
                rep = '.ok().ok_or(VErr)'
                self.drop(f'{callee}(..).{meth}(..) -> .ok().ok_or(VErr)')
            else:
                rep = ''
                self.drop('Result.' + meth + '(..) removed')
            rep = rep + '\n' * text[m.start():cl + 1].count('\n')
            text = text[:m.start()] + rep + text[cl + 1:]
            pos = m.start() + len(rep)

    # ------------------------------------------------------------------ items
    def item(self, relpath, kind, name, which=0, derives=None, pub_fields=True, rewrites=(), strip_docs=True, within=None):
        """cut a struct/enum (kind) verbatim; derive lists trimmed to `derives`."""
        s = self.src(relpath)
        it = s.cut_item(kind, name, which=which, within=within)
        text = it['text']
        if derives is not None:
            def fix(m):
                return '#[derive(' + ', '.join(derives) + ')]' if derives else ''
            text, n = re.subn(r'#\[derive\([^\]]*\)\]', fix, text)
            self.drop('#[derive(..)] trimmed to Verus-accepted traits', n)
        text = self.common_rewrites(text)
        if pub_fields and kind == 'struct':
            # make every field pub:  lines of the form  `\tname: Type,`
            def pf(m):
                return m.group(1) + 'pub ' + m.group(2)
            hdr_end = text.find('{')
            body = text[hdr_end:]
            body, n = re.subn(r'(^\s*)((?!pub\b)[a-z_][a-zA-Z0-9_]*\s*:)', pf, body, flags=re.M)
            self.drop('private field -> pub', n)
            text = text[:hdr_end] + body
        if not re.search(r'^\s*pub\s+(struct|enum)\b', text, re.M):
            text = re.sub(r'^(\s*)(struct|enum)\b', r'\1pub \2', text, count=1, flags=re.M)
        for pat, rep in rewrites:
            text, n = re.subn(pat, rep, text)
            if n == 0:
                raise CutError(f'{relpath}: item {name}: rewrite /{pat}/ no longer matches')
            self.drop(f'item {name}: /{pat}/ -> {rep!r}', n)
        self.segments.append((f'// <<< {relpath}:{it["start_line"]} {kind} {name}\n', None))
        self.segments.append((text + '\n', dict(file=relpath, line=it['start_line'], fn=None)))
        return it

    def const(self, relpath, name, within=None):
        s = self.src(relpath)
        it = s.cut_const(name, within=within)
        text = self.common_rewrites(it['text'])
        if not text.lstrip().startswith('pub'):
            text = 'pub ' + text
        self.segments.append((text + '\n', dict(file=relpath, line=it['start_line'], fn=None)))

    def fn(self, relpath, key, *, impl=None, impl_header=None, inside_fn=None, ret=None,
           requires=(), ensures=(), loops=None, decreases=None, proof_before=(), rewrites=(),
           ctx_ok_or=(), external_body=False, props=None, safety_props=None, which=0,
           canary=False, rename=None, mode_exec=True, opens_invariants=None, no_unwind=False,
           sig_rewrites=(), header_attrs=(), assume_termination=False, container=None, bare=False,
           no_body=False, ctx_sites=(), impl_which=0, synth=None, tail_proof=None, proof_label=None, transform=None, head_proof=None, opt_rewrites=(), asserts=(), trait_impl=False, drop_body=False, opt_sig_rewrites=()):
        """cut a function from /repo and splice a contract in.

        key: 'Type::name' or 'name'.  impl: regex of the impl header type (default = Type from key).
        inside_fn: the fn is nested in this outer fn (cut out of its body).
        loops: {k: dict(invariant=[C..], decreases='..', ensures=[..])} for the k-th loop of the body.
        proof_before: [(regex, text)] insert `text` on its own line before the first code line matching regex.
        rewrites: [(regex, repl)] documented per-function rewrites (must each match, else UNDECIDED).
        """
        props = list(props) if props is not None else list(self.props)
        s = self.src(relpath)
        name = key.split('::')[-1]
        within = None
        ty = None
        if synth:
            bare = True
        elif container:
            r = s.cut_item(container[0], container[1])
            within = (r['open'] + 1, r['close'])
            bare = True
        elif '::' in key:
            ty = key.split('::')[0]
            r = s.cut_item('impl', impl or re.escape(ty), which=impl_which)
            within = (r['open'] + 1, r['close'])
            if impl_header is None:
                impl_header = re.sub(r'\s+', ' ', r['header']).strip()
        if bare:
            ty = None
        if inside_fn:
            outer = s.cut_fn(inside_fn, within=within)
            within = (outer['open'] + 1, outer['close'])
        if synth:
            # a function synthesised around a region cut from the source (e.g. one match arm): synth = dict(sig, body, line)
            f = dict(sig=synth['sig'], body=synth['body'], start_line=synth['line'], end_line=synth['line'] + synth['body'].count('\n'))
            sig, body = f['sig'], f['body']
            sig_start_line = body_start_line = synth['line']
            name = re.search(r'\bfn\s+(\w+)', sig).group(1)
        else:
            f = s.cut_decl(name, within=within) if no_body else s.cut_fn(name, within=within, which=which)
            sig, body = f['sig'], f['body']
            sig_start_line = f['start_line']
            body_start_line = s.line_of(f['open'])

        # ---- signature
        sig = self.common_rewrites(sig)
        sig = re.sub(r'^\s*', '', sig)
        if rename:
            sig = re.sub(r'\bfn\s+' + re.escape(name) + r'\b', 'fn ' + rename, sig, count=1)
        for pat, rep in sig_rewrites:
            sig, n = re.subn(pat, rep, sig)
            if n == 0:
                raise CutError(f'{relpath}: fn {key}: signature rewrite /{pat}/ no longer matches')
            self.drop(f'fn {key} signature: /{pat}/ -> {rep!r}', n)
        for pat, rep in opt_sig_rewrites:
            sig, n = re.subn(pat, rep, sig)
            self.drop(f'fn {key} signature: /{pat}/ -> {rep!r}', n)
        if not sig.startswith('pub') and not container and not trait_impl:
            sig = 'pub ' + sig
        sig = self._name_return(sig, ret)

        # ---- body
        if drop_body:
            # an assumed contract on a function whose body is outside the subset even for the type checker: the body is not emitted at all
            body = '{' + '\n' * body.count('\n') + ' unimplemented!() }'
            external_body = True
            self.drop(f'fn {key}: body not emitted (external_body with an assumed contract)')
        body = self.common_rewrites(body, ctx_ok_or=ctx_ok_or, ctx_sites=ctx_sites)
        for pat, rep in rewrites:
            body, n = re.subn(pat, rep, body)
            if n == 0:
                raise CutError(f'{relpath}: fn {key}: rewrite /{pat}/ no longer matches')
            self.drop(f'fn {key}: /{pat}/ -> ' + (repr(rep) if isinstance(rep, str) else (rep.__doc__ or '<computed>')), n)
        for pat, rep in opt_rewrites:
            body, n = re.subn(pat, rep, body)
            self.drop(f'fn {key}: /{pat}/ -> ' + (repr(rep) if isinstance(rep, str) else '<computed>'), n)
        if re.search(r'\blet\s+\[', code_mask(body)):
            body = self._desugar_array_let(body)
        if transform:
            nl = body.count('\n')
            body = transform(body)
            if body.count('\n') != nl:
                raise ValueError('transform must keep the number of newlines')

        # ---- contract text
        fnkey = key
        info = dict(file=relpath, start_line=sig_start_line, end_line=f['end_line'], props=props,
                    safety_props=list(safety_props) if safety_props is not None else (sorted(set(props + ['C16'])) if props else []),
                    clauses=[], external_body=(external_body or no_body), loops=0, name=rename or name, proof_label=proof_label)
        self.fns[fnkey] = info

        def reg(kind, c):
            p = c.props if c.props is not None else props
            if c.label in self.clauses:
                raise ValueError('duplicate clause label ' + c.label)
            self.clauses[c.label] = dict(fn=fnkey, kind=kind, text=c.text, props=list(p))
            info['clauses'].append(c.label)
            return f'        {c.text},   // [{c.label}]\n'

        contract = ''
        if requires:
            contract += '    requires\n' + ''.join(f'        {r.strip().rstrip(",")},\n' for r in requires)
        if ensures:
            contract += '    ensures\n' + ''.join(reg('post', c) for c in ensures)
        if opens_invariants:
            contract += f'    opens_invariants {opens_invariants}\n'
        if decreases:
            contract += f'    decreases {decreases}\n'
        if no_unwind:
            contract += '    no_unwind\n'

        # ---- loops
        segs = []  # (text, origin_line or None)
        inserts = []  # (offset in body, text)
        lh = loop_headers(body)
        info['loops'] = len(lh)
        loops = loops or {}
        resolved = {}
        for k, spec in loops.items():
            if isinstance(k, str):
                # a loop addressed by the text of its header (regex) instead of its ordinal; a leading `?` makes it optional
                optional = k.startswith('?')
                k = k[1:] if optional else k
                hits = [i for i, (a, b) in enumerate(lh) if re.search(k, body[a:b])]
                if optional and not hits:
                    continue
                if len(hits) != 1:
                    raise CutError(f'{relpath}: fn {key}: loop header /{k}/ matches {len(hits)} loops')
                k = hits[0]
            resolved[k] = spec
        loops = resolved
        for k, spec in loops.items():
            if k >= len(lh):
                raise CutError(f'{relpath}: fn {key}: loop #{k} not found (function has {len(lh)} loops)')
            kwpos, brace = lh[k]
            t = '\n'
            if spec.get('invariant_except_break'):
                t += '            invariant_except_break\n' + ''.join(
                    '        ' + reg('inv', c).lstrip().replace('// [', f'// [') for c in spec['invariant_except_break'])
            if spec.get('invariant'):
                t += '            invariant\n' + ''.join('        ' + reg('inv', c) for c in spec['invariant'])
            if spec.get('ensures'):
                t += '            ensures\n' + ''.join('        ' + reg('inv', c) for c in spec['ensures'])
            if spec.get('decreases'):
                t += f'            decreases {spec["decreases"]},\n'
            inserts.append((brace, t))
            if spec.get('before'):
                inserts.append((kwpos, ' ' + spec['before'].strip() + ' '))
            if spec.get('body_start') or spec.get('body_end') or spec.get('after'):
                close = match_close(code_mask(body), brace)
                if spec.get('body_start'):
                    inserts.append((brace + 1, ' ' + spec['body_start'].strip() + ' '))
                if spec.get('body_end'):
                    inserts.append((close, ' ' + spec['body_end'].strip() + ('\n' if spec['body_end'].endswith('\n') else ' ')))
                if spec.get('after'):
                    inserts.append((close + 1, ' ' + spec['after'].strip() + ' '))
        if len(lh) > len(loops) and not external_body:
            # a loop without invariant: Verus will complain about decreases; keep going, it reports
            pass
        for pat, text in proof_before:
            mask = code_mask(body)
            m = re.search(pat, mask, re.M)
            if not m:
                raise CutError(f'{relpath}: fn {key}: proof anchor /{pat}/ no longer matches')
            ls = body.rfind('\n', 0, m.start()) + 1
            inserts.append((ls, text.rstrip('\n') + '\n'))
        # labelled ghost assertions (each is an obligation of its own): (where, Clause[, ghost prelude]) with
        # where = ('before', regex) | ('after', regex) | ('loop_start', k) | ('loop_end', k) | ('tail',)
        for a in asserts:
            where, c = a[0], a[1]
            pre = a[2] if len(a) > 2 else ''
            by = f' by {{ {a[3]} }}' if len(a) > 3 and a[3] else ';'
            txt = '\n' + reg('assert', c).replace(f'        {c.text},', f'        proof {{ {pre} assert({c.text}){by} }}')
            if where[0] in ('before', 'after'):
                mask = code_mask(body)
                nth = where[2] if len(where) > 2 else 0
                ms = list(re.finditer(where[1], mask, re.M))
                if len(ms) <= nth:
                    raise CutError(f'{relpath}: fn {key}: assertion anchor /{where[1]}/ #{nth} no longer matches')
                m = ms[nth]
                if where[0] == 'before':
                    inserts.append((body.rfind('\n', 0, m.start()) + 1, txt.lstrip('\n')))
                else:
                    inserts.append((m.end(), txt))
            elif where[0] in ('loop_start', 'loop_end'):
                if where[1] >= len(lh):
                    raise CutError(f'{relpath}: fn {key}: loop #{where[1]} not found (function has {len(lh)} loops)')
                brace = lh[where[1]][1]
                if where[0] == 'loop_start':
                    inserts.append((brace + 1, txt))
                else:
                    inserts.append((match_close(code_mask(body), brace), txt))
            else:
                inserts.append((body.rfind('}'), txt))
        if tail_proof:
            inserts.append((body.rfind('}'), tail_proof.rstrip('\n') + '\n'))
        if head_proof:
            inserts.append((body.find('{') + 1, ' ' + head_proof.strip() + ' '))
        inserts.sort(key=lambda x: x[0])

        pos = 0
        cur_line = body_start_line
        for off, text in inserts:
            piece = body[pos:off]
            segs.append((piece, cur_line))
            cur_line += piece.count('\n')
            segs.append((text, None))
            pos = off
        segs.append((body[pos:], cur_line))

        # ---- emit
        org = dict(file=relpath, fn=fnkey)
        self.segments.append((f'// <<< {relpath}:{sig_start_line} fn {key}\n', None))
        if ty:
            self.segments.append(((impl_header or f'impl {ty}') + ' {\n', None))
        for a in header_attrs:
            self.segments.append((a + '\n', None))
        if external_body:
            self.segments.append(('#[verifier::external_body]\n', None))
            self.trusted.append(f'external_body: {relpath}::{key} (body not verified; contract assumed)')
        if assume_termination:
            self.segments.append(('#[verifier::exec_allows_no_decreases_clause]\n', None))
            self.trusted.append(f'termination of {relpath}::{key} not proved (exec_allows_no_decreases_clause)')
        self.segments.append((sig.rstrip() + '\n', dict(org, line=sig_start_line, sig=True)))
        if contract:
            self.segments.append((contract, dict(org, line=None)))
        for text, l in segs:
            self.segments.append((text, dict(org, line=l)))
        self.segments.append(('\n', None))
        if ty:
            self.segments.append(('}\n', None))
        if canary:
            self._canary(fnkey, sig, requires, ''.join(x for x, _ in segs), ty, impl_header, name, rename)
        return info

    def _canary(self, fnkey, sig, requires, body, ty, impl_header, name, rename):
        """must-fail copy: same signature, same requires, `ensures false`."""
        cname = (rename or name) + '_canary_must_fail'
        csig = re.sub(r'\bfn\s+' + re.escape(rename or name) + r'\b', 'fn ' + cname, sig, count=1)
        t = ''
        if ty:
            t += (impl_header or f'impl {ty}') + ' {\n'
        t += csig.rstrip() + '\n'
        if requires:
            t += '    requires\n' + ''.join(f'        {r.strip().rstrip(",")},\n' for r in requires)
        t += '    ensures false,   // [canary]\n'
        t += body + '\n'
        if ty:
            t += '}\n'
        self.segments.append((f'// <<< canary for {fnkey}\n', None))
        self.segments.append((t, dict(file=None, fn='canary:' + fnkey, line=None)))
        self.canaries.append(('canary:' + fnkey, cname))

    def canary_raw(self, key, text):
        """hand-written must-fail function (vacuity guard)"""
        m = re.search(r'\bfn\s+([A-Za-z0-9_]+)', text)
        self.segments.append((f'// <<< canary {key}\n', None))
        self.segments.append((text.strip('\n') + '\n', dict(file=None, fn='canary:' + key, line=None)))
        self.canaries.append(('canary:' + key, m.group(1)))

    def open_block(self, header):
        self.segments.append((header.rstrip() + '\n', None))

    def close_block(self):
        self.segments.append(('}\n', None))

    def lift_arm(self, relpath, impl_ty, fn_name, variant, enum_name=None):
        """cut one `Enum::Variant { bindings } => { body }` arm of `fn fn_name` in `impl impl_ty` and return
        dict(sig_params, body, line) for a synthesised function whose parameters are the arm's bindings (by reference,
        types taken from the enum definition in the same source)."""
        s = self.src(relpath)
        enum_name = enum_name or impl_ty
        imp = s.cut_item('impl', re.escape(impl_ty))
        f = s.cut_fn(fn_name, within=(imp['open'] + 1, imp['close']))
        mask = s.mask
        m = re.compile(r'(?<![@\w])\s' + re.escape(enum_name) + r'::' + re.escape(variant) + r'\s*\{').search(mask, f['open'], f['close'])
        if not m:
            raise CutError(f'{relpath}: arm {enum_name}::{variant} of {fn_name} not found')
        # reject `this @ Variant` arms
        pre = mask[max(0, m.start() - 12):m.start() + 1]
        if '@' in pre:
            raise CutError(f'{relpath}: arm {enum_name}::{variant} binds the whole value (this @ ..): not a flat arm')
        pb = m.end() - 1
        pe = match_close(mask, pb)
        binds = [b.strip() for b in s.text[pb + 1:pe].split(',') if b.strip()]
        arrow = mask.find('=>', pe)
        ob = mask.find('{', arrow)
        cb = match_close(mask, ob)
        body = s.text[ob:cb + 1]
        en = s.cut_item('enum', enum_name)
        vm = re.compile(r'\b' + re.escape(variant) + r'\s*\{').search(mask, en['open'], en['close'])
        if not vm:
            raise CutError(f'{relpath}: enum variant {enum_name}::{variant} not found')
        vb = vm.end() - 1
        ve = match_close(mask, vb)
        fields = dict()
        for fm in re.finditer(r'([a-z_][a-z0-9_]*)\s*:\s*([^,]+?)\s*(?:,|$)', s.text[vb + 1:ve].strip(), re.S):
            fields[fm.group(1)] = re.sub(r'\s+', ' ', fm.group(2))
        params = []
        for b in binds:
            if b not in fields:
                raise CutError(f'{relpath}: binding {b} of arm {variant} is not a field of the variant')
            params.append((b, fields[b]))
        self.drop(f'match arm {enum_name}::{variant} of {impl_ty}::{fn_name} lifted to a function (parameters = the arm bindings, `Ok(())` tail of the enclosing fn appended)')
        return dict(params=params, body=body, line=s.line_of(ob))

    def lemma(self, label, text, props=None):
        """hand-written proof fn (a lemma over the contracts); counted as one obligation."""
        props = list(props) if props is not None else list(self.props)
        m = re.search(r'\bfn\s+([A-Za-z0-9_]+)', text)
        key = 'lemma:' + m.group(1)
        self.fns[key] = dict(file=None, start_line=None, end_line=None, props=props, safety_props=[],
                             clauses=[label], external_body=False, loops=0, name=m.group(1), lemma=True)
        self.clauses[label] = dict(fn=key, kind='lemma', text=re.sub(r'\s+', ' ', text.strip())[:400], props=props)
        self.segments.append((text.rstrip('\n') + '\n', dict(file=None, fn=key, line=None)))

    # ------------------------------------------------------------------ helpers
    @staticmethod
    def _name_return(sig, ret):
        if not ret:
            return sig
        mask = code_mask(sig)
        # find the top-level `->` after the parameter list
        p = mask.find('(')
        # skip generics before '(' containing parens (rare) -- fine
        cl = match_close(mask, p)
        m = re.compile(r'->\s*').search(mask, cl)
        if not m:
            return sig
        start = m.end()
        w = re.compile(r'\bwhere\b').search(mask, start)
        end = w.start() if w else len(sig)
        rt = sig[start:end].strip()
        return sig[:start] + f'({ret}: {rt})' + (' ' + sig[end:] if w else '')

    def _desugar_array_let(self, body):
        """`let [a, b] = e;` -> `let t_ = e; let a = t_[0]; let b = t_[1];` (Verus: no slice patterns)"""
        k = [0]

        def rep(m):
            names = [x.strip() for x in m.group(1).split(',') if x.strip()]
            k[0] += 1
            t = f'arr_tmp_{k[0]}'
            self.drop('let [a, b, ..] = e; -> indexed lets')
            return f'let {t} = {m.group(2)};' + ''.join(f' let {n} = {t}[{i}];' for i, n in enumerate(names))
        return re.sub(r'let\s+\[([^\]]*)\]\s*=\s*([^;]*);', rep, body)

    # ------------------------------------------------------------------ output
    def render(self):
        """returns (text, line_origin) ; line_origin[i] = origin dict of unit line i+1 (or None)"""
        head = 'use vstd::prelude::*;\n#[allow(unused_imports)]\nuse std::collections::{HashMap, HashSet};\n#[allow(unused_imports)]\nuse vstd::std_specs::iter::IteratorSpec;\nverus! {\n'
        tail = '\n} // verus!\nfn main() {}\n'
        allsegs = [(head, None)] + self.segments + [(tail, None)]
        full_parts = []
        nlines = 0          # number of '\n' emitted so far
        line_origin = {}
        for text, org in allsegs:
            if org is not None:
                parts = text.split('\n')
                for i, part in enumerate(parts):
                    if i == len(parts) - 1 and part == '':
                        continue
                    o = dict(org)
                    if o.get('line') is not None:
                        o['line'] = o['line'] + i
                    idx = nlines + i
                    if idx not in line_origin or o.get('line') is not None:
                        line_origin[idx] = o
            full_parts.append(text)
            nlines += text.count('\n')
        full = ''.join(full_parts)
        total = full.count('\n') + 1
        return full, [line_origin.get(i) for i in range(total)]


# ---------------------------------------------------------------------- running verus

VERIFY_FAIL_PATTERNS = [
    (r'^postcondition not satisfied', 'post'),
    (r'^precondition not satisfied', 'pre'),
    (r'^possible arithmetic underflow/overflow', 'overflow'),
    (r'^possible division by zero', 'divzero'),
    (r'^assertion failed', 'assert'),
    (r'^invariant not satisfied at end of loop body', 'inv-end'),
    (r'^invariant not satisfied before loop', 'inv-init'),
    (r'^loop invariant not satisfied', 'inv'),
    (r'^decreases not satisfied', 'decreases'),
    (r'^recommendation not met', 'recommends'),
    (r'^unreachable!?\(\)|^reached unreachable', 'unreachable'),
    (r'^possible bit shift underflow/overflow', 'overflow'),
    (r'^cannot show invariant', 'inv'),
    (r'^constructed value may fail to meet its declared type invariant', 'typeinv'),
    (r'^loop ensures not satisfied', 'inv'),
    (r'^could not prove termination', 'decreases'),
]


def run_verus(path, rlimit=None, extra=(), multiple_errors=10):
    cmd = ['verus', path, '--output-json', '--time-expanded', '--error-format=json', '--triggers-mode', 'silent',
           '--multiple-errors', str(multiple_errors)]
    if rlimit:
        cmd += ['--rlimit', str(rlimit)]
    cmd += list(extra)
    t0 = time.time()
    p = subprocess.run(cmd, capture_output=True, text=True, cwd=os.path.dirname(path))
    wall = time.time() - t0
    try:
        js = json.loads(p.stdout)
    except Exception:
        js = None
    diags = []
    for l in p.stderr.splitlines():
        l = l.strip()
        if l.startswith('{'):
            try:
                diags.append(json.loads(l))
            except Exception:
                pass
    return dict(cmd=' '.join(cmd), rc=p.returncode, json=js, diags=diags, stderr=p.stderr, wall=wall)


def classify(diag):
    msg = diag.get('message', '')
    for pat, kind in VERIFY_FAIL_PATTERNS:
        if re.search(pat, msg):
            return kind
    return None
