// ---- big-endian byte specs + trusted stubs for {integer}::to_be_bytes ----
pub open spec fn be16(v: u16) -> Seq<u8> { seq![(v >> 8) as u8, (v & 0xff) as u8] }
pub open spec fn be32(v: u32) -> Seq<u8> { seq![(v >> 24) as u8, ((v >> 16) & 0xff) as u8, ((v >> 8) & 0xff) as u8, (v & 0xff) as u8] }
pub open spec fn be64(v: u64) -> Seq<u8> { be32((v >> 32) as u32) + be32((v & 0xffff_ffff) as u32) }
pub open spec fn be_i8(v: i8) -> Seq<u8> { seq![v as u8] }
pub open spec fn be_i16(v: i16) -> Seq<u8> { be16(v as u16) }
pub open spec fn be_i32(v: i32) -> Seq<u8> { be32(v as u32) }
pub open spec fn be_i64(v: i64) -> Seq<u8> { be64(v as u64) }
// value denoted by big-endian bytes (decoder side)
pub open spec fn val16(s: Seq<u8>) -> int recommends s.len() == 2 { s[0] as int * 256 + s[1] as int }
pub open spec fn val32(s: Seq<u8>) -> int recommends s.len() == 4 { ((s[0] as int * 256 + s[1] as int) * 256 + s[2] as int) * 256 + s[3] as int }
pub open spec fn sval16(s: Seq<u8>) -> int { if val16(s) >= 0x8000 { val16(s) - 0x10000 } else { val16(s) } }
pub open spec fn sval32(s: Seq<u8>) -> int { if val32(s) >= 0x8000_0000 { val32(s) - 0x1_0000_0000 } else { val32(s) } }

pub proof fn lemma_be16_val(v: u16)
    ensures be16(v).len() == 2, val16(be16(v)) == v as int,
{
    assert(((v >> 8) as u8) as int * 256 + ((v & 0xff) as u8) as int == v as int) by (bit_vector);
}
pub proof fn lemma_be32_val(v: u32)
    ensures be32(v).len() == 4, val32(be32(v)) == v as int,
{
    assert(((((v >> 24) as u8) as int * 256 + (((v >> 16) & 0xff) as u8) as int) * 256 + (((v >> 8) & 0xff) as u8) as int) * 256
        + ((v & 0xff) as u8) as int == v as int) by (bit_vector);
}
pub proof fn lemma_be_i16_val(v: i16)
    ensures be_i16(v).len() == 2, sval16(be_i16(v)) == v as int,
{
    lemma_be16_val(v as u16);
    assert((v as u16) as int == (if v < 0 { v as int + 0x10000 } else { v as int })) by (bit_vector);
}
pub proof fn lemma_be_i32_val(v: i32)
    ensures be_i32(v).len() == 4, sval32(be_i32(v)) == v as int,
{
    lemma_be32_val(v as u32);
    assert((v as u32) as int == (if v < 0 { v as int + 0x1_0000_0000 } else { v as int })) by (bit_vector);
}

// TRUSTED: external_body stubs to_be_bytes_{u8,u16,u32,u64,i8,i16,i32,i64}: the call `x.to_be_bytes()` is rewritten to `to_be_bytes_T(x)`; assumed to return the big-endian bytes be16/be32/be64 (Verus cannot attach a spec to {integer}::to_be_bytes: anonymous const in its return type)
#[verifier::external_body]
pub fn to_be_bytes_u8(v: u8) -> (r: [u8; 1]) ensures r@ == seq![v] { v.to_be_bytes() }
#[verifier::external_body]
pub fn to_be_bytes_u16(v: u16) -> (r: [u8; 2]) ensures r@ == be16(v) { v.to_be_bytes() }
#[verifier::external_body]
pub fn to_be_bytes_u32(v: u32) -> (r: [u8; 4]) ensures r@ == be32(v) { v.to_be_bytes() }
#[verifier::external_body]
pub fn to_be_bytes_u64(v: u64) -> (r: [u8; 8]) ensures r@ == be64(v) { v.to_be_bytes() }
#[verifier::external_body]
pub fn to_be_bytes_i8(v: i8) -> (r: [u8; 1]) ensures r@ == be_i8(v) { v.to_be_bytes() }
#[verifier::external_body]
pub fn to_be_bytes_i16(v: i16) -> (r: [u8; 2]) ensures r@ == be_i16(v) { v.to_be_bytes() }
#[verifier::external_body]
pub fn to_be_bytes_i32(v: i32) -> (r: [u8; 4]) ensures r@ == be_i32(v) { v.to_be_bytes() }
#[verifier::external_body]
pub fn to_be_bytes_i64(v: i64) -> (r: [u8; 8]) ensures r@ == be_i64(v) { v.to_be_bytes() }
