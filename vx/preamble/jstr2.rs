// ---- jstr2 preamble: further mirror methods of java_string::JavaStr / JavaString used by the inner-class helpers ----
// TRUSTED: mirror of java_string: rsplit_once(char) splits at the last occurrence of the code point (halves returned by value instead of as borrowed sub-slices), is_empty / len / ends_with(char) / contains(char) / reserve with their std::str meaning (mirror bodies verified, agreement with the crate assumed); len() is the number of code points here, the code only uses it as a capacity hint
pub open spec fn last_index_of(s: Seq<char>, c: char) -> int
    decreases s.len(),
{
    if s.len() == 0 { -1 } else if s[s.len() - 1] == c { s.len() - 1 } else { last_index_of(s.drop_last(), c) }
}
pub proof fn lemma_last_index_of(s: Seq<char>, c: char)
    ensures -1 <= last_index_of(s, c) < s.len(),
        last_index_of(s, c) >= 0 ==> s[last_index_of(s, c)] == c,
        forall|j: int| last_index_of(s, c) < j < s.len() ==> s[j] != c,
    decreases s.len(),
{
    if s.len() > 0 && s[s.len() - 1] != c {
        lemma_last_index_of(s.drop_last(), c);
        assert forall|j: int| last_index_of(s, c) < j < s.len() implies s[j] != c by { if j < s.len() - 1 { assert(s.drop_last()[j] == s[j]); } }
    }
}
pub proof fn lemma_last_index_is(s: Seq<char>, c: char, k: int)
    requires 0 <= k < s.len(), s[k] == c, forall|j: int| k < j < s.len() ==> s[j] != c,
    ensures last_index_of(s, c) == k,
    decreases s.len(),
{
    if s[s.len() - 1] != c { assert(k < s.len() - 1); lemma_last_index_is(s.drop_last(), c, k); }
}
pub proof fn lemma_last_index_none(s: Seq<char>, c: char)
    requires forall|j: int| 0 <= j < s.len() ==> s[j] != c,
    ensures last_index_of(s, c) == -1,
    decreases s.len(),
{
    if s.len() > 0 { lemma_last_index_none(s.drop_last(), c); }
}
pub open spec fn has_char(s: Seq<char>, c: char) -> bool { exists|j: int| 0 <= j < s.len() && s[j] == c }

impl JavaString {
    pub fn is_empty(&self) -> (b: bool) ensures b == (self@.len() == 0) { self.cp.len() == 0 }
    pub fn len(&self) -> (n: usize) ensures n == self@.len() { self.cp.len() }
    pub fn reserve(&mut self, additional: usize) ensures final(self)@ == old(self)@ { }
    pub fn ends_with(&self, c: char) -> (b: bool)
        ensures b == (self@.len() > 0 && self@[self@.len() - 1] == c),
    { self.cp.len() > 0 && self.cp[self.cp.len() - 1] == c }
    pub fn contains(&self, c: char) -> (b: bool)
        ensures b == has_char(self@, c),
    {
        let mut i: usize = 0;
        while i < self.cp.len()
            invariant 0 <= i <= self.cp.len(), forall|j: int| 0 <= j < i ==> self@[j] != c,
            decreases self.cp.len() - i,
        {
            if self.cp[i] == c { return true; }
            i += 1;
        }
        false
    }
    pub fn rsplit_once(&self, c: char) -> (r: Option<(JavaString, JavaString)>)
        ensures
            last_index_of(self@, c) < 0 ==> r is None,
            last_index_of(self@, c) >= 0 ==> (r matches Some(p) && p.0@ == self@.subrange(0, last_index_of(self@, c)) && p.1@ == self@.subrange(last_index_of(self@, c) + 1, self@.len() as int)),
    {
        let n = self.cp.len();
        let mut i: usize = n;
        while i > 0
            invariant 0 <= i <= n, n == self.cp.len(), forall|j: int| i <= j < n ==> self@[j] != c,
            decreases i,
        {
            if self.cp[i - 1] == c {
                proof { lemma_last_index_is(self@, c, i as int - 1); }
                let mut a = JavaString::new();
                let mut b = JavaString::new();
                let mut k: usize = 0;
                while k < i - 1
                    invariant 0 <= k <= i - 1, i <= n, n == self.cp.len(), a@ == self@.subrange(0, k as int),
                    decreases i - 1 - k,
                { a.cp.push(self.cp[k]); k += 1; assert(a@ =~= self@.subrange(0, k as int)); }
                let mut m: usize = i;
                while m < n
                    invariant i <= m <= n, n == self.cp.len(), b@ == self@.subrange(i as int, m as int),
                    decreases n - m,
                { b.cp.push(self.cp[m]); m += 1; assert(b@ =~= self@.subrange(i as int, m as int)); }
                return Some((a, b));
            }
            i -= 1;
        }
        proof { lemma_last_index_none(self@, c); }
        None
    }
}
