// ---- desc preamble: mirror of java_string (code points, strings, Peekable<Chars>) and the JVMS 4.3 descriptor grammar ----
// TRUSTED: mirror of java_string: JavaCodePoint is modelled as Rust `char` (unpaired surrogates, which java_string also admits, are not modelled; the code only compares code points with ASCII literals), JavaString / JavaStr as a vector of code points with new/push/push_java/push_java_str/starts_with/chars (mirror bodies verified here, their agreement with the java_string crate is assumed)
// TRUSTED: mirror of std::iter::Peekable<java_string::Chars>: next / peek / next_if_eq / next_if over a vector of code points and a position (mirror bodies verified here, their agreement with std is assumed); peek returns the code point by value
pub type JavaCodePoint = char;

pub struct JavaString { pub cp: Vec<char> }
pub type JavaStr = JavaString;

impl View for JavaString {
    type V = Seq<char>;
    open spec fn view(&self) -> Seq<char> { self.cp@ }
}

impl JavaString {
    pub fn new() -> (r: JavaString)
        ensures r@ == Seq::<char>::empty(),
    { JavaString { cp: Vec::new() } }

    pub fn push(&mut self, c: char)
        ensures final(self)@ == old(self)@.push(c),
    { self.cp.push(c); }

    pub fn push_java(&mut self, c: JavaCodePoint)
        ensures final(self)@ == old(self)@.push(c),
    { self.cp.push(c); }

    pub fn push_java_str(&mut self, s: &JavaStr)
        ensures final(self)@ == old(self)@ + s@,
    {
        let mut i: usize = 0;
        while i < s.cp.len()
            invariant 0 <= i <= s.cp.len(), self@ == old(self)@ + s@.subrange(0, i as int),
            decreases s.cp.len() - i,
        {
            self.cp.push(s.cp[i]);
            i += 1;
            assert(self@ =~= old(self)@ + s@.subrange(0, i as int));
        }
        assert(s@.subrange(0, i as int) =~= s@);
    }

    pub fn starts_with(&self, c: char) -> (b: bool)
        ensures b == (self@.len() > 0 && self@[0] == c),
    { self.cp.len() > 0 && self.cp[0] == c }

    pub fn chars(&self) -> (r: Chars)
        ensures r.data@ == self@, r.pos == 0,
    { Chars { data: self.cp.clone(), pos: 0 } }

    // TRUSTED: external_body JavaString::from(&str): the code points of a string literal are its chars
    #[verifier::external_body]
    pub fn from(s: &str) -> (r: JavaString)
        ensures r@ == s@,
    { JavaString { cp: s.chars().collect() } }
}

pub struct Chars { pub data: Vec<char>, pub pos: usize }
pub struct Peekable<I> { pub it: I }

impl Chars {
    pub fn peekable(self) -> (r: Peekable<Chars>)
        ensures r.it == self,
    { Peekable { it: self } }
}

impl Peekable<Chars> {
    pub open spec fn data(&self) -> Seq<char> { self.it.data@ }
    pub open spec fn pos(&self) -> int { self.it.pos as int }
    pub open spec fn wf(&self) -> bool { self.it.pos <= self.it.data.len() }
    pub open spec fn at_end(&self) -> bool { self.pos() >= self.data().len() }

    pub fn next(&mut self) -> (r: Option<char>)
        requires old(self).wf(),
        ensures final(self).wf(), final(self).data() == old(self).data(),
            !old(self).at_end() ==> r == Some(old(self).data()[old(self).pos()]) && final(self).pos() == old(self).pos() + 1,
            old(self).at_end() ==> r.is_none() && final(self).pos() == old(self).pos(),
    {
        if self.it.pos < self.it.data.len() { let c = self.it.data[self.it.pos]; self.it.pos += 1; Some(c) } else { None }
    }

    pub fn peek(&mut self) -> (r: Option<char>)
        requires old(self).wf(),
        ensures final(self).wf(), final(self).data() == old(self).data(), final(self).pos() == old(self).pos(),
            !old(self).at_end() ==> r == Some(old(self).data()[old(self).pos()]),
            old(self).at_end() ==> r.is_none(),
    {
        if self.it.pos < self.it.data.len() { Some(self.it.data[self.it.pos]) } else { None }
    }

    pub fn next_if_eq(&mut self, c: &char) -> (r: Option<char>)
        requires old(self).wf(),
        ensures final(self).wf(), final(self).data() == old(self).data(),
            (!old(self).at_end() && old(self).data()[old(self).pos()] == *c) ==> r == Some(*c) && final(self).pos() == old(self).pos() + 1,
            !(!old(self).at_end() && old(self).data()[old(self).pos()] == *c) ==> r.is_none() && final(self).pos() == old(self).pos(),
    {
        if self.it.pos < self.it.data.len() && self.it.data[self.it.pos] == *c { self.it.pos += 1; Some(*c) } else { None }
    }

    pub fn next_if<F: FnOnce(&char) -> bool>(&mut self, f: F) -> (r: Option<char>)
        requires old(self).wf(), forall|c: char| f.requires((&c,)),
        ensures final(self).wf(), final(self).data() == old(self).data(),
            old(self).at_end() ==> r.is_none() && final(self).pos() == old(self).pos(),
            !old(self).at_end() ==> ({ let c = old(self).data()[old(self).pos()];
                (f.ensures((&c,), true) && r == Some(c) && final(self).pos() == old(self).pos() + 1)
                || (f.ensures((&c,), false) && r.is_none() && final(self).pos() == old(self).pos()) }),
    {
        if self.it.pos < self.it.data.len() {
            let c = self.it.data[self.it.pos];
            if f(&c) { self.it.pos += 1; Some(c) } else { None }
        } else { None }
    }
}

// ---------------------------------------------------------------- JVMS 4.2.1 / 4.2.2 names (specification)
pub open spec fn sp_valid_unqualified(s: Seq<char>) -> bool {
    s.len() > 0 && (forall|i: int| 0 <= i < s.len() ==> s[i] != '.' && s[i] != ';' && s[i] != '[' && s[i] != '/')
}
// a binary class name in internal form: non-empty identifiers (no . ; [ /) separated by single '/'
pub open spec fn sp_valid_obj(s: Seq<char>) -> bool {
    s.len() > 0 && s[0] != '/' && s[s.len() - 1] != '/'
    && (forall|i: int| 0 <= i < s.len() ==> s[i] != '.' && s[i] != ';' && s[i] != '[')
    && (forall|i: int| 0 <= i < s.len() - 1 ==> !(s[i] == '/' && #[trigger] s[i + 1] == '/'))
}

// ---------------------------------------------------------------- JVMS 4.3.2 / 4.3.3 grammar (specification, written from the JVMS)
pub enum SArr { B, C, D, F, I, J, S, Z, Object(Seq<char>) }
pub enum STy { B, C, D, F, I, J, S, Z, Object(Seq<char>), Array(u8, SArr) }

pub open spec fn brackets(s: Seq<char>, i: int) -> int
    decreases s.len() - i,
{
    if 0 <= i < s.len() && s[i] == '[' { 1 + brackets(s, i + 1) } else { 0 }
}
// index of the first ';' at or after i, or -1
pub open spec fn semi(s: Seq<char>, i: int) -> int
    decreases s.len() - i,
{
    if i < 0 || i >= s.len() { -1 } else if s[i] == ';' { i } else { semi(s, i + 1) }
}
pub open spec fn base_of(c: char) -> Option<SArr> {
    if c == 'B' { Some(SArr::B) } else if c == 'C' { Some(SArr::C) } else if c == 'D' { Some(SArr::D) } else if c == 'F' { Some(SArr::F) }
    else if c == 'I' { Some(SArr::I) } else if c == 'J' { Some(SArr::J) } else if c == 'S' { Some(SArr::S) } else if c == 'Z' { Some(SArr::Z) }
    else { None }
}
pub open spec fn lift(d: int, a: SArr) -> STy {
    if d == 0 {
        match a { SArr::B => STy::B, SArr::C => STy::C, SArr::D => STy::D, SArr::F => STy::F, SArr::I => STy::I, SArr::J => STy::J,
                  SArr::S => STy::S, SArr::Z => STy::Z, SArr::Object(n) => STy::Object(n) }
    } else { STy::Array(d as u8, a) }
}
// FieldType at position i of s: Some((type, end)) or None.  At most 255 dimensions (JVMS 4.3.2).
pub open spec fn ft_parse(s: Seq<char>, i: int) -> Option<(STy, int)> {
    let d = brackets(s, i);
    let j = i + d;
    if i < 0 || d > 255 || j >= s.len() { None }
    else if s[j] == 'L' {
        let k = semi(s, j + 1);
        if k < 0 || !sp_valid_obj(s.subrange(j + 1, k)) { None } else { Some((lift(d, SArr::Object(s.subrange(j + 1, k))), k + 1)) }
    } else {
        match base_of(s[j]) { Some(a) => Some((lift(d, a), j + 1)), None => None }
    }
}
pub open spec fn field_desc(s: Seq<char>) -> Option<STy> {
    match ft_parse(s, 0) { Some((t, e)) => if e == s.len() { Some(t) } else { None }, None => None }
}
pub open spec fn ret_parse(s: Seq<char>, i: int) -> Option<(Option<STy>, int)> {
    if 0 <= i < s.len() && s[i] == 'V' { Some((None, i + 1)) }
    else { match ft_parse(s, i) { Some((t, e)) => Some((Some(t), e)), None => None } }
}
pub open spec fn return_desc(s: Seq<char>) -> Option<Option<STy>> {
    match ret_parse(s, 0) { Some((t, e)) => if e == s.len() { Some(t) } else { None }, None => None }
}
// FieldType* ")" from position i
pub open spec fn params(s: Seq<char>, i: int) -> Option<(Seq<STy>, int)>
    decreases s.len() - i,
{
    if i < 0 || i >= s.len() { None }
    else if s[i] == ')' { Some((Seq::<STy>::empty(), i + 1)) }
    else {
        let r = ft_parse(s, i);
        if r is None { None } else {
            let t = r.unwrap().0;
            let j = r.unwrap().1;
            if j <= i || j > s.len() { None } else {
                let q = params(s, j);
                if q is None { None } else { Some((seq![t] + q.unwrap().0, q.unwrap().1)) }
            }
        }
    }
}
pub open spec fn method_desc(s: Seq<char>) -> Option<(Seq<STy>, Option<STy>)> {
    if s.len() == 0 || s[0] != '(' { None }
    else { match params(s, 1) {
        None => None,
        Some((ps, e)) => match ret_parse(s, e) { Some((r, e2)) => if e2 == s.len() { Some((ps, r)) } else { None }, None => None },
    } }
}

// ---------------------------------------------------------------- printing (specification)
pub open spec fn rep(n: int) -> Seq<char> { Seq::new(n as nat, |i: int| '[') }
pub open spec fn arr_print(a: SArr) -> Seq<char> {
    match a { SArr::B => seq!['B'], SArr::C => seq!['C'], SArr::D => seq!['D'], SArr::F => seq!['F'], SArr::I => seq!['I'], SArr::J => seq!['J'],
              SArr::S => seq!['S'], SArr::Z => seq!['Z'], SArr::Object(n) => seq!['L'] + n + seq![';'] }
}
pub open spec fn ty_print(t: STy) -> Seq<char> {
    match t { STy::B => seq!['B'], STy::C => seq!['C'], STy::D => seq!['D'], STy::F => seq!['F'], STy::I => seq!['I'], STy::J => seq!['J'],
              STy::S => seq!['S'], STy::Z => seq!['Z'], STy::Object(n) => seq!['L'] + n + seq![';'], STy::Array(d, a) => rep(d as int) + arr_print(a) }
}
// the type structures the grammar can produce
pub open spec fn sty_wf(t: STy) -> bool {
    match t { STy::Object(n) => sp_valid_obj(n), STy::Array(d, SArr::Object(n)) => d >= 1 && sp_valid_obj(n), STy::Array(d, _) => d >= 1, _ => true }
}
pub open spec fn params_print(ts: Seq<STy>) -> Seq<char>
    decreases ts.len(),
{
    if ts.len() == 0 { Seq::<char>::empty() } else { params_print(ts.drop_last()) + ty_print(ts.last()) }
}
pub open spec fn ret_print(r: Option<STy>) -> Seq<char> { match r { Some(t) => ty_print(t), None => seq!['V'] } }
pub open spec fn method_print(ps: Seq<STy>, r: Option<STy>) -> Seq<char> { seq!['('] + params_print(ps) + seq![')'] + ret_print(r) }

// ---------------------------------------------------------------- lemmas about the grammar
pub proof fn lemma_brackets(s: Seq<char>, i: int, d: int)
    requires 0 <= i, 0 <= d, i + d <= s.len(),
        forall|k: int| i <= k < i + d ==> s[k] == '[',
    ensures brackets(s, i) >= d,
        (i + d == s.len() || s[i + d] != '[') ==> brackets(s, i) == d,
    decreases d,
{
    if d > 0 { assert(s[i] == '['); lemma_brackets(s, i + 1, d - 1); } else { lemma_brackets_range(s, i); }
}
pub proof fn lemma_semi(s: Seq<char>, i: int, k: int)
    requires 0 <= i <= k, k <= s.len(),
        forall|m: int| i <= m < k ==> s[m] != ';',
    ensures k < s.len() && s[k] == ';' ==> semi(s, i) == k,
        k == s.len() ==> semi(s, i) == -1,
    decreases k - i,
{
    if i < k { lemma_semi(s, i + 1, k); }
}
pub proof fn lemma_brackets_range(s: Seq<char>, i: int)
    requires 0 <= i,
    ensures 0 <= brackets(s, i), i + brackets(s, i) <= s.len() || (i > s.len() && brackets(s, i) == 0),
        forall|k: int| i <= k < i + brackets(s, i) ==> s[k] == '[',
        i + brackets(s, i) < s.len() ==> s[i + brackets(s, i)] != '[',
    decreases s.len() - i,
{
    if i < s.len() && s[i] == '[' { lemma_brackets_range(s, i + 1); }
}
pub proof fn lemma_semi_range(s: Seq<char>, i: int)
    requires 0 <= i,
    ensures semi(s, i) == -1 || (i <= semi(s, i) < s.len() && s[semi(s, i)] == ';'),
        semi(s, i) >= 0 ==> forall|m: int| i <= m < semi(s, i) ==> s[m] != ';',
    decreases s.len() - i,
{
    if i < s.len() && s[i] != ';' { lemma_semi_range(s, i + 1); }
}
