// ---- C20 preamble: model of the byte sink used by the macro-generated writers ----
pub trait BeBytes { spec fn be(&self) -> Seq<u8>; }
pub open spec fn rev(s: Seq<u8>) -> Seq<u8> { Seq::new(s.len(), |i: int| s[s.len() - 1 - i]) }
impl BeBytes for u8 { open spec fn be(&self) -> Seq<u8> { seq![*self] } }
impl BeBytes for u16 { open spec fn be(&self) -> Seq<u8> { be16(*self) } }
impl BeBytes for u32 { open spec fn be(&self) -> Seq<u8> { be32(*self) } }
impl<T: BeBytes> BeBytes for &T { open spec fn be(&self) -> Seq<u8> { (**self).be() } }

// TRUSTED: external_body vw_write: `std::io::Write::write_all(writer, &x.to_be_bytes())?` (writer = Vec<u8>) is rewritten to `vw_write(writer, x)?`; assumed to append the big-endian bytes of x (u8/u16/u32, by value or by reference) and never fail
#[verifier::external_body]
pub fn vw_write<T: BeBytes>(w: &mut Vec<u8>, v: T) -> (res: Result<(), VErr>)
    ensures res.is_ok(), final(w)@ == old(w)@ + v.be(),
{ unimplemented!() }
// same for `x.to_le_bytes()` (not used by the pinned code; present so that a byte-order change is refuted instead of being unextractable)
#[verifier::external_body]
pub fn vw_write_le<T: BeBytes>(w: &mut Vec<u8>, v: T) -> (res: Result<(), VErr>)
    ensures res.is_ok(), final(w)@ == old(w)@ + rev(v.be()),
{ unimplemented!() }

// What any reader sees of an attribute_info (JVMS 4.7): u2 attribute_name_index, u4 attribute_length, then exactly attribute_length bytes.
pub open spec fn attr_well_formed(s: Seq<u8>) -> bool {
    s.len() >= 6 && val32(s.subrange(2, 6)) == s.len() - 6
}

// the header written first survives everything appended after it
pub proof fn lemma_attr_header(w: Seq<u8>, o: int, name: u16, len: u32)
    requires
        0 <= o, o + 6 <= w.len(),
        w.subrange(o, o + 6) == be16(name) + be32(len),
    ensures
        val32(w.subrange(o, w.len() as int).subrange(2, 6)) == len as int,
        w.subrange(o, w.len() as int).subrange(0, 2) == be16(name),
{
    lemma_be32_val(len);
    let s = w.subrange(o, w.len() as int);
    let h = w.subrange(o, o + 6);
    assert(s.subrange(2, 6) == be32(len)) by {
        assert forall|j: int| 0 <= j < 4 implies s.subrange(2, 6)[j] == be32(len)[j] by {
            assert(s.subrange(2, 6)[j] == h[2 + j]);
            assert(h[2 + j] == (be16(name) + be32(len))[2 + j]);
        }
    }
    assert(s.subrange(0, 2) == be16(name)) by {
        assert forall|j: int| 0 <= j < 2 implies s.subrange(0, 2)[j] == be16(name)[j] by {
            assert(s.subrange(0, 2)[j] == h[j]);
            assert(h[j] == (be16(name) + be32(len))[j]);
        }
    }
}
