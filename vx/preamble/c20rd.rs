// ---- C20 read side: model of the byte source used by the macro-generated readers ----
// TRUSTED: VRd + external_body vr_read_exact: `reader.read_exact(&mut buf)?` (reader: &mut impl std::io::Read) is rewritten to `vr_read_exact(reader, &mut buf)?`; assumed semantics of std::io::Read::read_exact on an in-memory source (Cursor<&[u8]> / &[u8]): fails iff fewer than N bytes remain, otherwise fills the buffer with exactly the next N bytes and advances by N; the data is never modified
pub struct VRd { pub data: Vec<u8>, pub pos: usize }

#[verifier::external_body]
pub fn vr_read_exact<const N: usize>(r: &mut VRd, buf: &mut [u8; N]) -> (res: Result<(), VErr>)
    requires old(r).pos <= old(r).data@.len(),
    ensures
        final(r).data@ == old(r).data@,
        res.is_ok() <==> old(r).pos + N <= old(r).data@.len(),
        res.is_ok() ==> final(r).pos == old(r).pos + N && final(buf)@ == old(r).data@.subrange(old(r).pos as int, old(r).pos + N),
        res.is_err() ==> final(r).pos == old(r).pos,
{ unimplemented!() }

// TRUSTED: external_body slice_eq_u8: `a == b` on byte slices (`bytes.as_slice() == value`) is rewritten to `slice_eq_u8(a, b)`; assumed to compare the contents
#[verifier::external_body]
pub fn slice_eq_u8(a: &[u8], b: &[u8]) -> (r: bool)
    ensures r == (a@ == b@),
{ a == b }

// the bytes at d[off..off+W] are the big-endian encoding of the value decoded from them
pub proof fn lemma_raw1(d: Seq<u8>, off: int, v: u8)
    requires 0 <= off, off + 1 <= d.len(), v == d.subrange(off, off + 1)[0],
    ensures d.subrange(off, off + 1) == seq![v],
{
    assert(d.subrange(off, off + 1) =~= seq![v]);
}
pub proof fn lemma_raw2(d: Seq<u8>, off: int, v: u16)
    requires 0 <= off, off + 2 <= d.len(), v as int == val16(d.subrange(off, off + 2)),
    ensures d.subrange(off, off + 2) == be16(v),
{
    let s = d.subrange(off, off + 2);
    let t = be16(v);
    lemma_be16_val(v);
    assert(t[0] as int * 256 + t[1] as int == s[0] as int * 256 + s[1] as int);
    assert(t[0] == s[0] && t[1] == s[1]);
    assert(s =~= t);
}
pub proof fn lemma_raw4(d: Seq<u8>, off: int, v: u32)
    requires 0 <= off, off + 4 <= d.len(), v as int == val32(d.subrange(off, off + 4)),
    ensures d.subrange(off, off + 4) == be32(v),
{
    let s = d.subrange(off, off + 4);
    let t = be32(v);
    lemma_be32_val(v);
    assert(((t[0] as int * 256 + t[1] as int) * 256 + t[2] as int) * 256 + t[3] as int
        == ((s[0] as int * 256 + s[1] as int) * 256 + s[2] as int) * 256 + s[3] as int);
    assert(t[0] == s[0] && t[1] == s[1] && t[2] == s[2] && t[3] == s[3]);
    assert(s =~= t);
}
