// ---- common preamble (hand written; spec + assumed specifications only) ----
#[allow(unused_imports)]
use vstd::std_specs::cmp::*;
#[derive(Debug)]
pub struct VErr;

// TRUSTED: assume_specification Option::<&T>::copied  (vstd has none): Some(&x) -> Some(x), None -> None
pub assume_specification<T: Copy>[ Option::<&T>::copied ](o: Option<&T>) -> (r: Option<T>)
    ensures r == (match o { Some(x) => Some(*x), None => None::<T> }),
;

// TRUSTED: assume_specification core::cmp::min / max (vstd has none): the result is one of the two arguments, the smaller / larger one for types whose Ord obeys vstd's cmp specification (the integer types)
pub assume_specification<T: Ord>[ core::cmp::min::<T> ](a: T, b: T) -> (r: T)
    ensures r == a || r == b,
        T::obeys_cmp_spec() ==> r == (if a.cmp_spec(&b) is Greater { b } else { a }),
;
pub assume_specification<T: Ord>[ core::cmp::max::<T> ](a: T, b: T) -> (r: T)
    ensures r == a || r == b,
        T::obeys_cmp_spec() ==> r == (if a.cmp_spec(&b) is Greater { a } else { b }),
;
