// ---- common preamble (hand written; spec + assumed specifications only) ----
#[derive(Debug)]
pub struct VErr;

// TRUSTED: assume_specification Option::<&T>::copied  (vstd has none): Some(&x) -> Some(x), None -> None
pub assume_specification<T: Copy>[ Option::<&T>::copied ](o: Option<&T>) -> (r: Option<T>)
    ensures r == (match o { Some(x) => Some(*x), None => None::<T> }),
;
