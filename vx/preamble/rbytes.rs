// ---- trusted stubs for {integer}::from_be_bytes (reader side) ----
// TRUSTED: external_body stubs from_be_bytes_{u8,u16,u32,u64,i8,i16,i32,i64}: `T::from_be_bytes(x)` is rewritten to `from_be_bytes_T(x)`; assumed to return the big-endian value (val16/val32/..., two's complement for signed)
pub open spec fn val64(s: Seq<u8>) -> int { val32(s.subrange(0, 4)) * 0x1_0000_0000 + val32(s.subrange(4, 8)) }
pub open spec fn sval8(s: Seq<u8>) -> int { if s[0] >= 0x80 { s[0] as int - 0x100 } else { s[0] as int } }
pub open spec fn sval64(s: Seq<u8>) -> int { if val64(s) >= 0x8000_0000_0000_0000 { val64(s) - 0x1_0000_0000_0000_0000 } else { val64(s) } }
#[verifier::external_body]
pub fn from_be_bytes_u8(a: [u8; 1]) -> (r: u8) ensures r == a@[0] { u8::from_be_bytes(a) }
#[verifier::external_body]
pub fn from_be_bytes_u16(a: [u8; 2]) -> (r: u16) ensures r as int == val16(a@) { u16::from_be_bytes(a) }
#[verifier::external_body]
pub fn from_be_bytes_u32(a: [u8; 4]) -> (r: u32) ensures r as int == val32(a@) { u32::from_be_bytes(a) }
#[verifier::external_body]
pub fn from_be_bytes_u64(a: [u8; 8]) -> (r: u64) ensures r as int == val64(a@) { u64::from_be_bytes(a) }
#[verifier::external_body]
pub fn from_be_bytes_i8(a: [u8; 1]) -> (r: i8) ensures r as int == sval8(a@) { i8::from_be_bytes(a) }
#[verifier::external_body]
pub fn from_be_bytes_i16(a: [u8; 2]) -> (r: i16) ensures r as int == sval16(a@) { i16::from_be_bytes(a) }
#[verifier::external_body]
pub fn from_be_bytes_i32(a: [u8; 4]) -> (r: i32) ensures r as int == sval32(a@) { i32::from_be_bytes(a) }
#[verifier::external_body]
pub fn from_be_bytes_i64(a: [u8; 8]) -> (r: i64) ensures r as int == sval64(a@) { i64::from_be_bytes(a) }
