"""Mechanical cutting of Rust items out of a source text.

Nothing here understands Rust semantics: items are located by name and cut by
brace matching over a *code mask* (comments, string/char literals masked out).
"""
import re


class CutError(Exception):
    """anchor lost / item not found: the caller turns this into UNDECIDED (exit 2)"""


def code_mask(src: str) -> str:
    """Return a string of the same length where every character that is inside a
    comment, string literal or char literal is replaced by a space (newlines kept)."""
    out = list(src)
    i, n = 0, len(src)

    def blank(a, b):
        for k in range(a, b):
            if out[k] != '\n':
                out[k] = ' '

    while i < n:
        c = src[i]
        if c == '/' and i + 1 < n and src[i + 1] == '/':
            j = src.find('\n', i)
            if j < 0:
                j = n
            blank(i, j)
            i = j
        elif c == '/' and i + 1 < n and src[i + 1] == '*':
            depth, j = 1, i + 2
            while j < n and depth > 0:
                if src.startswith('/*', j):
                    depth += 1
                    j += 2
                elif src.startswith('*/', j):
                    depth -= 1
                    j += 2
                else:
                    j += 1
            blank(i, j)
            i = j
        elif c == '"' or (c in 'rb' and re.match(r'(?:b?r#*"|b")', src[i:i + 12]) and (i == 0 or not (src[i - 1].isalnum() or src[i - 1] == '_'))):
            m = re.match(r'b?r(#*)"', src[i:i + 12])
            if m:
                hashes = m.group(1)
                start = i + len(m.group(0))
                end_tok = '"' + hashes
                j = src.find(end_tok, start)
                j = n if j < 0 else j + len(end_tok)
            else:
                j = i + (2 if c == 'b' else 1)
                while j < n and src[j] != '"':
                    j += 2 if src[j] == '\\' else 1
                j += 1
            blank(i + 0, j)
            # keep the delimiters visible as quotes so that token boundaries stay
            out[i] = '"'
            if j - 1 < n:
                out[j - 1] = '"'
            i = j
        elif c == "'":
            # char literal or lifetime
            m = re.match(r"'(?:\\(?:x[0-9a-fA-F]{2}|u\{[0-9a-fA-F_]+\}|.)|[^\\'])'", src[i:i + 14])
            if m:
                j = i + len(m.group(0))
                blank(i + 1, j - 1)
                i = j
            else:
                i += 1
        else:
            i += 1
    return ''.join(out)


def match_close(mask: str, open_pos: int) -> int:
    """mask[open_pos] is one of ([{ ; return index of the matching closer."""
    pairs = {'(': ')', '[': ']', '{': '}'}
    o = mask[open_pos]
    c = pairs[o]
    depth = 0
    i = open_pos
    n = len(mask)
    while i < n:
        ch = mask[i]
        if ch == o:
            depth += 1
        elif ch == c:
            depth -= 1
            if depth == 0:
                return i
        i += 1
    raise CutError(f'unbalanced {o} at offset {open_pos}')


class Source:
    def __init__(self, path: str, text: str = None):
        self.path = path
        if text is None:
            with open(path, encoding='utf-8') as f:
                text = f.read()
        self.text = text
        self.mask = code_mask(text)

    def line_of(self, off: int) -> int:
        return self.text.count('\n', 0, off) + 1

    # -- locating -----------------------------------------------------------
    def _find_all(self, pattern: str, lo=0, hi=None):
        hi = len(self.text) if hi is None else hi
        return [m for m in re.finditer(pattern, self.mask[lo:hi], re.M)], lo

    def find_block(self, header_re: str, lo=0, hi=None, which=0):
        """Find `header_re` (matched on the mask) and return (start, open_brace, close_brace)
        where start is the start of the match (extended back over attributes / doc
        comments), open/close the braces of the block that follows the header."""
        ms, base = self._find_all(header_re, lo, hi)
        if len(ms) <= which:
            raise CutError(f'{self.path}: no match #{which} for /{header_re}/')
        m = ms[which]
        start = base + m.start()
        # find the opening brace (skip where-clauses etc.), stop at ';' => no body
        i = base + m.end()
        depth_paren = 0
        while i < len(self.mask):
            ch = self.mask[i]
            if ch in '([':
                i = match_close(self.mask, i)
            elif ch == '<':
                pass
            elif ch == '{':
                break
            elif ch == ';':
                raise CutError(f'{self.path}: /{header_re}/ has no body')
            i += 1
        else:
            raise CutError(f'{self.path}: /{header_re}/ has no body')
        close = match_close(self.mask, i)
        return start, i, close

    def extend_back_over_attrs(self, start: int) -> int:
        """extend `start` backwards to include preceding #[...] attribute lines and doc comments"""
        line_start = self.text.rfind('\n', 0, start) + 1
        s = line_start
        while s > 0:
            prev_end = s - 1
            prev_start = self.text.rfind('\n', 0, prev_end) + 1
            line = self.text[prev_start:prev_end].strip()
            if line.startswith('#[') or line.startswith('///'):
                s = prev_start
            else:
                break
        return s

    def cut_fn(self, name: str, within=None, which=0):
        """Cut `fn name` (optionally inside the block (lo,hi) given by `within`).
        Returns dict(text, sig, body, start_line, end_line)."""
        lo, hi = (0, len(self.text)) if within is None else within
        hdr = r'(?:pub(?:\([a-z]+\))?\s+)?(?:const\s+)?(?:async\s+)?(?:unsafe\s+)?fn\s+' + re.escape(name) + r'\b'
        start, ob, cb = self.find_block(hdr, lo, hi, which)
        return dict(text=self.text[start:cb + 1], sig=self.text[start:ob], body=self.text[ob:cb + 1],
                    start=start, open=ob, close=cb,
                    start_line=self.line_of(start), end_line=self.line_of(cb))

    def cut_decl(self, name: str, within=None):
        """a bodiless fn declaration `fn name(..) -> T;` (trait method)"""
        lo, hi = (0, len(self.text)) if within is None else within
        m = re.search(r'fn\s+' + re.escape(name) + r'\b', self.mask[lo:hi])
        if not m:
            raise CutError(f'{self.path}: fn {name} (declaration) not found')
        start = lo + m.start()
        i = lo + m.end()
        while i < len(self.mask) and self.mask[i] not in ';{':
            if self.mask[i] in '([':
                i = match_close(self.mask, i)
            i += 1
        if i >= len(self.mask) or self.mask[i] != ';':
            raise CutError(f'{self.path}: fn {name} is not a bodiless declaration any more')
        return dict(text=self.text[start:i + 1], sig=self.text[start:i], body=';', start=start, open=i, close=i,
                    start_line=self.line_of(start), end_line=self.line_of(i))

    def block_range(self, header_re: str, which=0, within=None):
        lo, hi = (0, len(self.text)) if within is None else within
        start, ob, cb = self.find_block(header_re, lo, hi, which)
        return ob + 1, cb

    def cut_item(self, kind: str, name: str, which=0, within=None, with_attrs=True):
        """kind in struct|enum|impl|trait|mod ; returns dict(text,start_line,end_line)"""
        lo, hi = (0, len(self.text)) if within is None else within
        if kind == 'impl':
            hdr = r'impl(?:<[^{]*?>)?\s+' + name + r'(?=[\s<{])'
        else:
            hdr = r'(?:pub(?:\([a-z]+\))?\s+)?' + kind + r'\s+' + re.escape(name) + r'\b'
        start, ob, cb = self.find_block(hdr, lo, hi, which)
        s0 = self.extend_back_over_attrs(start) if with_attrs else start
        return dict(text=self.text[s0:cb + 1], start=s0, open=ob, close=cb,
                    start_line=self.line_of(s0), end_line=self.line_of(cb), header=self.text[start:ob])

    def cut_const(self, name: str, within=None):
        lo, hi = (0, len(self.text)) if within is None else within
        m = re.search(r'(?:pub(?:\([a-z]+\))?\s+)?const\s+' + re.escape(name) + r'\s*:', self.mask[lo:hi])
        if not m:
            raise CutError(f'{self.path}: const {name} not found')
        start = lo + m.start()
        end = self.mask.find(';', start)
        return dict(text=self.text[start:end + 1], start_line=self.line_of(start), end_line=self.line_of(end))


# ---- text rewriting helpers (all operate on masks so literals/comments are safe) ----

def replace_macro_calls(text: str, macro: str, repl, stmt=False) -> (str, int):
    """Replace every `macro!( ... )` (balanced) by repl (str or callable(inner)).
    If stmt, a directly following ';' is kept. Returns (text, count)."""
    count = 0
    while True:
        mask = code_mask(text)
        m = re.search(r'\b' + re.escape(macro) + r'!\s*\(', mask)
        if not m:
            return text, count
        op = m.end() - 1
        cl = match_close(mask, op)
        inner = text[op + 1:cl]
        r = repl(inner) if callable(repl) else repl
        # keep the number of newlines so that line maps stay aligned
        r = r + '\n' * text[m.start():cl + 1].count('\n')
        text = text[:m.start()] + r + text[cl + 1:]
        count += 1


def remove_method_calls(text: str, method: str, repl='') -> (str, int):
    """Remove every `.method( ... )` (balanced) or replace it with `repl`."""
    count = 0
    pos = 0
    while True:
        mask = code_mask(text)
        m = re.compile(r'\s*\.\s*' + re.escape(method) + r'\s*\(').search(mask, pos)
        if not m:
            return text, count
        op = m.end() - 1
        cl = match_close(mask, op)
        r = (repl(text[op + 1:cl]) if callable(repl) else repl)
        r = r + '\n' * text[m.start():cl + 1].count('\n')
        text = text[:m.start()] + r + text[cl + 1:]
        pos = m.start() + len(r)
        count += 1


def loop_headers(body: str):
    """offsets (into body) of the opening brace of each loop (`for`, `while`, `loop`)
    in textual order."""
    mask = code_mask(body)
    res = []
    for m in re.finditer(r'\b(for|while|loop)\b', mask):
        kw = m.group(1)
        # `for<'a>` in types / `impl X for Y` are not loops: require statement position
        j = m.start() - 1
        while j >= 0 and mask[j] in ' \t':
            j -= 1
        prev = mask[j] if j >= 0 else '\n'
        if kw == 'for' and prev not in '\n{};:':
            # allow labels  'a: for
            continue
        if kw == 'for' and not re.match(r'for\s+[^;{]*?\bin\b', mask[m.start():m.start() + 400], re.S):
            continue
        i = m.end()
        while i < len(mask):
            if mask[i] in '([':
                i = match_close(mask, i)
            elif mask[i] == '{':
                break
            i += 1
        if i < len(mask):
            res.append((m.start(), i))
    return res
